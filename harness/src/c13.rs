//! C13 exact nearest neighbours: the public VecIndex API (stream "api", "nan") and
//! histories on real memories (stream "mem": put_with_embedding / delete / commit /
//! reopen / search_vec).  Distances handed to the Coq model are the values the real kernel
//! (memvid_core::simd::l2_distance_simd) returns, as bit patterns; the property oracle
//! recomputes the answer by brute force from the same kernel and is tolerant to ties
//! exactly as the property is.  A NaN distance is read as "undefined = farthest": it is never
//! closer than anything, every defined distance is closer than it.
//! The three defects this check found (an accepted empty embedding made search_vec panic; a NaN
//! distance broke the order or made sort_by panic; after the first repair a sign-set NaN
//! distance ranked first) are repaired in /repo (564c799, 9a670c1, 1932440): their witnesses
//! run first as a fixed corpus, and the generators keep producing empty embeddings and NaN
//! (both signs) / inf components; any failure is a plain violation now.
use crate::store::*;
use crate::term::*;
use memvid_core::simd::l2_distance_simd;
use memvid_core::vec::{VecIndex, VecIndexBuilder};
use memvid_core::MemvidError;
use std::collections::HashMap;
use std::panic::{catch_unwind, AssertUnwindSafe};

/// distinct float vectors of one case, numbered by bit pattern
struct Pool { ids: HashMap<Vec<u32>, u64>, vecs: Vec<Vec<f32>> }
impl Pool {
    fn new() -> Self { Pool { ids: HashMap::new(), vecs: vec![] } }
    fn id(&mut self, v: &[f32]) -> u64 {
        let k: Vec<u32> = v.iter().map(|x| x.to_bits()).collect();
        if let Some(i) = self.ids.get(&k) { return *i; }
        let i = self.vecs.len() as u64; self.ids.insert(k, i); self.vecs.push(v.to_vec()); i
    }
    fn emb(&mut self, v: &[f32]) -> T { let i = self.id(v); T::Tup(vec![T::N(v.len() as u128), T::N(i as u128)]) }
    /// rows of the distance table for the given queries: every pooled vector of the query's dimension
    fn table(&self, queries: &[u64]) -> T {
        let mut seen = std::collections::HashSet::new();
        let mut rows = vec![];
        for q in queries {
            if !seen.insert(*q) { continue; }
            let qv = &self.vecs[*q as usize];
            let mut row = vec![];
            if !qv.is_empty() {
                for (i, v) in self.vecs.iter().enumerate() {
                    if v.len() == qv.len() { row.push(T::Tup(vec![T::N(i as u128), key_term(l2_distance_simd(qv, v))])); }
                }
            }
            rows.push(T::Tup(vec![T::N(*q as u128), T::L(row)]));
        }
        T::L(rows)
    }
}

/// did the mutating call end with an automatic checkpoint (= a commit)?  read from the driver's oracle term
fn auto_commit(obs: &StepObs) -> bool {
    obs.auto_committed || matches!(&obs.op_term, T::C(_, args) if matches!(args.last(), Some(T::O(Some(_)))))
}

fn key_term(d: f32) -> T { T::N(d.to_bits() as u128) }
fn hits_term(h: &[(u64, f32)]) -> T { T::L(h.iter().map(|(f, d)| T::Tup(vec![T::N(*f as u128), key_term(*d)])).collect()) }
fn ok(t: T) -> T { T::C("Ok", vec![t]) }
fn err(k: u128) -> T { T::C("Err", vec![T::N(k)]) }
fn panic_t() -> T { T::C("Panic", vec![T::N(0)]) }
fn err_kind(e: &MemvidError) -> u128 {
    match e { MemvidError::VecNotEnabled => 1, MemvidError::VecDimensionMismatch { .. } => 2, MemvidError::InvalidToc { .. } => 3, _ => 99 }
}

#[derive(Clone, Copy, PartialEq)]
enum Style { Tern, SmallInt, Binary, Uniform, Extreme, Nan }

fn gen_comp(r: &mut Rng, s: Style) -> f32 {
    match s {
        Style::Tern => (r.below(3) as i32 - 1) as f32,
        Style::SmallInt => (r.below(7) as i32 - 3) as f32,
        Style::Binary => r.below(2) as f32,
        Style::Uniform => ((r.next() >> 40) as f32 / (1u64 << 23) as f32) - 1.0,
        // finite extremes and +-inf: with finite queries the distances are finite, +inf, never NaN
        Style::Extreme => *r.pick(&[f32::MAX, -f32::MAX, f32::MIN_POSITIVE, 1e-45, -1e-45, 1e38, -1e38, 0.0, -0.0, 1.0, -1.0, 1.8446743e19, 3.4e38, 1.0e-20]),
        // f32::NAN is 0x7FC00000; a NaN computed on x86 (0.0 / 0.0, inf - inf) is 0xFFC00000: sign bit set
        Style::Nan => *r.pick(&[f32::NAN, f32::from_bits(0xFFC0_0000), f32::INFINITY, f32::NEG_INFINITY, 0.0, 1.0, -2.0, 3.0, f32::MAX, 0.5, 1.0, 2.0]),
    }
}
fn gen_vec(r: &mut Rng, dim: usize, s: Style) -> Vec<f32> { (0..dim).map(|_| gen_comp(r, s)).collect() }
/// dimensions: 1..=40 (every residue mod 8, 16 and 32) and the edges of 48, 64, 128, 384
const BIG_DIMS: [usize; 12] = [47, 48, 49, 63, 64, 65, 127, 128, 129, 383, 384, 385];
fn pick_dim(r: &mut Rng) -> usize { if r.chance(1, 5) { *r.pick(&BIG_DIMS) } else { r.range(1, 40) as usize } }
fn dim_tags(dim: usize) -> Vec<String> { vec![format!("dim={}", dim), format!("dim%16={}", dim % 16)] }
fn pick_style(r: &mut Rng) -> Style {
    match r.below(10) { 0..=2 => Style::Tern, 3..=4 => Style::SmallInt, 5 => Style::Binary, 6..=8 => Style::Uniform, _ => Style::Extreme }
}
fn pick_k(r: &mut Rng, m: usize) -> u64 {
    match r.below(9) { 0 => 0, 1 => 1, 2 => m.saturating_sub(1) as u64, 3 => m as u64, 4 => m as u64 + 5, 5 => u64::MAX, 6 => m as u64 + 1, _ => r.below(m as u64 + 2) }
}

/// a vector that differs from `base` only where the mode says
fn vary(r: &mut Rng, base: &[f32], variation: u64, style: Style) -> Vec<f32> {
    let dim = base.len();
    if variation == 0 || variation > 3 || dim == 0 { return gen_vec(r, dim, style); }
    let mut v = base.to_vec();
    let t = (r.range(1, 3) as usize).min(dim);
    for j in 0..t {
        let i = match variation { 1 => dim - 1 - j, 2 => j, _ => r.below(dim as u64) as usize };
        v[i] = gen_comp(r, style);
        if variation == 3 { break; }
    }
    v
}

/// Independent reference: the L2 distance in f64 (no use of the crate's kernel).  Applicable when every
/// coordinate difference is 0 or of magnitude 1e-15..1e15 (no overflow/underflow of a square in f32);
/// then the f32 kernel result must lie within a dimension-aware rounding margin of it.
fn ref_distance(q: &[f32], v: &[f32]) -> Option<f64> {
    if q.len() != v.len() { return None; }
    let mut s = 0f64;
    for (a, b) in q.iter().zip(v.iter()) {
        let d = *a as f64 - *b as f64;
        if !d.is_finite() { return None; }
        if d != 0.0 && !(1e-15..=1e15).contains(&d.abs()) { return None; }
        s += d * d;
    }
    Some(s.sqrt())
}
fn ref_margin(dim: usize) -> f64 { (dim as f64 + 8.0) * 2.4e-7 }

/// the property against the independent reference: every reported distance is the reference distance up to
/// rounding, and with the reference distances no later hit / omitted document is closer beyond the margin
fn ref_oracle(docs: &[(u64, Vec<f32>)], q: &[f32], k: u64, hits: &[(u64, f32)]) -> Result<Option<String>, ()> {
    let mut refs: Vec<(u64, f64)> = vec![];
    for (f, v) in docs { match ref_distance(q, v) { Some(d) => refs.push((*f, d)), None => return Err(()) } }
    let eps = ref_margin(q.len());
    let m = docs.len();
    if hits.len() != (k.min(m as u64)) as usize { return Ok(None); } // counted by the other oracle
    // assign hits to documents: same frame id and a reference distance matching the reported one
    let mut used = vec![false; m]; let mut hit_ref: Vec<f64> = vec![];
    for (f, d) in hits {
        let dd = *d as f64;
        match (0..m).find(|i| !used[*i] && refs[*i].0 == *f && (dd - refs[*i].1).abs() <= eps * refs[*i].1.max(dd) + 1e-30) {
            Some(i) => { used[i] = true; hit_ref.push(refs[i].1); }
            None => return Ok(Some(format!("distance: hit (frame {}, distance {:?}) matches no document of that frame id whose f64 reference distance is within {:e} relative", f, d, eps))),
        }
    }
    for i in 0..hit_ref.len() { for j in i + 1..hit_ref.len() { if hit_ref[j] * (1.0 + eps) < hit_ref[i] * (1.0 - eps) {
        return Ok(Some(format!("order: by the f64 reference hit {} (frame {}, {:e}) is farther than hit {} (frame {}, {:e})", i, hits[i].0, hit_ref[i], j, hits[j].0, hit_ref[j]))); } } }
    if let Some(last) = hit_ref.last() {
        for i in 0..m { if !used[i] && refs[i].1 * (1.0 + eps) < last * (1.0 - eps) {
            return Ok(Some(format!("omitted-closer: by the f64 reference frame {} at {:e} is omitted although the last of {} hits is at {:e}", refs[i].0, refs[i].1, hits.len(), last))); } }
    }
    Ok(None)
}

/// "a is strictly closer than b", an undefined (NaN) distance being farthest
fn closer(a: f32, b: f32) -> bool { !a.is_nan() && (b.is_nan() || a < b) }

/// the property on one answer, from the brute-force distances `all` (frame, distance) in index
/// order; returns the first failure.  Tie order is NOT demanded (the property does not).
fn nn_oracle(all: &[(u64, f32)], k: u64, hits: &[(u64, f32)]) -> Option<String> {
    let m = all.len();
    let want = (k.min(m as u64)) as usize;
    if hits.len() != want { return Some(format!("count: {} hits returned, min(k={}, m={}) = {} expected", hits.len(), k, m, want)); }
    // every hit is a distinct document of the index with the kernel's distance
    let mut used = vec![false; m];
    for (f, d) in hits {
        match (0..m).find(|i| !used[*i] && all[*i].0 == *f && all[*i].1.to_bits() == d.to_bits()) {
            Some(i) => used[i] = true,
            None => return Some(format!("membership: hit (frame {}, distance {:?}) is not an unused (frame, kernel distance) pair of the index", f, d)),
        }
    }
    for i in 0..hits.len() { for j in i + 1..hits.len() { if closer(hits[j].1, hits[i].1) {
        return Some(format!("order: hit {} (frame {}, {:?}) comes before hit {} (frame {}, {:?})", i, hits[i].0, hits[i].1, j, hits[j].0, hits[j].1)); } } }
    if let Some(last) = hits.last() {
        for i in 0..m { if !used[i] && closer(all[i].1, last.1) {
            return Some(format!("omitted-closer: frame {} at distance {:?} is omitted although the last of {} hits (frame {}) is at {:?}", all[i].0, all[i].1, hits.len(), last.0, last.1)); } }
    }
    None
}

/// class tag of a failure.  No class is known any more (F-C13-1, -2, -3 are repaired in /repo):
/// the text is returned as it is and every failure is a plain violation.  The switch below is
/// what put order failures of answers with a sign-set NaN distance into class F-C13-3.
fn classify(all: &[(u64, f32)], _has_empty: bool, what: String) -> String {
    let kind = what.split(':').next().unwrap_or("").to_string();
    if NEG_NAN_CLASS && all.iter().any(|(_, d)| d.is_nan() && d.is_sign_negative()) && matches!(kind.as_str(), "order" | "omitted-closer") { format!("negative-nan-first: {}", what) }
    else { what }
}
const NEG_NAN_CLASS: bool = false;

// ------------------------------------------------------------------ stream api / nan
fn api_case(r: &mut Rng, nan: bool, forced_dim: Option<usize>, w: &mut dyn std::io::Write) {
    let mut tags: Vec<String> = vec![];
    let m = match r.below(100) { 0..=4 => 0usize, 5..=9 => 1, 10..=34 => r.range(2, 8) as usize, 35..=74 => r.range(9, 40) as usize, 75..=92 => r.range(41, 120) as usize, _ => r.range(121, 300) as usize };
    let m = if nan { m.min(60) } else { m };
    let dim = forced_dim.unwrap_or_else(|| pick_dim(r));
    let style = if nan { Style::Nan } else { pick_style(r) };
    // how the documents differ from each other: independently drawn, or one base vector changed only in
    // its last 1-3 coordinates (the scalar tail of the kernel), only in its first 1-3, or in one random place
    let variation = if nan { 0 } else { r.below(5) };
    let base = gen_vec(r, dim, style);
    let dup = r.chance(1, 3);
    let mixed = !nan && r.chance(1, 12) && m >= 2;
    let mut docs: Vec<(u64, Vec<f32>)> = vec![];
    let idmode = r.below(6);
    for i in 0..m {
        let v = if dup && !docs.is_empty() && r.chance(3, 10) { docs[r.below(docs.len() as u64) as usize].1.clone() } else { vary(r, &base, variation, style) };
        let fid = match idmode { 0 => (m - 1 - i) as u64, 1 => r.below(m as u64 / 2 + 1), 2 => i as u64 * 7 + 3, _ => i as u64 };
        docs.push((fid, v));
    }
    if mixed { let i = r.below(m as u64) as usize; let d2 = if r.chance(1, 3) { 0 } else if r.chance(1, 2) { dim + 1 } else { dim.saturating_sub(1) }; docs[i].1 = gen_vec(r, d2, style); tags.push("mixed-dim".into()); }
    tags.push(format!("m{}", match m { 0 => "0", 1 => "1", 2..=8 => "2-8", 9..=40 => "9-40", 41..=120 => "41-120", _ => "121-300" }));
    tags.extend(dim_tags(dim));
    tags.push(match style { Style::Tern => "tern", Style::SmallInt => "smallint", Style::Binary => "binary", Style::Uniform => "uniform", Style::Extreme => "extreme", Style::Nan => "naninf" }.into());
    if dup { tags.push("dup-vectors".into()); }
    tags.push(match variation { 1 => "differ-in-tail", 2 => "differ-in-head", 3 => "differ-in-one-coordinate", _ => "independent-vectors" }.into());

    let nq = r.range(2, 5);
    let mut queries: Vec<(Vec<f32>, u64)> = vec![];
    for _ in 0..nq {
        let qk = r.below(12);
        let q: Vec<f32> = match qk {
            0 if m > 0 => docs[r.below(m as u64) as usize].1.clone(),
            1 => vec![],
            2 => gen_vec(r, dim + 1, style),
            3 if dim > 1 => gen_vec(r, dim - 1, style),
            4 if !nan => gen_vec(r, dim, Style::SmallInt),
            5..=8 if variation != 0 => if r.chance(1, 2) { base.clone() } else { vary(r, &base, variation, style) },
            _ => { let st = if nan && r.chance(1, 2) { Style::SmallInt } else { style }; gen_vec(r, dim, st) }
        };
        let k = pick_k(r, m);
        queries.push((q, k));
    }
    run_api_case(&docs, &queries, tags, if nan { "nan" } else { "api" }, None, w);
}

/// one case on the public API: builder -> artifact -> decode -> searches; emits the case
fn run_api_case(docs: &[(u64, Vec<f32>)], queries: &[(Vec<f32>, u64)], mut tags: Vec<String>, stream: &str, fixed_key: Option<&str>, w: &mut dyn std::io::Write) {
    let mut pool = Pool::new();
    let m = docs.len();
    // the implementation: builder -> artifact -> decode
    let mut b = VecIndexBuilder::new();
    for (f, v) in docs { b.add_document(*f, v.clone()); }
    let artifact = b.finish().expect("finish");
    let index = VecIndex::decode(&artifact.bytes).expect("decode");
    let mut viol: Option<String> = None;
    // reopen equality at this level: the decoded index holds the documents bit for bit, in order
    let back: Vec<(u64, Vec<u32>)> = index.entries().map(|(f, e)| (f, e.iter().map(|x| x.to_bits()).collect())).collect();
    let orig: Vec<(u64, Vec<u32>)> = docs.iter().map(|(f, e)| (*f, e.iter().map(|x| x.to_bits()).collect())).collect();
    if back != orig { viol = Some("roundtrip: VecIndex::decode(finish().bytes) does not hold the documents that were added".into()); }
    let want_len = 8 + docs.iter().map(|(_, e)| 16 + 4 * e.len()).sum::<usize>();
    if artifact.bytes.len() != want_len { viol = Some(format!("roundtrip: artifact has {} bytes, {} expected", artifact.bytes.len(), want_len)); }

    let mut qterms = vec![]; let mut qids = vec![]; let mut outs = vec![]; let mut nontrivial = false;
    for (q, k) in queries {
        let k = *k;
        let qid = pool.id(q);
        for (_, v) in docs { pool.id(v); }
        qids.push(qid);
        qterms.push(T::Tup(vec![T::Tup(vec![T::N(q.len() as u128), T::N(qid as u128)]), T::N(k as u128)]));
        let res = catch_unwind(AssertUnwindSafe(|| index.search(q, k as usize)));
        let same_dim = docs.iter().all(|(_, v)| v.len() == q.len());
        let all: Vec<(u64, f32)> = if same_dim && !q.is_empty() { docs.iter().map(|(f, v)| (*f, l2_distance_simd(q, v))).collect() } else { vec![] };
        if all.iter().any(|(_, d)| d.is_nan()) { tags.push("nan-distance".into()); }
        if all.iter().any(|(_, d)| d.is_nan() && d.is_sign_negative()) { tags.push("nan-distance-sign-set".into()); }
        if all.iter().any(|(_, d)| d.is_infinite()) { tags.push("inf-distance".into()); }
        // the one hypothesis of the numeric reading on the kernel: no distance is a negative number
        if let Some((f, d)) = all.iter().find(|(_, d)| !d.is_nan() && d.is_sign_negative()) { tags.push("negative-distance".into()); viol.get_or_insert(format!("kernel-negative-distance: the kernel returned {:?} (bits {:08x}) for frame {}", d, d.to_bits(), f)); }
        match res {
            Err(_) => {
                outs.push(panic_t());
                if same_dim { viol.get_or_insert(classify(&all, false, format!("panic: VecIndex::search panicked although all {} documents have the query's dimension (k = {})", m, k))); }
            }
            Ok(h) => {
                let hits: Vec<(u64, f32)> = h.iter().map(|x| (x.frame_id, x.distance)).collect();
                outs.push(ok(hits_term(&hits)));
                if same_dim && !q.is_empty() {
                    if let Some(wh) = nn_oracle(&all, k, &hits) { viol.get_or_insert(classify(&all, false, wh)); }
                    match ref_oracle(docs, q, k, &hits) {
                        Ok(Some(wh)) => { viol.get_or_insert(format!("reference-{}", wh)); tags.push("f64-reference".into()); }
                        Ok(None) => tags.push("f64-reference".into()),
                        Err(()) => tags.push("f64-reference-not-applicable".into()),
                    }
                    if m >= 2 && k >= 1 { nontrivial = true; }
                    let mut ds: Vec<u32> = all.iter().map(|x| x.1.to_bits()).collect(); ds.sort(); ds.dedup();
                    if ds.len() < all.len() { tags.push("ties".into()); }
                } else if q.is_empty() && !hits.is_empty() { viol.get_or_insert("empty-query: hits returned for an empty query".into()); }
            }
        }
    }
    tags.sort(); tags.dedup();
    let docs_t = T::L(docs.iter().map(|(f, v)| T::Tup(vec![T::N(*f as u128), pool.emb(v)])).collect());
    let input = T::Tup(vec![docs_t, T::L(qterms), pool.table(&qids)]);
    let key = match fixed_key { Some(k) => k.to_string(), None => blake3::hash(input.coq().as_bytes()).to_hex()[..16].to_string() };
    let output = T::Tup(vec![T::N(artifact.vector_count as u128), T::N(artifact.dimension as u128), T::L(outs)]);
    emit(w, stream, &Case { input, output, violation: viol, nontrivial, tags, key });
}

// ------------------------------------------------------------------ stream mem
struct RefIndex { committed: Vec<(u64, Vec<f32>)>, pending_put: Vec<(u64, Vec<f32>)>, pending_del: Vec<u64>, dirty: bool }
impl RefIndex {
    /// what a commit does to the set of active embedded frames (index order = insertion order)
    fn commit(&mut self) {
        if !self.dirty { return; }
        let del = std::mem::take(&mut self.pending_del);
        self.committed.retain(|(f, _)| !del.contains(f));
        self.committed.append(&mut self.pending_put);
        self.dirty = false;
    }
}

/// one search_vec call on the real memory: records the model op and the implementation's answer,
/// and evaluates the property against the reference set of active embedded frames
fn do_search(d: &mut Driver, pool: &mut Pool, rf: &RefIndex, q: &[f32], k: u64, ops: &mut Vec<T>, outs: &mut Vec<T>, qids: &mut Vec<u64>, viol: &mut Option<String>, has_empty: bool, nontrivial: &mut bool)
    -> Option<Result<Vec<(u64, f32)>, u128>> {
    let qid = pool.id(q); qids.push(qid);
    ops.push(T::C("VSearch", vec![T::Tup(vec![T::N(q.len() as u128), T::N(qid as u128)]), T::N(k as u128)]));
    let res = catch_unwind(AssertUnwindSafe(|| d.mem().search_vec(q, k as usize)));
    let m = rf.committed.len();
    let idx_dim = rf.committed.first().map(|(_, v)| v.len());
    let uniform = rf.committed.iter().all(|(_, v)| Some(v.len()) == idx_dim);
    let all: Vec<(u64, f32)> = if uniform && idx_dim == Some(q.len()) { rf.committed.iter().map(|(f, v)| (*f, l2_distance_simd(q, v))).collect() } else { vec![] };
    if let Some((f, d)) = all.iter().find(|(_, d)| !d.is_nan() && d.is_sign_negative()) { viol.get_or_insert(format!("kernel-negative-distance: the kernel returned {:?} (bits {:08x}) for frame {}", d, d.to_bits(), f)); }
    match res {
        Err(_) => {
            outs.push(panic_t());
            viol.get_or_insert(classify(&all, has_empty, format!("panic: search_vec panicked (query dimension {}, {} active embedded frames, k = {})", q.len(), m, k)));
            None
        }
        Ok(Err(e)) => {
            let kd = err_kind(&e); outs.push(err(kd));
            if m > 0 && idx_dim == Some(q.len()) && uniform {
                viol.get_or_insert(classify(&all, has_empty, format!("rejected: search_vec returned '{}' for a query of the index dimension {} over {} active embedded frames", e, q.len(), m)));
            }
            Some(Err(kd))
        }
        Ok(Ok(h)) => {
            let hits: Vec<(u64, f32)> = h.iter().map(|x| (x.frame_id, x.distance)).collect();
            outs.push(ok(hits_term(&hits)));
            if m > 0 && idx_dim != Some(q.len()) && uniform {
                viol.get_or_insert(classify(&all, has_empty, format!("wrong-dim-accepted: a query of dimension {} was answered over an index of dimension {:?}", q.len(), idx_dim)));
            } else if m > 0 && uniform {
                if let Some(wh) = nn_oracle(&all, k, &hits) { viol.get_or_insert(classify(&all, has_empty, wh)); }
                if let Ok(Some(wh)) = ref_oracle(&rf.committed, q, k, &hits) { viol.get_or_insert(format!("reference-{}", wh)); }
                if m >= 2 && k >= 1 { *nontrivial = true; }
            } else if m == 0 && !hits.is_empty() {
                viol.get_or_insert(classify(&all, has_empty, format!("count: {} hits over an index without active embedded frames", hits.len())));
            }
            Some(Ok(hits))
        }
    }
}

enum S { Put(Option<Vec<f32>>), Del(u64), Commit, Reopen, Search(Vec<f32>, u64) }

/// a fixed history through the corners of the dimension logic: empty memory, pending only,
/// committed, wrong dimension, delete everything (dimension forgotten), another dimension, reopen
fn script_dimension_corners() -> Vec<S> {
    vec![
        S::Search(vec![1.0, 2.0], 3), S::Put(None), S::Search(vec![1.0, 2.0], 3),
        S::Put(Some(vec![1.0, 0.0])), S::Put(Some(vec![0.0, 3.0])), S::Search(vec![1.0, 2.0], 3), S::Search(vec![1.0, 2.0, 3.0], 3),
        S::Commit, S::Search(vec![1.0, 2.0], 1), S::Search(vec![1.0, 2.0], 5), S::Search(vec![1.0], 5), S::Search(vec![], 5), S::Put(Some(vec![1.0, 2.0, 3.0])),
        S::Del(1), S::Search(vec![1.0, 2.0], 5), S::Del(2), S::Commit, S::Search(vec![1.0, 2.0], 5), S::Search(vec![1.0, 2.0, 3.0], 5), S::Search(vec![], 5),
        S::Reopen, S::Search(vec![1.0, 2.0], 5), S::Search(vec![4.0], 2),
        S::Put(Some(vec![1.0, 2.0, 2.0])), S::Put(Some(vec![1.0, 2.0])), S::Search(vec![1.0, 2.0], 5), S::Commit, S::Search(vec![1.0, 2.0, 3.0], 5), S::Search(vec![1.0, 2.0], 5),
        S::Reopen, S::Search(vec![1.0, 2.0, 3.0], 5),
    ]
}

/// fixed corpus, former finding F-C13-1 (repaired by 564c799): an empty embedding after a real
/// one, and an empty embedding as the very first one (it used to switch the dimension check off)
fn script_empty_embedding_after() -> Vec<S> {
    vec![S::Put(Some(vec![1.0, 0.0])), S::Put(Some(vec![])), S::Commit, S::Search(vec![1.0, 2.0], 1), S::Search(vec![1.0, 2.0], 5),
         S::Reopen, S::Search(vec![1.0, 2.0], 5), S::Del(1), S::Commit, S::Search(vec![1.0, 2.0], 5)]
}
fn script_empty_embedding_first() -> Vec<S> {
    vec![S::Put(Some(vec![])), S::Search(vec![1.0, 2.0], 3), S::Commit, S::Search(vec![1.0, 2.0], 3), S::Put(Some(vec![5.0, 5.0])), S::Put(Some(vec![])), S::Commit,
         S::Search(vec![1.0, 2.0], 3), S::Put(Some(vec![1.0, 2.0, 3.0])), S::Put(Some(vec![2.0, 2.0])), S::Reopen, S::Search(vec![1.0, 2.0], 3), S::Search(vec![1.0, 2.0, 3.0], 3)]
}
/// fixed corpus, former finding F-C13-2 on a real memory: inf and NaN components stored
fn script_nan_components() -> Vec<S> {
    vec![S::Put(Some(vec![4.0, 2.0])), S::Put(Some(vec![7.0, 2.0])), S::Put(Some(vec![f32::INFINITY, 2.0])), S::Put(Some(vec![f32::NAN, 2.0])), S::Put(Some(vec![2.0, 4.0])),
         S::Commit, S::Search(vec![1.0, 2.0], 1), S::Search(vec![1.0, 2.0], 3), S::Search(vec![1.0, 2.0], 9), S::Search(vec![f32::NAN, 2.0], 2), S::Search(vec![-3.0, f32::NEG_INFINITY], 9),
         S::Reopen, S::Search(vec![1.0, 2.0], 9)]
}
/// fixed corpus, former finding F-C13-3 (repaired by 1932440) on a real memory: query and a stored embedding are both
/// +inf in the first component: inf - inf is the x86 default NaN (sign bit set), which plain total_cmp put first
fn script_negative_nan_first() -> Vec<S> {
    vec![S::Put(Some(vec![4.0, 2.0])), S::Put(Some(vec![f32::INFINITY, 2.0])), S::Put(Some(vec![2.0, 4.0])), S::Commit,
         S::Search(vec![f32::INFINITY, 2.0], 1), S::Search(vec![f32::INFINITY, 2.0], 3), S::Reopen, S::Search(vec![f32::INFINITY, 2.0], 3)]
}

fn scripted_history(script: Vec<S>, tag: &str, key: &str, w: &mut dyn std::io::Write) {
    let mut d = Driver::new(); let mut pool = Pool::new();
    let mut rf = RefIndex { committed: vec![], pending_put: vec![], pending_del: vec![], dirty: false };
    let mut ops: Vec<T> = vec![]; let mut outs: Vec<T> = vec![]; let mut qids: Vec<u64> = vec![];
    let mut viol: Option<String> = None; let mut nontrivial = false; let mut uri = 0u32;
    for st in script {
        match st {
            S::Put(emb) => {
                uri += 1;
                let obs = d.step(&Op::Put { kind: PayloadKind::Bin, size: 12, uri: Some(uri), ts: 1_700_000_000 + uri as i64, embed: emb.clone(), default_opts: false });
                let et = match &emb { Some(e) => T::some(pool.emb(e)), None => T::none() };
                ops.push(T::C("VPut", vec![T::N(obs.next_before as u128), et]));
                if obs.ok { outs.push(ok(T::L(vec![]))); rf.dirty = true; if let Some(e) = emb { if !e.is_empty() { rf.pending_put.push((obs.next_before, e)); } } } else { outs.push(err(2)); }
                if auto_commit(&obs) { rf.commit(); ops.push(T::C("VCommit", vec![])); outs.push(ok(T::L(vec![]))); }
            }
            S::Del(target) => {
                let obs = d.step(&Op::Delete { target });
                if obs.ok { rf.dirty = true; rf.pending_del.push(target); ops.push(T::C("VDelete", vec![T::N(target as u128)])); outs.push(ok(T::L(vec![]))); }
            }
            S::Commit => { d.step(&Op::Commit); rf.commit(); ops.push(T::C("VCommit", vec![])); outs.push(ok(T::L(vec![]))); }
            S::Reopen => { d.step(&Op::Reopen); if d.open_error.is_some() { viol.get_or_insert(format!("reopen-failed: {:?}", d.open_error)); break; } rf.commit(); ops.push(T::C("VReopen", vec![])); outs.push(ok(T::L(vec![]))); }
            S::Search(q, k) => { do_search(&mut d, &mut pool, &rf, &q, k, &mut ops, &mut outs, &mut qids, &mut viol, false, &mut nontrivial); }
        }
    }
    for v in rf.committed.iter().chain(rf.pending_put.iter()) { pool.id(&v.1); }
    let input = T::Tup(vec![T::L(ops), pool.table(&qids)]);
    emit(w, "mem", &Case { input, output: T::L(outs), violation: viol, nontrivial, tags: vec![tag.to_string()], key: key.to_string() });
}

fn mem_history(r: &mut Rng, big: bool, forced_dim: Option<usize>, w: &mut dyn std::io::Write) {
    let mut d = Driver::new();
    let mut pool = Pool::new();
    let mut tags: Vec<String> = vec![];
    let dim = forced_dim.unwrap_or_else(|| pick_dim(r));
    let style = if r.chance(1, 7) { Style::Nan } else { pick_style(r) };
    let with_empty = r.chance(1, 4);
    let explicit_enable = r.chance(1, 6);
    let nops = if big { r.range(120, 330) as usize } else { match r.below(10) { 0 => r.range(3, 8) as usize, 1..=6 => r.range(10, 40) as usize, _ => r.range(40, 90) as usize } };
    let put_weight = if big { 90 } else { r.range(35, 70) };
    let mut rf = RefIndex { committed: vec![], pending_put: vec![], pending_del: vec![], dirty: false };
    let mut ops: Vec<T> = vec![]; let mut outs: Vec<T> = vec![]; let mut qids: Vec<u64> = vec![];
    let mut viol: Option<String> = None;
    let mut has_empty = false; let mut nontrivial = false;
    let mut all_vecs: Vec<Vec<f32>> = vec![];
    let mut uri = 0u32;
    let mut last_queries: Vec<(Vec<f32>, u64)> = vec![];
    let mut nsearch = 0; let mut ncommit = 0; let mut nreopen = 0; let mut ndelete = 0; let mut nwrong = 0; let mut stale_search = 0;

    let mut i = 0; let mut slow = 0; let slow_cap = if big { 10 } else { 4 };
    while i < nops {
        i += 1;
        let mut c = r.below(100);
        if slow >= slow_cap && c >= put_weight + 8 && c < put_weight + 21 { c = 99; }
        let closing = i + 3 >= nops;
        if explicit_enable && i == 1 {
            let _ = d.mem().enable_vec(); ops.push(T::C("VEnable", vec![])); outs.push(ok(T::L(vec![]))); tags.push("explicit-enable".into());
            continue;
        }
        if !closing && c < put_weight {
            // a put
            let kind = r.below(100);
            let emb: Option<Vec<f32>> = if kind < 10 { None }
                else if kind < 15 { nwrong += 1; let d2 = if dim == 1 || r.chance(1, 2) { dim + 1 } else { dim - 1 }; Some(gen_vec(r, d2, style)) }
                else if kind < 21 && with_empty { Some(vec![]) }
                else if kind < 40 && !all_vecs.is_empty() { Some(all_vecs[r.below(all_vecs.len() as u64) as usize].clone()) }
                else { Some(gen_vec(r, dim, style)) };
            uri += 1;
            let op = Op::Put { kind: if r.chance(1, 2) { PayloadKind::Bin } else { PayloadKind::Text }, size: r.range(4, 60) as usize, uri: Some(uri), ts: 1_700_000_000 + uri as i64, embed: emb.clone(), default_opts: false };
            let obs = d.step(&op);
            let fid = obs.next_before;
            let et = match &emb { Some(e) => T::some(pool.emb(e)), None => T::none() };
            ops.push(T::C("VPut", vec![T::N(fid as u128), et]));
            if obs.ok {
                outs.push(ok(T::L(vec![])));
                rf.dirty = true;
                // an empty vector is no embedding: the frame is stored without one
                if let Some(e) = emb { if e.is_empty() { has_empty = true; } else { if e.len() == dim { all_vecs.push(e.clone()); } rf.pending_put.push((fid, e)); } }
            } else { outs.push(err(2)); }
            if auto_commit(&obs) { rf.commit(); ops.push(T::C("VCommit", vec![])); outs.push(ok(T::L(vec![]))); tags.push("auto-commit".into()); }
        } else if !closing && c < put_weight + 8 && !rf.committed.is_empty() && rf.committed.len() <= 8 && slow < slow_cap && r.chance(1, 2) {
            // delete every active embedded frame and commit: the index becomes empty, its dimension unknown
            for (target, _) in rf.committed.clone() {
                let obs = d.step(&Op::Delete { target });
                if obs.ok { ndelete += 1; rf.dirty = true; rf.pending_del.push(target); ops.push(T::C("VDelete", vec![T::N(target as u128)])); outs.push(ok(T::L(vec![])));
                    if auto_commit(&obs) { rf.commit(); ops.push(T::C("VCommit", vec![])); outs.push(ok(T::L(vec![]))); } }
            }
            let obs = d.step(&Op::Commit);
            if !obs.ok { viol.get_or_insert("commit-failed: commit returned an error".into()); }
            rf.commit(); slow += 1; ops.push(T::C("VCommit", vec![])); outs.push(ok(T::L(vec![]))); tags.push("delete-all".into());
            // the emptied index: any query dimension is accepted and nothing is returned
            let q = if r.chance(1, 2) { gen_vec(r, dim, Style::SmallInt) } else { gen_vec(r, dim + 2, Style::SmallInt) };
            let k = pick_k(r, 3);
            do_search(&mut d, &mut pool, &rf, &q, k, &mut ops, &mut outs, &mut qids, &mut viol, has_empty, &mut nontrivial);
            nsearch += 1;
        } else if !closing && c < put_weight + 8 && !rf.committed.is_empty() {
            // delete an active embedded committed frame (or any committed frame)
            let target = if r.chance(4, 5) { rf.committed[r.below(rf.committed.len() as u64) as usize].0 } else { r.below(d.mem().frame_count() as u64 + 1) };
            let obs = d.step(&Op::Delete { target });
            if obs.ok { ndelete += 1; rf.dirty = true; rf.pending_del.push(target); ops.push(T::C("VDelete", vec![T::N(target as u128)])); outs.push(ok(T::L(vec![])));
                if auto_commit(&obs) { rf.commit(); ops.push(T::C("VCommit", vec![])); outs.push(ok(T::L(vec![]))); tags.push("auto-commit".into()); } }
        } else if c < put_weight + 14 || (closing && i + 3 == nops) {
            slow += 1;
            let obs = d.step(&Op::Commit);
            if !obs.ok { viol.get_or_insert("commit-failed: commit returned an error".into()); }
            rf.commit(); ncommit += 1; ops.push(T::C("VCommit", vec![])); outs.push(ok(T::L(vec![])));
        } else if c < put_weight + 18 || (closing && i + 1 == nops) {
            slow += 1;
            // close + reopen; then the previous queries must give the previous answers if nothing was pending
            let clean = !rf.dirty;
            let before: Vec<Option<Result<Vec<(u64, f32)>, u128>>> = if clean { last_queries.clone().iter().map(|(q, k)| do_search(&mut d, &mut pool, &rf, q, *k, &mut ops, &mut outs, &mut qids, &mut viol, has_empty, &mut nontrivial)).collect() } else { vec![] };
            let obs = d.step(&Op::Reopen);
            if d.open_error.is_some() || !obs.ok { viol.get_or_insert(format!("reopen-failed: {:?}", d.open_error)); break; }
            rf.commit(); nreopen += 1; ops.push(T::C("VReopen", vec![])); outs.push(ok(T::L(vec![])));
            if clean {
                for (j, (q, k)) in last_queries.clone().iter().enumerate() {
                    let after = do_search(&mut d, &mut pool, &rf, q, *k, &mut ops, &mut outs, &mut qids, &mut viol, has_empty, &mut nontrivial);
                    let same = match (&before[j], &after) {
                        (Some(Ok(a)), Some(Ok(b))) => a.len() == b.len() && a.iter().zip(b.iter()).all(|(x, y)| x.0 == y.0 && x.1.to_bits() == y.1.to_bits()),
                        (Some(Err(a)), Some(Err(b))) => a == b,
                        (None, None) => true,
                        _ => false };
                    if !same { viol.get_or_insert(classify(&[], has_empty, format!("reopen: query {} gives a different answer after close and reopen", j))); }
                }
                if !last_queries.is_empty() { tags.push("reopen-compared".into()); }
            }
            // and a fresh query against the reopened memory
            let q = if r.chance(5, 6) { gen_vec(r, dim, if style == Style::Extreme { Style::Uniform } else { style }) } else { gen_vec(r, dim + 1, Style::SmallInt) };
            let k = pick_k(r, rf.committed.len());
            do_search(&mut d, &mut pool, &rf, &q, k, &mut ops, &mut outs, &mut qids, &mut viol, has_empty, &mut nontrivial);
            nsearch += 1;
        } else {
            // a search
            let m = rf.committed.len();
            let qk = r.below(14);
            let q: Vec<f32> = match qk {
                0 if m > 0 => rf.committed[r.below(m as u64) as usize].1.clone(),
                1 => vec![],
                2 => gen_vec(r, dim + 1, style),
                3 if dim > 1 => gen_vec(r, dim - 1, style),
                4 => gen_vec(r, dim, Style::SmallInt),
                5 if !rf.pending_put.is_empty() => rf.pending_put[0].1.clone(),
                _ => gen_vec(r, dim, if style == Style::Extreme { Style::Uniform } else { style }),
            };
            // keep NaN out of this stream: a query with a non-finite difference is not generated (finite queries only)
            let k = pick_k(r, m);
            if q.len() != dim { nwrong += 1; }
            if rf.dirty { stale_search += 1; }
            do_search(&mut d, &mut pool, &rf, &q, k, &mut ops, &mut outs, &mut qids, &mut viol, has_empty, &mut nontrivial);
            nsearch += 1;
            if last_queries.len() >= 4 { last_queries.remove(0); }
            last_queries.push((q, k));
        }
    }
    for v in rf.committed.iter().chain(rf.pending_put.iter()) { pool.id(&v.1); }
    tags.push(format!("final-m{}", match rf.committed.len() { 0 => "0", 1..=5 => "1-5", 6..=20 => "6-20", 21..=60 => "21-60", _ => "61+" }));
    tags.extend(dim_tags(dim));
    tags.push(match style { Style::Tern => "tern", Style::SmallInt => "smallint", Style::Binary => "binary", Style::Uniform => "uniform", Style::Extreme => "extreme", Style::Nan => "naninf" }.into());
    if has_empty { tags.push("empty-embedding-put".into()); }
    if ndelete > 0 { tags.push("deletes".into()); }
    if nreopen > 0 { tags.push("reopens".into()); }
    if nwrong > 0 { tags.push("wrong-dimension".into()); }
    if stale_search > 0 { tags.push("search-with-pending".into()); }
    tags.push(format!("searches{}", match nsearch { 0 => "0", 1..=5 => "1-5", _ => "6+" }));
    let _ = ncommit;
    tags.sort(); tags.dedup();
    let input = T::Tup(vec![T::L(ops), pool.table(&qids)]);
    let key = blake3::hash(input.coq().as_bytes()).to_hex()[..16].to_string();
    emit(w, "mem", &Case { input, output: T::L(outs), violation: viol, nontrivial, tags, key });
}

/// fixed corpus: the witnesses of the two repaired findings (and their neighbourhood) run first
fn fixed_corpus(w: &mut dyn std::io::Write) {
    scripted_history(script_empty_embedding_after(), "corpus-empty-embedding", "corpus-F-C13-1a", w);
    scripted_history(script_empty_embedding_first(), "corpus-empty-embedding-first", "corpus-F-C13-1b", w);
    scripted_history(script_nan_components(), "corpus-nan-components", "corpus-F-C13-2c", w);
    // F-C13-2: one NaN distance and the nearest frame was not returned first
    let vs: Vec<(u64, Vec<f32>)> = vec![vec![4.0, 2.0], vec![7.0, 2.0], vec![f32::INFINITY, 2.0], vec![f32::NAN, 2.0], vec![2.0, 4.0]].into_iter().enumerate().map(|(i, v)| (i as u64, v)).collect();
    run_api_case(&vs, &[(vec![1.0, 2.0], 1), (vec![1.0, 2.0], 3), (vec![1.0, 2.0], 5), (vec![f32::NEG_INFINITY, 2.0], 1), (vec![0.0, f32::INFINITY], 5), (vec![f32::NAN, 0.0], 2)],
                 vec!["corpus-nan-order".into()], "nan", Some("corpus-F-C13-2a"), w);
    // F-C13-3 (repaired by 1932440): a stored NaN with the sign bit set (what 0.0 / 0.0 gives on x86) ranked first
    let xnan = f32::from_bits(0xFFC0_0000);
    let vs: Vec<(u64, Vec<f32>)> = vec![vec![4.0, 2.0], vec![7.0, 2.0], vec![xnan, 2.0], vec![2.0, 4.0]].into_iter().enumerate().map(|(i, v)| (i as u64, v)).collect();
    run_api_case(&vs, &[(vec![1.0, 2.0], 1), (vec![1.0, 2.0], 4)], vec!["corpus-negative-nan-first".into()], "nan", Some("corpus-F-C13-3a"), w);
    scripted_history(script_negative_nan_first(), "corpus-negative-nan-first", "corpus-F-C13-3b", w);
    // F-C13-2, second face: 21 hits, five NaN: std's sort_by noticed the broken order and panicked
    let n = f32::NAN;
    let vals = [n, 3.0, 2.0, 1.0, n, 2.0, 3.0, 2.0, 2.0, 1.0, 3.0, 1.0, 1.0, n, 1.0, n, 3.0, 3.0, n, 1.0, 2.0];
    let vs: Vec<(u64, Vec<f32>)> = vals.iter().enumerate().map(|(i, v)| (i as u64, vec![*v])).collect();
    run_api_case(&vs, &[(vec![0.0], 5), (vec![0.0], 21), (vec![0.0], 17), (vec![f32::NAN], 3)], vec!["corpus-nan-sort-panic".into()], "nan", Some("corpus-F-C13-2b"), w);
}

/// fixed-first corpus for the kernel's lane structure: for EVERY dimension 1..=40 and the edges of
/// 48/64/128/384, documents that differ from the query only in the last coordinate, only in the
/// first, and only around the last multiples of 8 and 16: the exact ranking is known (distance j for
/// the documents base + j * e_p), so a kernel that reads a wrong tail misranks them
fn residue_docs(dim: usize) -> (Vec<f32>, Vec<(u64, Vec<f32>)>, usize) {
    let base: Vec<f32> = (0..dim).map(|i| ((i * 7 + 3) % 5) as f32 - 2.0).collect();
    let mut positions = vec![dim - 1, 0, dim / 2, dim.saturating_sub(2)];
    for lanes in [8usize, 16, 32] { if dim > lanes { let edge = ((dim - 1) / lanes) * lanes; positions.push(edge); positions.push(edge - 1); } }
    positions.sort(); positions.dedup();
    // documents: base + j at position p, j = 3, 1, 2: stored in an order that is not the distance order
    let mut docs: Vec<(u64, Vec<f32>)> = vec![]; let mut fid = 0u64;
    for j in [3usize, 1, 2] { for p in &positions { let mut v = base.clone(); v[*p] += j as f32; docs.push((fid, v)); fid += 1; } }
    docs.push((fid, base.clone()));
    (base, docs, positions.len())
}
fn residue_dims() -> Vec<usize> { let mut dims: Vec<usize> = (1..=40).collect(); dims.extend_from_slice(&BIG_DIMS); dims }
fn residue_corpus(w: &mut dyn std::io::Write) {
    for dim in residue_dims() {
        let (base, docs, npos) = residue_docs(dim);
        let m = docs.len() as u64;
        let mut q2 = base.clone(); q2[dim - 1] += 0.5;
        let mut tags = dim_tags(dim); tags.push("corpus-dim-residue".into()); tags.push("differ-in-tail".into()); tags.push("differ-in-head".into());
        run_api_case(&docs, &[(base.clone(), 1), (base.clone(), npos as u64 + 1), (base.clone(), m), (q2, 3)], tags, "api", Some(&format!("corpus-dim-{}", dim)), w);
    }
}

#[cfg(test)]
mod tests {
    use super::*;
    /// a kernel unrolled to 16 lanes whose scalar tail starts at the last multiple of 8 instead of 16:
    /// for d mod 16 in 9..=15 eight coordinates are skipped
    fn buggy(a: &[f32], b: &[f32]) -> f32 {
        let n = a.len(); let c16 = n / 16; let mut s = 0f32;
        for i in 0..c16 * 16 { let d = a[i] - b[i]; s += d * d; }
        let start = if n % 16 > 8 { (n / 8) * 8 } else { c16 * 16 };
        for i in start..n { let d = a[i] - b[i]; s += d * d; }
        s.sqrt()
    }
    fn search_with(kernel: fn(&[f32], &[f32]) -> f32, docs: &[(u64, Vec<f32>)], q: &[f32], k: usize) -> Vec<(u64, f32)> {
        let mut h: Vec<(u64, f32)> = docs.iter().map(|(f, v)| (*f, kernel(q, v))).collect();
        h.sort_by(|a, b| a.1.total_cmp(&b.1)); h.truncate(k); h
    }
    #[test]
    fn reference_oracle_catches_a_wrong_tail_for_every_affected_dimension() {
        for dim in residue_dims() {
            let (base, docs, npos) = residue_docs(dim);
            let mut flagged = false; let mut clean = true;
            for k in [1usize, npos + 1, docs.len()] {
                let hits = search_with(buggy, &docs, &base, k);
                if let Ok(Some(_)) = ref_oracle(&docs, &base, k as u64, &hits) { flagged = true; }
                let good = search_with(|a, b| l2_distance_simd(a, b), &docs, &base, k);
                if ref_oracle(&docs, &base, k as u64, &good) != Ok(None) { clean = false; }
            }
            assert!(clean, "false alarm of the reference oracle at dimension {}", dim);
            assert_eq!(flagged, dim % 16 > 8, "dimension {}: wrong-tail kernel flagged = {}", dim, flagged);
        }
    }
}

pub fn run(seed: u64, n: usize, tier: &str, w: &mut dyn std::io::Write) {
    let prev = std::panic::take_hook();
    std::panic::set_hook(Box::new(|_| {}));
    let mut r = Rng::new(seed ^ 0xC13);
    fixed_corpus(w);
    scripted_history(script_dimension_corners(), "scripted-dimension-corners", "scripted-1", w);
    // n api cases, n/5 nan cases, n/6 histories on real memories (a few of them large in thorough)
    residue_corpus(w);
    // the first 16 generated cases sweep the residues mod 16 once more with random content
    for i in 0..n { let forced = if i < 16 { Some(17 + i) } else { None }; api_case(&mut r, false, forced, w); }
    for _ in 0..n / 5 { api_case(&mut r, true, None, w); }
    let nh = n / 15;
    // histories: the first ones walk through dimensions 9..15 mod 16 and the lane edges
    let mem_dims = [13usize, 29, 9, 16, 12, 33, 15, 8, 27, 64];
    for i in 0..nh { let forced = if i < mem_dims.len() { Some(mem_dims[i]) } else { None }; mem_history(&mut r, tier == "thorough" && i % 10 == 0, forced, w); }
    std::panic::set_hook(prev);
}
