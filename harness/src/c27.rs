//! C27 memory-card queries (MemoriesTrack::get_current / get_at_time / get_cards / add_card)
//! and persistence of the card set and the logic mesh across commit / close / reopen.
//!
//! Streams
//!   query   : random card sets through the public MemoriesTrack API, queries at every distinct
//!             effective time, +-1 and the i64 extremes
//!   legacy  : hand-made track states read through serde (mixed-case index keys, dangling and
//!             duplicate ids, cross-referenced ids) -- exercises SlotIndex::get's fallback scan
//!   persist : put_memory_card(s) / mesh / put_bytes / commit / reopen / crash-image histories on
//!             a real Memvid in a tempdir
//!
//! Property oracle (independent of the model), "latest" made precise: among the cards whose
//! lower-cased "entity:slot" key equals the query's, that are not retractions and whose
//! effective time (event_date, else document_date, else created_at) is <= t, the one with the
//! greatest effective time; among cards tied on the effective time the one added last
//! (greatest id).  A retraction card is skipped, it does not hide older cards.
use crate::term::*;
use memvid_core::types::{
    EntityKind, LinkType, MemoriesTrack, MemoryCard, MemoryKind, MeshEdge, MeshNode, VersionRelation,
};
use memvid_core::Memvid;

#[derive(Clone, Debug)]
struct GC {
    entity: String,
    slot: String,
    value: String,
    event: Option<i64>,
    doc: Option<i64>,
    vkey: Option<String>,
    rel: u8,
    conf: Option<f32>,
    created: i64,
}

fn rel_of(r: u8) -> VersionRelation {
    match r { 0 => VersionRelation::Sets, 1 => VersionRelation::Updates, 2 => VersionRelation::Extends, _ => VersionRelation::Retracts }
}
fn rel_n(r: VersionRelation) -> u8 {
    match r { VersionRelation::Sets => 0, VersionRelation::Updates => 1, VersionRelation::Extends => 2, VersionRelation::Retracts => 3 }
}

fn to_card(g: &GC, id: u64) -> MemoryCard {
    MemoryCard {
        id, kind: MemoryKind::Fact, entity: g.entity.clone(), slot: g.slot.clone(), value: g.value.clone(),
        polarity: None, event_date: g.event, document_date: g.doc, version_key: g.vkey.clone(),
        version_relation: rel_of(g.rel), source_frame_id: 0, source_uri: None, source_offset: None,
        engine: "x".into(), engine_version: "1".into(), confidence: g.conf, created_at: g.created,
    }
}

fn opt_z(o: Option<i64>) -> T { match o { Some(z) => T::some(T::Z(z as i128)), None => T::none() } }
fn opt_s(o: &Option<String>) -> T { match o { Some(s) => T::some(T::S(s.clone())), None => T::none() } }
fn conf_t(o: Option<f32>) -> T {
    match o {
        None => T::none(),
        Some(f) if f.is_finite() => T::some(T::some(T::N(f.to_bits() as u128))),
        Some(_) => T::some(T::none()),
    }
}
fn gc_term(g: &GC) -> T {
    T::Tup(vec![T::S(g.entity.clone()), T::S(g.slot.clone()), T::S(g.value.clone()), opt_z(g.event), opt_z(g.doc),
                opt_s(&g.vkey), T::N(g.rel as u128), conf_t(g.conf), T::Z(g.created as i128)])
}
fn card_term(c: &MemoryCard) -> T {
    T::Tup(vec![T::N(c.id as u128), T::Tup(vec![
        T::S(c.entity.clone()), T::S(c.slot.clone()), T::S(c.value.clone()), opt_z(c.event_date), opt_z(c.document_date),
        opt_s(&c.version_key), T::N(rel_n(c.version_relation) as u128), conf_t(c.confidence), T::Z(c.created_at as i128)])])
}

const ENTITIES: &[&str] = &["user", "User", "USER", "acme", "Acme", "a:b", "a", "A"];
const SLOTS: &[&str] = &["city", "City", "CITY", "job", "b:c", "c", "C"];

fn time_pool(r: &mut Rng) -> (Vec<i64>, &'static str) {
    match r.below(6) {
        0 => ((0..r.range(1, 3)).map(|_| r.below(4) as i64).collect(), "t-fewvalues"),
        1 => {
            let all = [i64::MIN, i64::MIN + 1, i64::MAX - 1, i64::MAX, 0, -1, 1];
            let k = r.range(2, 5) as usize;
            ((0..k).map(|_| *r.pick(&all)).collect(), "t-extremes")
        }
        2 => ((0..r.range(2, 8)).map(|_| r.next() as i64).collect(), "t-wide"),
        3 => { let base = 1_700_000_000i64 + r.below(1000) as i64; ((0..r.range(2, 6)).map(|_| base + r.below(3) as i64).collect(), "t-cluster") }
        4 => ((0..r.range(2, 10)).map(|_| r.below(2000) as i64 - 1000).collect(), "t-small"),
        _ => {
            let mut v: Vec<i64> = (0..r.range(1, 4)).map(|_| r.below(50) as i64).collect();
            v.push(*r.pick(&[i64::MIN, i64::MAX]));
            (v, "t-mixed")
        }
    }
}

fn gen_cards(r: &mut Rng, n: usize, nonfinite: bool) -> (Vec<GC>, Vec<String>) {
    let mut tags = vec![];
    let (pool, ptag) = time_pool(r);
    tags.push(ptag.to_string());
    // concentrate the cards on a few spellings so that slots hold several cards
    let ne = r.range(1, 4) as usize; let ns = r.range(1, 3) as usize;
    let ents: Vec<&str> = (0..ne).map(|_| *r.pick(ENTITIES)).collect();
    let slots: Vec<&str> = (0..ns).map(|_| *r.pick(SLOTS)).collect();
    let retract_w = *r.pick(&[0u64, 1, 3, 6]); // how common retractions are (out of 10)
    let mut v = vec![];
    for i in 0..n {
        let event = if r.chance(1, 2) { Some(*r.pick(&pool)) } else { None };
        let doc = if r.chance(1, 2) { Some(*r.pick(&pool)) } else { None };
        let created = *r.pick(&pool);
        let rel = if r.below(10) < retract_w { 3 } else { r.below(3) as u8 };
        let conf = match r.below(10) {
            0 => Some(f32::from_bits(r.next() as u32)).filter(|f| f.is_finite()),
            1 => Some(r.below(101) as f32 / 100.0),
            2 if nonfinite => Some(*r.pick(&[f32::NAN, f32::INFINITY, f32::NEG_INFINITY])),
            _ => None,
        };
        v.push(GC {
            entity: r.pick(&ents).to_string(), slot: r.pick(&slots).to_string(), value: format!("v{}", i),
            event, doc, vkey: if r.chance(1, 8) { Some(r.pick(&["k", "user:city", ""]).to_string()) } else { None },
            rel, conf, created,
        });
    }
    (v, tags)
}

fn eff_ref(c: &MemoryCard) -> i64 {
    if let Some(e) = c.event_date { e } else if let Some(d) = c.document_date { d } else { c.created_at }
}
fn key_ref(e: &str, s: &str) -> String { format!("{}:{}", e.to_ascii_lowercase(), s.to_ascii_lowercase()) }

/// brute force: latest non-retraction with eff <= t (ties: greatest id)
fn latest_ref<'a>(cards: &'a [MemoryCard], e: &str, s: &str, t: Option<i64>) -> Option<&'a MemoryCard> {
    let k = key_ref(e, s);
    let mut best: Option<&MemoryCard> = None;
    for c in cards {
        if key_ref(&c.entity, &c.slot) != k { continue; }
        if c.version_relation == VersionRelation::Retracts { continue; }
        if let Some(t) = t { if eff_ref(c) > t { continue; } }
        best = match best {
            None => Some(c),
            Some(b) => if (eff_ref(c), c.id) > (eff_ref(b), b.id) { Some(c) } else { Some(b) },
        };
    }
    best
}

fn query_times(r: &mut Rng, cards: &[MemoryCard]) -> Vec<i64> {
    let mut ts: Vec<i64> = vec![i64::MIN, i64::MAX, 0];
    let mut effs: Vec<i64> = cards.iter().map(eff_ref).collect();
    effs.sort(); effs.dedup();
    for e in &effs {
        ts.push(*e);
        if let Some(x) = e.checked_sub(1) { ts.push(x); }
        if let Some(x) = e.checked_add(1) { ts.push(x); }
    }
    ts.sort(); ts.dedup();
    if ts.len() > 20 {
        let mx = effs.last().copied().unwrap_or(0);
        let keep: Vec<i64> = vec![i64::MIN, i64::MAX, mx, mx.saturating_sub(1), mx.saturating_add(1)];
        let mut out = keep;
        while out.len() < 20 { out.push(*r.pick(&ts)); }
        out.sort(); out.dedup();
        ts = out;
    }
    ts
}

fn id_t(o: Option<&MemoryCard>) -> T { match o { Some(c) => T::some(T::N(c.id as u128)), None => T::none() } }

struct Answer { term: T, viol: Option<String>, multi: bool }

/// runs one query (entity, slot, times) on the implementation and checks the property
fn answer(track: &MemoriesTrack, e: &str, s: &str, ts: &[i64], brute: bool) -> Answer {
    let cards = track.cards();
    let got_cards = track.get_cards(e, s);
    let cur = track.get_current(e, s);
    let mut viol = None;
    let maxeff_all = cards.iter().map(eff_ref).max();
    let same = |a: Option<&MemoryCard>, b: Option<&MemoryCard>| -> bool {
        match (a, b) { (None, None) => true, (Some(x), Some(y)) => std::ptr::eq(x, y), _ => false }
    };
    if brute {
        let want = latest_ref(cards, e, s, None);
        if !same(cur, want) {
            viol = Some(format!("current-not-latest: get_current({e},{s}) = {:?} but the latest non-retraction is {:?}", cur.map(|c| c.id), want.map(|c| c.id)));
        }
    }
    let mut outs = vec![];
    for &t in ts {
        let got = track.get_at_time(e, s, t);
        outs.push(id_t(got));
        if let Some(c) = got {
            if eff_ref(c) > t && viol.is_none() {
                viol = Some(format!("after-t: get_at_time({e},{s},{t}) returned card {} with effective time {}", c.id, eff_ref(c)));
            }
            if c.version_relation == VersionRelation::Retracts && viol.is_none() {
                viol = Some(format!("retraction-returned: get_at_time({e},{s},{t}) returned retraction {}", c.id));
            }
        }
        if maxeff_all.map_or(true, |m| t >= m) && !same(got, cur) && viol.is_none() {
            viol = Some(format!("late-differs-from-current: get_at_time({e},{s},{t}) = {:?} but get_current = {:?}", got.map(|c| c.id), cur.map(|c| c.id)));
        }
        if brute {
            let want = latest_ref(cards, e, s, Some(t));
            if !same(got, want) && viol.is_none() {
                viol = Some(format!("not-latest: get_at_time({e},{s},{t}) = {:?} but the latest non-retraction with eff <= t is {:?}", got.map(|c| c.id), want.map(|c| c.id)));
            }
        }
    }
    let term = T::Tup(vec![T::L(got_cards.iter().map(|c| T::N(c.id as u128)).collect()), id_t(cur), T::L(outs)]);
    Answer { term, viol, multi: got_cards.len() >= 2 }
}

fn query_term(e: &str, s: &str, ts: &[i64]) -> T {
    T::Tup(vec![T::S(e.to_string()), T::S(s.to_string()), T::L(ts.iter().map(|t| T::Z(*t as i128)).collect())])
}

fn pick_queries(r: &mut Rng, cards: &[MemoryCard]) -> Vec<(String, String)> {
    // every stored spelling class once (queried under a random spelling), plus absent ones
    let mut seen = std::collections::BTreeSet::new();
    let mut qs = vec![];
    for c in cards {
        let k = key_ref(&c.entity, &c.slot);
        if seen.insert(k) {
            let e = match r.below(3) { 0 => c.entity.clone(), 1 => c.entity.to_ascii_uppercase(), _ => c.entity.to_ascii_lowercase() };
            let s = match r.below(3) { 0 => c.slot.clone(), 1 => c.slot.to_ascii_uppercase(), _ => c.slot.to_ascii_lowercase() };
            qs.push((e, s));
        }
    }
    qs.push((r.pick(ENTITIES).to_string(), r.pick(SLOTS).to_string()));
    if r.chance(1, 3) { qs.push(("nobody".into(), "city".into())); }
    while qs.len() > 5 { let i = r.below(qs.len() as u64) as usize; qs.remove(i); }
    qs
}

fn digest(s: &str) -> String { blake3::hash(s.as_bytes()).to_hex()[..16].to_string() }

fn run_query_stream(r: &mut Rng, n: usize, w: &mut dyn std::io::Write) {
    for _ in 0..n {
        let ncards = match r.below(10) { 0 => 0, 1 => 1, 2..=5 => r.range(2, 12) as usize, 6..=8 => r.range(12, 35) as usize, _ => r.range(35, 60) as usize };
        let (gcs, mut tags) = gen_cards(r, ncards, false);
        let mut track = MemoriesTrack::new();
        // half through add_card one by one, half through add_cards
        if r.chance(1, 2) { for g in &gcs { track.add_card(to_card(g, 77)); } }
        else { track.add_cards(gcs.iter().map(|g| to_card(g, 77)).collect()); }
        // sometimes through the byte format as well (what a reopened file holds)
        if r.chance(1, 4) {
            let b = track.serialize().expect("serialize");
            track = MemoriesTrack::deserialize(&b).expect("deserialize");
            tags.push("via-bytes".into());
        }
        let ts = query_times(r, track.cards());
        let qs = pick_queries(r, track.cards());
        let mut viol = None; let mut answers = vec![]; let mut qterms = vec![]; let mut multi = false;
        for (e, s) in &qs {
            let a = answer(&track, e, s, &ts, true);
            if viol.is_none() { viol = a.viol; }
            multi |= a.multi;
            answers.push(a.term); qterms.push(query_term(e, s, &ts));
        }
        let stored = T::L(track.cards().iter().map(|c| T::Tup(vec![T::N(c.id as u128), opt_s(&c.version_key)])).collect());
        let input = T::Tup(vec![T::L(gcs.iter().map(gc_term).collect()), T::L(qterms)]);
        let output = T::Tup(vec![stored, T::L(answers)]);
        let effs: Vec<i64> = track.cards().iter().map(eff_ref).collect();
        let mut d = effs.clone(); d.sort(); d.dedup();
        if d.len() < effs.len() { tags.push("ties".into()); }
        if gcs.iter().any(|g| g.rel == 3) { tags.push("retractions".into()); }
        if gcs.iter().any(|g| g.entity.contains(':') || g.slot.contains(':')) { tags.push("colon".into()); }
        if effs.iter().any(|e| *e == i64::MIN || *e == i64::MAX) { tags.push("i64-extreme".into()); }
        tags.push(format!("cards{}", match ncards { 0 => "0", 1 => "1", 2..=11 => "2-11", 12..=34 => "12-34", _ => "35-60" }));
        let key = digest(&input.coq());
        emit(w, "query", &Case { input, output, violation: viol, nontrivial: multi, tags, key });
    }
}

fn mixed(s: &str, r: &mut Rng) -> String {
    // a spelling that is not all lower case
    let mut out = String::new(); let mut any = false;
    for ch in s.chars() { if ch.is_ascii_lowercase() && r.chance(1, 2) { out.push(ch.to_ascii_uppercase()); any = true; } else { out.push(ch); } }
    if !any { out = s.to_ascii_uppercase(); }
    out
}

fn run_legacy_stream(r: &mut Rng, n: usize, w: &mut dyn std::io::Write) {
    for _ in 0..n {
        let ncards = r.range(1, 14) as usize;
        let (gcs, mut tags) = gen_cards(r, ncards, false);
        let dup_ids = r.chance(1, 4);
        let ids: Vec<u64> = (0..ncards).map(|i| if dup_ids && r.chance(1, 3) { r.below(ncards as u64) } else if r.chance(1, 10) { u64::MAX - i as u64 } else { i as u64 * 2 }).collect();
        let cards: Vec<MemoryCard> = gcs.iter().zip(&ids).map(|(g, id)| to_card(g, *id)).collect();
        if dup_ids { tags.push("dup-ids".into()); }
        // classes of lower-cased keys
        let mut classes: std::collections::BTreeMap<String, Vec<u64>> = Default::default();
        for c in &cards { classes.entry(key_ref(&c.entity, &c.slot)).or_default().push(c.id); }
        let all_ids: Vec<u64> = cards.iter().map(|c| c.id).collect();
        let mut idx: Vec<(String, Vec<u64>)> = vec![];
        for (k, own) in &classes {
            let mk_list = |r: &mut Rng| -> Vec<u64> {
                let mut l: Vec<u64> = own.iter().rev().copied().collect();
                match r.below(6) {
                    0 => { l.reverse(); }
                    1 => { l.push(999_999); l.insert(0, 888_888); }               // dangling ids
                    2 => { l.push(*r.pick(&all_ids)); }                          // id of any card (maybe another slot)
                    3 => { if !l.is_empty() { let i = r.below(l.len() as u64) as usize; l.remove(i); } }
                    4 => { if let Some(x) = l.first().copied() { l.push(x); } }   // the same id twice
                    _ => {}
                }
                l
            };
            match r.below(5) {
                0 | 1 => idx.push((k.clone(), mk_list(r))),                                   // as new files write it
                2 => { idx.push((mixed(k, r), mk_list(r))); tags.push("fallback".into()); }    // legacy spelling only
                3 => { idx.push((k.clone(), mk_list(r))); idx.push((mixed(k, r), mk_list(r))); tags.push("exact-beats-legacy".into()); }
                _ => {
                    // two legacy spellings: HashMap order decides which one the scan meets first,
                    // so both carry the same list
                    let l = mk_list(r); let a = mixed(k, r); let b = k.to_ascii_uppercase();
                    idx.push((a.clone(), l.clone())); if b != a { idx.push((b, l)); }
                    tags.push("fallback-two".into());
                }
            }
        }
        let entries: serde_json::Map<String, serde_json::Value> = idx.iter().map(|(k, l)| (k.clone(), serde_json::json!(l))).collect();
        let v = serde_json::json!({
            "cards": cards.iter().map(|c| serde_json::to_value(c).unwrap()).collect::<Vec<_>>(),
            "next_id": 0,
            "slot_index": { "entries": entries },
            "enrichment_manifest": { "frames": {}, "total_frames_enriched": 0, "total_cards_created": 0, "last_enrichment": null }
        });
        let mut track: MemoriesTrack = serde_json::from_value(v).expect("legacy track json");
        if r.chance(1, 2) { let b = track.serialize().expect("serialize"); track = MemoriesTrack::deserialize(&b).expect("deserialize"); tags.push("via-bytes".into()); }
        let ts = query_times(r, track.cards());
        let qs = pick_queries(r, track.cards());
        let mut viol = None; let mut answers = vec![]; let mut qterms = vec![]; let mut multi = false;
        for (e, s) in &qs {
            let a = answer(&track, e, s, &ts, false);
            if viol.is_none() { viol = a.viol; }
            multi |= a.multi;
            answers.push(a.term); qterms.push(query_term(e, s, &ts));
        }
        let input = T::Tup(vec![
            T::L(cards.iter().map(|c| card_term(c)).collect()),
            T::L(idx.iter().map(|(k, l)| T::Tup(vec![T::S(k.clone()), T::L(l.iter().map(|x| T::N(*x as u128)).collect())])).collect()),
            T::L(qterms)]);
        let key = digest(&input.coq());
        emit(w, "legacy", &Case { input, output: T::L(answers), violation: viol, nontrivial: multi, tags, key });
    }
}

// ---------------------------------------------------------------- persistence
fn node_term(n: &MeshNode) -> T {
    T::Tup(vec![T::N(n.id as u128), T::S(n.canonical_name.clone()), T::S(n.display_name.clone()), T::N(n.kind as u8 as u128),
                T::N(n.confidence as u128), T::L(n.frame_ids.iter().map(|f| T::N(*f as u128)).collect()),
                T::L(n.mentions.iter().map(|(a, b, c)| T::Tup(vec![T::N(*a as u128), T::N(*b as u128), T::N(*c as u128)])).collect())])
}
fn edge_term(e: &MeshEdge) -> T {
    T::Tup(vec![T::N(e.from_node as u128), T::N(e.to_node as u128), T::S(e.link.as_str().to_string()),
                T::B(matches!(e.link, LinkType::Custom(_))), T::N(e.confidence as u128), T::N(e.frame_id as u128)])
}

struct Snap { cards: Vec<String>, nodes: Vec<String>, edges: Vec<String>, term: T }
fn snap(mv: &Memvid) -> Snap {
    let cards = mv.memories().cards();
    let mesh = mv.logic_mesh();
    let mut nodes: Vec<String> = mesh.nodes.iter().map(|n| format!("{:?}", n)).collect(); nodes.sort();
    let mut edges: Vec<String> = mesh.edges.iter().map(|e| format!("{:?}", e)).collect(); edges.sort();
    Snap {
        cards: cards.iter().map(|c| format!("{:?}", c)).collect(), nodes, edges,
        term: T::Tup(vec![T::L(cards.iter().map(card_term).collect()), T::L(mesh.nodes.iter().map(node_term).collect()), T::L(mesh.edges.iter().map(edge_term).collect())]),
    }
}

fn gen_node(r: &mut Rng) -> MeshNode {
    let name = r.pick(&["amy", "bob", "zed", "acme"]).to_string();
    let kind = *r.pick(&[EntityKind::Person, EntityKind::Organization, EntityKind::Other]);
    // ids from a tiny pool: different (name, kind) nodes tie on the sort key
    let id = *r.pick(&[1u64, 2, 3, 7, u64::MAX]);
    let f = r.below(4);
    MeshNode { id, canonical_name: name.clone(), display_name: name.to_uppercase(), kind, confidence: r.below(101) as u8,
               frame_ids: vec![f], mentions: vec![(f, r.below(50) as u32, r.below(9) as u16)] }
}
fn gen_edge(r: &mut Rng) -> MeshEdge {
    let link = match r.below(6) { 0 => LinkType::Manager, 1 => LinkType::Member, 2 => LinkType::Related,
                                  3 => LinkType::Custom("manager".into()), 4 => LinkType::Custom("zeta".into()), _ => LinkType::Custom(String::new()) };
    MeshEdge { from_node: *r.pick(&[1u64, 1, 2, u64::MAX]), to_node: *r.pick(&[1u64, 2]), link, confidence: r.below(101) as u8, frame_id: r.below(4) }
}

/// fixed histories run first on every run: the witness of the known finding, a crash image
/// with uncommitted frame records after a commit, and one plain history (choice codes as in the match below)
const SCRIPTS: &[(u64, &[u64])] = &[
    (0, &[0, 7, 8]),                       // a card with confidence NaN; commit; reopen
    (1, &[0, 4, 5, 7, 6, 9, 8]),           // card, node, edge; commit; put_bytes; crash image; reopen
    (5, &[0, 3, 12, 12, 13, 13, 6, 7, 0, 8, 6, 13, 8]),
];

fn run_persist_stream(r: &mut Rng, n: usize, w: &mut dyn std::io::Write) {
    // histories are independent (own seed, own tempdir): run them on a few threads, emit in order
    let seeds: Vec<u64> = (0..n).map(|_| r.next()).collect();
    let nthreads = 6usize;
    let mut results: Vec<Option<Case>> = (0..n).map(|_| None).collect();
    std::thread::scope(|sc| {
        let handles: Vec<_> = (0..nthreads).map(|t| {
            let seeds = &seeds;
            sc.spawn(move || {
                let mut out = vec![];
                let mut i = t;
                while i < seeds.len() { out.push((i, persist_case(seeds[i], i))); i += nthreads; }
                out
            })
        }).collect();
        for h in handles { for (i, c) in h.join().expect("persist thread") { results[i] = Some(c); } }
    });
    for c in results.into_iter().flatten() { emit(w, "persist", &c); }
}

fn persist_case(seed: u64, case: usize) -> Case {
    let mut rng = Rng(seed);
    let r = &mut rng;
    {
        let script: Option<&(u64, &[u64])> = SCRIPTS.get(case);
        let dir = tempfile::tempdir().expect("tempdir");
        let mut path = dir.path().join("m.mv2");
        let mut mv = Memvid::create(&path).expect("create");
        let kind = match script { Some((k, _)) => *k, None => r.below(10) };   // 0: non-finite confidences, 1-3: crash images, else plain
        let nonfinite = kind == 0; let crashes = (1..=3).contains(&kind);
        let mut tags: Vec<String> = vec![if nonfinite { "nonfinite".into() } else if crashes { "crash".into() } else { "plain".into() }];
        let nops = match script { Some((_, ops)) => ops.len(), None => r.range(3, 14) as usize };
        if script.is_some() { tags.push("scripted".into()); }
        let mut ops: Vec<T> = vec![]; let mut snaps: Vec<T> = vec![];
        let mut viol: Option<String> = None;
        let mut pending = 0usize; let mut reopened_with_cards = false; let mut ncrash = 0;
        let mut committed = snap(&mv);
        let mut opkinds = std::collections::BTreeSet::new();
        for k in 0..nops {
            let last = k + 1 == nops;
            // choice codes: 0 card, 3 cards, 4 node, 5 edge, 6 put_bytes, 7 commit, 8 reopen, 9 crash image,
            // 12 several nodes at once, 13 several edges at once
            let plain: &[u64] = &[0, 0, 0, 3, 4, 5, 12, 12, 13, 13, 6, 7, 8, 8, 8];
            let crashy: &[u64] = &[0, 0, 3, 4, 12, 13, 6, 6, 6, 7, 7, 9, 9, 8];
            let choice = match script { Some((_, ops)) => ops[k], None => if last { 8 } else if crashes { *r.pick(crashy) } else { *r.pick(plain) } };
            match choice {
                0..=2 => {
                    let (mut g, _) = gen_cards(r, 1, nonfinite);
                    if script.is_some() && nonfinite { g[0].conf = Some(f32::NAN); }
                    mv.put_memory_card(to_card(&g[0], 77)).expect("put_memory_card");
                    ops.push(T::C("OpCard", vec![gc_term(&g[0])])); opkinds.insert("card");
                }
                3 => {
                    let m = r.below(4) as usize;
                    let (g, _) = gen_cards(r, m, nonfinite);
                    mv.put_memory_cards(g.iter().map(|g| to_card(g, 77)).collect()).expect("put_memory_cards");
                    ops.push(T::C("OpCards", vec![T::L(g.iter().map(gc_term).collect())])); opkinds.insert("cards");
                }
                4 => { let nd = gen_node(r); ops.push(T::C("OpNode", vec![node_term(&nd)])); mv.add_mesh_node(nd); opkinds.insert("node"); }
                5 => { let e = gen_edge(r); ops.push(T::C("OpEdge", vec![edge_term(&e)])); mv.add_mesh_edge(e); opkinds.insert("edge"); }
                12 => {
                    let nodes: Vec<MeshNode> = (0..r.range(2, 5)).map(|_| gen_node(r)).collect();
                    for nd in &nodes { ops.push(T::C("OpNode", vec![node_term(nd)])); }
                    mv.add_mesh_nodes(nodes); opkinds.insert("nodes");
                }
                13 => {
                    let edges: Vec<MeshEdge> = (0..r.range(2, 6)).map(|_| gen_edge(r)).collect();
                    for e in &edges { ops.push(T::C("OpEdge", vec![edge_term(e)])); }
                    mv.add_mesh_edges(edges); opkinds.insert("edges");
                }
                6 => {
                    mv.put_bytes(format!("frame {} of case {} about memory cards", k, case).as_bytes()).expect("put_bytes");
                    pending += 1; ops.push(T::C("PutFrame", vec![])); opkinds.insert("frame");
                }
                7 => {
                    mv.commit().expect("commit"); pending = 0; committed = snap(&mv);
                    ops.push(T::C("Commit", vec![])); opkinds.insert("commit");
                }
                9 => {
                    // the process dies here: the file as it is on disk now, opened afresh
                    // (usually with a frame record written since the last commit)
                    if script.is_none() && r.chance(2, 3) {
                        mv.put_bytes(format!("late frame {} of case {}", k, case).as_bytes()).expect("put_bytes");
                        pending += 1; ops.push(T::C("PutFrame", vec![])); opkinds.insert("frame");
                    }
                    ncrash += 1;
                    let np = dir.path().join(format!("crash{}.mv2", ncrash));
                    std::fs::copy(&path, &np).expect("copy");
                    drop(mv);
                    path = np;
                    mv = Memvid::open(&path).expect("open crash image");
                    let after = snap(&mv);
                    if after.cards != committed.cards || after.nodes != committed.nodes || after.edges != committed.edges {
                        let msg = format!("{} cards / {} nodes / {} edges were committed; after reopening the file with {} uncommitted frame record(s) in the WAL there are {} / {} / {}",
                                          committed.cards.len(), committed.nodes.len(), committed.edges.len(), pending, after.cards.len(), after.nodes.len(), after.edges.len());
                        if viol.is_none() {
                            viol = Some(format!("cards-changed-by-crash-reopen: {}", msg));
                        }
                    }
                    if !committed.cards.is_empty() { reopened_with_cards = true; }
                    pending = 0; snaps.push(after.term.clone()); committed = after;
                    ops.push(T::C("CrashReopen", vec![])); opkinds.insert("crash");
                }
                _ => {
                    // close (drop commits when dirty) and reopen
                    let before = snap(&mv);
                    drop(mv);
                    mv = Memvid::open(&path).expect("reopen");
                    let after = snap(&mv);
                    if after.cards != before.cards && viol.is_none() {
                        // is every difference a non-finite confidence that came back as None?
                        let only_conf = after.cards.len() == before.cards.len() && {
                            let b = before.term_cards(); let a = after.term_cards();
                            b.iter().zip(a.iter()).all(|(x, y)| x == y || x.replace("confidence: Some(NaN)", "confidence: None").replace("confidence: Some(inf)", "confidence: None").replace("confidence: Some(-inf)", "confidence: None") == *y)
                        };
                        let i = (0..before.cards.len().min(after.cards.len())).find(|i| before.cards[*i] != after.cards[*i]);
                        let msg = format!("card vector before close ({} cards) and after reopen ({} cards) differ, first at index {:?}: {:?} -> {:?}",
                                          before.cards.len(), after.cards.len(), i, i.map(|i| &before.cards[i]), i.map(|i| &after.cards[i]));
                        viol = Some(if only_conf { format!("nonfinite-confidence: {}", msg) } else { format!("cards-changed-by-reopen: {}", msg) });
                    }
                    if (after.nodes != before.nodes || after.edges != before.edges) && viol.is_none() {
                        viol = Some(format!("mesh-changed-by-reopen: nodes {:?} -> {:?} ; edges {:?} -> {:?}", before.nodes, after.nodes, before.edges, after.edges));
                    }
                    if !before.cards.is_empty() { reopened_with_cards = true; }
                    pending = 0; snaps.push(after.term.clone()); committed = after;
                    ops.push(T::C("Reopen", vec![])); opkinds.insert("reopen");
                }
            }
        }
        snaps.push(snap(&mv).term);
        drop(mv);
        for k in opkinds { tags.push(format!("op-{}", k)); }
        let input = T::L(ops);
        let key = digest(&input.coq());
        Case { input, output: T::L(snaps), violation: viol, nontrivial: reopened_with_cards, tags, key }
    }
}

impl Snap { fn term_cards(&self) -> &Vec<String> { &self.cards } }

pub fn run(seed: u64, n: usize, w: &mut dyn std::io::Write) {
    let mut r = Rng::new(seed ^ 0xC27);
    run_query_stream(&mut r, n, w);
    run_legacy_stream(&mut r, (n / 3).max(10), w);
    run_persist_stream(&mut r, (n / 4).max(12), w);
}
