//! C23 determinism: every history is executed four times on fresh paths (twice in this process,
//! twice in separate child processes) with the same explicit inputs; compared are
//!  (1) the logical digest (frame table, contents, timeline, ~30 searches without the sketch
//!      pre-filter, vector searches, memory cards, per-op results) -- any difference is a violation;
//!  (2) byte for byte, every region class of the files (regions delimited with the public
//!      Header / Toc types and the footer scan): classes the model predicts to carry no oracle
//!      source must be identical; classes it predicts to carry `segment_id` / `now` are recorded.
use crate::store::*;
use crate::term::*;
use memvid_core::io::header::HeaderCodec;
use memvid_core::types::{FrameRole, FrameStatus, MemoryCard, MemoryKind, SearchRequest, TimelineQuery, Toc, VersionRelation};
use memvid_core::{find_last_valid_footer, Memvid};
use std::collections::BTreeMap;
use std::num::NonZeroU64;

const WORDS: [&str; 16] = ["alpha", "bravo", "charlie", "delta", "echo", "foxtrot", "golf", "hotel", "india", "juliet", "kilo", "lima", "mike", "november", "oscar", "papa"];

/// region classes; the code is the constructor index of `rclass` in coq/Model/Determinism.v
pub const CLASSES: [&str; 19] = [
    "header-geometry",        // 0  magic, version, wal_offset, wal_size
    "header-footer-offset",   // 1
    "header-log-position",    // 2  wal_checkpoint_pos, wal_sequence
    "header-toc-checksum",    // 3
    "header-padding",         // 4
    "log",                    // 5  the embedded log region
    "payloads",               // 6  the stored bytes of every frame
    "time-index",             // 7
    "lex-segments",           // 8  embedded Tantivy files (names and bytes)
    "vec-index",              // 9
    "memories-track",         // 10
    "sketch-track",           // 11
    "logic-mesh",             // 12
    "unreferenced",           // 13 bytes between the log and the TOC that no manifest points to (stale index images)
    "toc",                    // 14
    "footer-len-hash",        // 15
    "footer-magic-generation",// 16
    "toc-canonical",          // 17 the decoded TOC without the lex / Tantivy segment manifests, checksums of oracle-tagged regions and absolute offsets
    "log-frame-records",      // 18 the frame records found in the log region (put / update records as they are; tombstone records with the timestamp field masked)
];

#[derive(Clone, Debug)]
pub enum XOp {
    S(Op),
    /// put_memory_card with every field explicit (created_at included)
    Card { k: u64, created: i64 },
    /// a put of a short sentence with default options (triplet extraction on: the cards it makes are stamped now())
    Sentence { k: u64, ts: i64 },
    /// a put of the fixed text of tie group g with no uri: every such frame has the same index text, hence the
    /// same sketch and the same score for every query (ties for find_sketch_candidates and for the engine)
    Tied { g: u64, ts: i64 },
}

fn emb_of(k: u64) -> Vec<f32> { vec![(k % 7) as f32, ((k / 7) % 7) as f32, ((k / 49) % 7) as f32, 1.0 + ((k / 343) % 3) as f32] }
fn emb_key(e: &[f32]) -> u64 { (e[0] as u64) + 7 * (e[1] as u64) + 49 * (e[2] as u64) + 343 * ((e[3] - 1.0) as u64) }

pub fn tie_text(g: u64) -> String {
    if g % 2 == 0 { "zulu yankee xray whiskey victor tango sierra romeo quebec zulu yankee xray alpha".to_string() }
    else { "amber bronze copper denim ebony fuchsia garnet hazel indigo amber bronze bravo".to_string() }
}

fn sentence(k: u64) -> String {
    let names = ["Alice", "Bob", "Carol", "David"]; let orgs = ["Acme", "Globex", "Initech"]; let cities = ["Paris", "Berlin", "Tokyo"];
    format!("{} works at {}. {} lives in {}. note{} alpha bravo.", names[(k % 4) as usize], orgs[(k % 3) as usize], names[((k + 1) % 4) as usize], cities[(k % 3) as usize], k)
}

// ------------------------------------------------------------------ history text form (for the child processes)
fn kind_c(k: &PayloadKind) -> &'static str { match k { PayloadKind::Bin => "B", PayloadKind::Text => "T", PayloadKind::Chunked => "C" } }
fn kind_p(s: &str) -> PayloadKind { match s { "B" => PayloadKind::Bin, "T" => PayloadKind::Text, _ => PayloadKind::Chunked } }
fn opt_s<A: std::fmt::Display>(o: &Option<A>) -> String { match o { Some(x) => format!("{}", x), None => "-".into() } }
fn opt_p<A: std::str::FromStr>(s: &str) -> Option<A> { if s == "-" { None } else { s.parse().ok() } }

pub fn ser(ops: &[XOp]) -> String {
    let mut s = String::new();
    for op in ops {
        let l = match op {
            XOp::S(Op::Put { kind, size, uri, ts, embed, default_opts }) => format!("P {} {} {} {} {} {}", kind_c(kind), size, opt_s(uri), ts, opt_s(&embed.as_ref().map(|e| emb_key(e))), *default_opts as u8),
            XOp::S(Op::Update { target, payload, uri }) => format!("U {} {} {} {}", target, payload.as_ref().map(|p| kind_c(&p.0)).unwrap_or("-"), payload.as_ref().map(|p| p.1).unwrap_or(0), opt_s(uri)),
            XOp::S(Op::Delete { target }) => format!("D {}", target),
            XOp::S(Op::Commit) => "C".into(), XOp::S(Op::Reopen) => "R".into(), XOp::S(Op::Crash) => "X".into(), XOp::S(Op::Vacuum) => "V".into(),
            XOp::S(Op::Doctor(b)) => format!("O {}", b),
            XOp::Card { k, created } => format!("K {} {}", k, created),
            XOp::Sentence { k, ts } => format!("N {} {}", k, ts),
            XOp::Tied { g, ts } => format!("Y {} {}", g, ts),
        };
        s.push_str(&l); s.push('\n');
    }
    s
}

pub fn de(s: &str) -> Vec<XOp> {
    s.lines().filter(|l| !l.trim().is_empty()).map(|l| {
        let f: Vec<&str> = l.split(' ').collect();
        match f[0] {
            "P" => XOp::S(Op::Put { kind: kind_p(f[1]), size: f[2].parse().unwrap(), uri: opt_p(f[3]), ts: f[4].parse().unwrap(), embed: opt_p::<u64>(f[5]).map(emb_of), default_opts: f[6] == "1" }),
            "U" => XOp::S(Op::Update { target: f[1].parse().unwrap(), payload: if f[2] == "-" { None } else { Some((kind_p(f[2]), f[3].parse().unwrap())) }, uri: opt_p(f[4]) }),
            "D" => XOp::S(Op::Delete { target: f[1].parse().unwrap() }),
            "C" => XOp::S(Op::Commit), "R" => XOp::S(Op::Reopen), "X" => XOp::S(Op::Crash), "V" => XOp::S(Op::Vacuum),
            "O" => XOp::S(Op::Doctor(f[1].parse().unwrap())),
            "K" => XOp::Card { k: f[1].parse().unwrap(), created: f[2].parse().unwrap() },
            "N" => XOp::Sentence { k: f[1].parse().unwrap(), ts: f[2].parse().unwrap() },
            "Y" => XOp::Tied { g: f[1].parse().unwrap(), ts: f[2].parse().unwrap() },
            other => panic!("bad op line {}", other),
        }
    }).collect()
}

// ------------------------------------------------------------------ one execution
/// Driver's Reopen (drop the handle: Drop commits when dirty and DISCARDS the commit's error; open again) with
/// one look at the file in between: frame records with a sequence number above the header's checkpointed
/// sequence mean that the implicit commit did not complete.
/// Driver's Commit with the error text kept
fn commit_diagnosed(d: &mut Driver, i: usize, symptoms: &mut Vec<String>) -> StepObs {
    let wal_seq_before = memvid_core::verif_hooks::wal_stats(d.mem()).3;
    let next_before = d.mem().next_frame_id();
    let r = d.mem().commit();
    let extra = memvid_core::verif_hooks::wal_stats(d.mem()).3 - wal_seq_before;
    let fc = d.mem().frame_count() as u64; let nx = d.mem().next_frame_id();
    let res = match &r { Ok(()) => T::C("Ok", vec![T::N(0)]), Err(e) => { symptoms.push(format!("op {}: commit() failed: {}", i, e)); T::C("Err", vec![T::N(9)]) } };
    StepObs { op_term: T::C("OCommit", vec![T::N(extra as u128)]), out_term: T::Tup(vec![res, T::N(fc as u128), T::N(nx as u128)]), ok: r.is_ok(), seq: 0, next_before, next_after: nx, auto_committed: false }
}

fn reopen_diagnosed(d: &mut Driver, note: &mut Option<String>) -> StepObs {
    let wal_seq_before = memvid_core::verif_hooks::wal_stats(d.mem()).3;
    let next_before = d.mem().next_frame_id();
    let m = d.mem.take().unwrap();
    drop(m);
    if let Ok(bytes) = std::fs::read(&d.path) {
        if bytes.len() >= 4096 {
            let arr: [u8; 4096] = bytes[..4096].try_into().unwrap();
            if let Ok(h) = HeaderCodec::decode(&arr) {
                let pend = log_frame_records(&bytes, &[]).keys().filter(|s| **s > h.wal_sequence).count();
                if pend > 0 { note.get_or_insert(format!("implicit-commit-incomplete: dropping a dirty handle left {} frame records pending in the log (Drop discards the commit's error); the next open replays them", pend)); }
            }
        }
    }
    match Memvid::open(&d.path) {
        Ok(m) => {
            let extra = memvid_core::verif_hooks::wal_stats(&m).3 - wal_seq_before;
            d.mem = Some(m);
            let fc = d.mem().frame_count() as u64; let nx = d.mem().next_frame_id();
            StepObs { op_term: T::C("OReopen", vec![T::N(extra as u128)]), out_term: T::Tup(vec![T::C("Ok", vec![T::N(0)]), T::N(fc as u128), T::N(nx as u128)]), ok: true, seq: 0, next_before, next_after: nx, auto_committed: false }
        }
        Err(e) => {
            d.open_error = Some(format!("{}", e));
            StepObs { op_term: T::C("OReopen", vec![T::N(0)]), out_term: T::Tup(vec![T::C("Err", vec![T::N(8)]), T::N(0), T::N(0)]), ok: false, seq: 0, next_before: 0, next_after: 0, auto_committed: false }
        }
    }
}

pub struct RunOut {
    /// section name -> text; every section must be identical between executions
    pub logical: BTreeMap<String, String>,
    pub file: Vec<u8>,
    pub dops: Vec<T>, pub outs: Vec<T>, pub table: T, pub tix: Vec<u64>, pub vec_ids: Vec<u64>, pub ncards: u64,
    pub failed: Option<String>,
    /// an explicit input was not the one stored
    pub input_ignored: Option<String>,
    pub delete_seqs: Vec<u64>,
    /// a put / commit / vacuum / implicit commit that failed in this execution
    pub symptoms: Vec<String>,
}

fn sreq(q: &str, top_k: usize) -> SearchRequest {
    SearchRequest { query: q.to_string(), top_k, snippet_chars: 80, uri: None, scope: None, cursor: None, as_of_frame: None, as_of_ts: None, no_sketch: true, acl_context: None, acl_enforcement_mode: Default::default() }
}
fn sreq_sketch(q: &str, top_k: usize) -> SearchRequest { let mut r = sreq(q, top_k); r.no_sketch = false; r }

/// Memvid::find_sketch_candidates as ORDERED lists: several queries, Hamming thresholds that admit few / many /
/// all entries passing the term filter, max_candidates 1, 2, 3, half of and all of the entries and the default
fn sketch_digest(m: &Memvid) -> String {
    let n = m.sketch_stats().entry_count as usize;
    let mut s = format!("entries {}\n", n);
    let queries = [tie_text(0), tie_text(1), "zulu yankee".to_string(), "amber".to_string(), "alpha".to_string(), "alpha bravo charlie".to_string(), "works paris".to_string(), "nosuchword".to_string()];
    for q in queries.iter() {
        for thr in [10u32, 32, 64] {
            for max in [1usize, 2, 3, n / 2, n, 2000] {
                let c = m.find_sketch_candidates(q, Some(memvid_core::SketchSearchOptions { hamming_threshold: thr, max_candidates: max, min_score: 0.0 }));
                s.push_str(&format!("{:?} thr{} max{}:", &q[..q.len().min(12)], thr, max));
                for x in &c { s.push_str(&format!(" ({} {:08x} {} {})", x.frame_id, x.score.to_bits(), x.hamming_distance, x.matching_top_terms)); }
                s.push('\n');
            }
        }
    }
    s
}

/// the searches of the digest with the sketch pre-filter ON
fn prefilter_search_digest(m: &mut Memvid) -> String {
    let mut queries: Vec<String> = WORDS.iter().take(6).map(|w| w.to_string()).collect();
    queries.push("zulu".into()); queries.push("zulu yankee xray".into()); queries.push("amber bronze".into()); queries.push("alpha bravo".into()); queries.push("charlie OR delta".into()); queries.push("works".into()); queries.push(tie_text(0));
    let mut s = String::new();
    for (qi, q) in queries.iter().enumerate() {
        let top_k = if qi % 3 == 0 { 3 } else if qi % 3 == 1 { 10 } else { 200 };
        match m.search(sreq_sketch(q, top_k)) {
            Ok(resp) => {
                s.push_str(&format!("Q {:?} k{} total {} next {:?} engine {:?}\n", &q[..q.len().min(20)], top_k, resp.total_hits, resp.next_cursor, resp.engine));
                for h in &resp.hits { s.push_str(&format!("  {} {} {:?} {:?} {}\n", h.rank, h.frame_id, h.range, h.chunk_range, h.matches)); }
            }
            Err(e) => s.push_str(&format!("Q {:?} error {}\n", q, e)),
        }
    }
    s
}

fn opt_n(v: Option<u64>) -> T { match v { Some(x) => T::some(T::N(x as u128)), None => T::none() } }

fn card(k: u64, created: i64) -> MemoryCard {
    MemoryCard { id: 0, kind: MemoryKind::Fact, entity: format!("ent{}", k % 5), slot: format!("slot{}", k % 3), value: format!("value{}", k), polarity: None, event_date: None, document_date: None,
        version_key: None, version_relation: VersionRelation::Sets, source_frame_id: 0, source_uri: None, source_offset: None, engine: "x".into(), engine_version: "1".into(), confidence: None, created_at: created }
}

/// executes the history; `gen` = Some(rng, n, profile) generates it on the fly (first execution), None replays `ops`
pub fn execute(ops_in: Option<&[XOp]>, mut gen: Option<(&mut Rng, usize, u64)>) -> (Vec<XOp>, RunOut) {
    let t_start = std::time::Instant::now(); let prof = std::env::var("C23_PROFILE").is_ok();
    let mut d = Driver::new();
    let mut ops: Vec<XOp> = vec![];
    let mut dops = vec![]; let mut outs = vec![]; let mut failed: Option<String> = None;
    let mut trace = String::new();
    let n = match (&ops_in, &gen) { (Some(o), _) => o.len(), (None, Some(g)) => g.1, _ => 0 };
    let mut uri_counter = 0u32; let mut kctr = 0u64;
    let mut put_ts: BTreeMap<u64, Vec<i64>> = BTreeMap::new(); let mut delete_seqs: Vec<u64> = vec![]; let mut drop_commit_incomplete: Option<String> = None; let mut symptoms: Vec<String> = vec![];
    // generator's view of the committed frames: (id, is_document, chunked)
    for i in 0..n {
        if prof { eprintln!("  before op {} at {:?}", i, t_start.elapsed()); }
        let op: XOp = if let Some(o) = ops_in { o[i].clone() } else {
            let (r, _, profile) = gen.as_mut().map(|g| (&mut *g.0, g.1, g.2)).unwrap();
            let n_committed = d.mem().frame_count() as u64;
            let docs: Vec<u64> = (0..n_committed).filter(|id| d.mem().frame_by_id(*id).map(|f| f.role == FrameRole::Document).unwrap_or(false)).collect();
            let pick = |r: &mut Rng| -> u64 { if docs.is_empty() || r.chance(1, 10) { n_committed + r.below(2) } else { docs[r.below(docs.len() as u64) as usize] } };
            let c = r.below(100);
            let ts = 1_700_000_000i64 + if r.chance(1, 4) { (r.below(3) * 50) as i64 } else { (i as i64) * 100 - (r.below(5) as i64) * 170 };
            if i + 1 == n { XOp::S(Op::Commit) }
            else if profile == 4 && (i < 6 || c < 45) { XOp::Tied { g: if i < 6 || r.chance(3, 4) { 0 } else { 1 }, ts } }
            else if profile >= 2 && profile <= 3 && c < 8 { XOp::Tied { g: r.below(2), ts } }
            else if c < 50 || n_committed == 0 && c < 75 {
                kctr += 1;
                let kind = match profile { 0 | 1 => PayloadKind::Bin, 4 => PayloadKind::Text, _ => match r.below(10) { 0..=4 => PayloadKind::Text, 5..=6 => PayloadKind::Chunked, _ => PayloadKind::Bin } };
                let size = match kind { PayloadKind::Bin => match r.below(8) { 0 => r.range(1, 8), 1 => r.range(20000, 52000), _ => r.range(10, 3000) }, PayloadKind::Text => r.range(30, 1500), PayloadKind::Chunked => r.range(2500, 6000) } as usize;
                let uri = if r.chance(1, 2) { uri_counter += 1; Some(if r.chance(1, 5) && uri_counter > 1 { r.range(1, uri_counter as u64 - 1) as u32 } else { uri_counter }) } else { None };
                let embed = if r.chance(2, 5) { Some(emb_of(r.below(1029))) } else { None };
                let default_opts = profile == 3 && !matches!(kind, PayloadKind::Bin) && r.chance(1, 2);
                XOp::S(Op::Put { kind, size, uri, ts, embed, default_opts })
            } else if c < 62 && n_committed > 0 {
                let payload = if r.chance(1, 2) { Some((if profile >= 2 && r.chance(1, 2) { PayloadKind::Text } else { PayloadKind::Bin }, r.range(30, 1200) as usize)) } else { None };
                let uri = if r.chance(1, 4) { uri_counter += 1; Some(uri_counter) } else { None };
                XOp::S(Op::Update { target: pick(r), payload, uri })
            } else if c < 72 && n_committed > 0 && profile != 0 { XOp::S(Op::Delete { target: pick(r) }) }
            else if c < 76 && profile == 3 { kctr += 1; XOp::Card { k: kctr, created: ts } }
            else if c < 80 && profile == 3 { kctr += 1; XOp::Sentence { k: kctr, ts } }
            else if c < 82 && profile >= 2 { XOp::S(Op::Vacuum) }
            else if c < 90 { XOp::S(Op::Commit) } else if c < 96 { XOp::S(Op::Reopen) } else { XOp::S(Op::Crash) }
        };
        ops.push(op.clone());
        match &op {
            XOp::S(sop) => {
                let obs = match sop { Op::Reopen => reopen_diagnosed(&mut d, &mut drop_commit_incomplete), Op::Commit => commit_diagnosed(&mut d, i, &mut symptoms), _ => d.step(sop) };
                if !obs.ok && matches!(sop, Op::Put { .. } | Op::Vacuum) { symptoms.push(format!("op {}: {:?} returned an error", i, sop)); }
                if let Some(x) = drop_commit_incomplete.take() { symptoms.push(format!("op {}: {}", i, x)); }
                if prof { if let Ok(st) = d.mem().stats() { eprintln!("    after {:?}: frames {} vectors {} vec {} wal {:?}", sop, st.frame_count, st.vector_count, st.has_vec_index, memvid_core::verif_hooks::wal_stats(d.mem())); } }
                if let Op::Put { ts, .. } = sop { if obs.ok { put_ts.entry(d.last_tag).or_default().push(*ts); } }
                if let Op::Delete { .. } = sop { if obs.ok { delete_seqs.push(obs.seq); } }
                if let Some(e) = d.open_error.clone() { if e.contains("LockBusy") { symptoms.push(format!("op {}: open failed: {}", i, e)); } failed = Some(format!("open failed at op {}: {}", i, e)); break; }
                // the model's op: the store op of Model/Store.v plus what Model/Determinism.v needs
                let dop = match sop {
                    // text = true: every frame gets index text (augment_search_text appends at least the metadata line)
                    Op::Put { ts, embed, default_opts, .. } => T::C("DStore", vec![obs.op_term.clone(), T::some(T::N(*ts as u128)), T::B(true), opt_n(embed.as_ref().map(|e| emb_key(e))), T::B(*default_opts)]),
                    Op::Update { .. } => T::C("DStore", vec![obs.op_term.clone(), T::none(), T::B(true), T::none(), T::B(false)]),
                    _ => T::C("DStore", vec![obs.op_term.clone(), T::none(), T::B(false), T::none(), T::B(false)]),
                };
                trace.push_str(&format!("{} => {}\n", obs.op_term.coq(), obs.out_term.coq()));
                dops.push(dop); outs.push(obs.out_term);
            }
            XOp::Card { k, created } => {
                let r = d.mem().put_memory_card(card(*k, *created));
                let fc = d.mem().frame_count() as u64; let nx = d.mem().next_frame_id();
                let res = match &r { Ok(_) => T::C("Ok", vec![T::N(0)]), Err(_) => T::C("Err", vec![T::N(9)]) };
                trace.push_str(&format!("card {} {} => {:?}\n", k, created, r.as_ref().map(|_| ()).map_err(|e| e.to_string())));
                dops.push(T::C("DCard", vec![T::N(*k as u128), T::some(T::N(*created as u128))]));
                outs.push(T::Tup(vec![res, T::N(fc as u128), T::N(nx as u128)]));
            }
            XOp::Sentence { .. } | XOp::Tied { .. } => {
                let (text, tag, ts, dflt) = match &op { XOp::Sentence { k, ts } => (sentence(*k), 500_000 + *k, *ts, true), XOp::Tied { g, ts } => (tie_text(*g), 600_000 + (*g % 2), *ts, false), _ => unreachable!() };
                let tag = *d.tags.entry(*blake3::hash(text.as_bytes()).as_bytes()).or_insert(tag);
                let wal_seq_before = memvid_core::verif_hooks::wal_stats(d.mem()).3;
                let cards_before = d.mem().memories().card_count() as u64;
                let opts = Driver::options(None, ts, dflt);
                let r = d.mem().put_bytes_with_options(text.as_bytes(), opts);
                let (_, pending, _, seq_now) = memvid_core::verif_hooks::wal_stats(d.mem());
                let grew = seq_now - wal_seq_before;
                let auto = if grew > 0 && pending == 0 { T::some(T::N((grew - 1) as u128)) } else if grew > 1 { T::some(T::N((grew - 1) as u128)) } else { T::none() };
                let ncards = d.mem().memories().card_count() as u64 - cards_before;
                // tied frames share one content tag: the timestamp check below is per tag, leave them out
                if r.is_ok() && dflt { put_ts.entry(tag).or_default().push(ts); }
                let fc = d.mem().frame_count() as u64; let nx = d.mem().next_frame_id();
                let res = match &r { Ok(s) => T::C("Ok", vec![T::N(*s as u128)]), Err(e) => { symptoms.push(format!("op {}: put failed: {}", i, e)); T::C("Err", vec![T::N(9)]) } };
                let sop_t = T::C("OPut", vec![T::none(), T::N(tag as u128), T::N(0), T::N(0), auto]);
                trace.push_str(&format!("{} => {} cards {}\n", if dflt { "sentence" } else { "tied" }, res.coq(), ncards));
                if dflt { dops.push(T::C("DSentence", vec![sop_t, T::some(T::N(ts as u128)), T::N(ncards as u128)])); }
                else { dops.push(T::C("DStore", vec![sop_t, T::some(T::N(ts as u128)), T::B(true), T::none(), T::B(false)])); }
                outs.push(T::Tup(vec![res, T::N(fc as u128), T::N(nx as u128)]));
            }
        }
    }
    if prof { eprintln!("ops done {:?}", t_start.elapsed()); }
    let mut logical = BTreeMap::new(); let mut failed_input: Option<String> = None;
    let mut table = T::L(vec![]); let mut tix = vec![]; let mut vec_ids = vec![]; let mut ncards = 0;
    if failed.is_none() {
        logical.insert("per-op results".to_string(), trace);
        // ---- frame table and contents
        let (tt, frames) = d.table();
        table = tt;
        let mut s = String::new(); let mut cs = String::new();
        for f in &frames {
            let mut g = f.clone(); g.payload_offset = 0;
            s.push_str(&serde_json::to_string(&g).unwrap_or_else(|e| format!("<<{}>>", e))); s.push('\n');
            if f.status == FrameStatus::Active {
                let h = match d.mem().frame_canonical_payload(f.id) { Ok(b) => blake3::hash(&b).to_hex().to_string(), Err(e) => format!("read error {}", e) };
                cs.push_str(&format!("{} {}\n", f.id, h));
            }
        }
        logical.insert("frame table".into(), s); logical.insert("frame contents".into(), cs);
        // the explicit inputs are the ones stored: a put's timestamp is the frame's
        for f in &frames {
            if f.status == FrameStatus::Active && f.role == FrameRole::Document && f.supersedes.is_none() {
                if let Ok(b) = d.mem().frame_canonical_payload(f.id) {
                    // several puts may carry byte-identical content (same tag): the frame's timestamp must be
                    // one of the timestamps given for that content
                    if let Some(tss) = d.tags.get(blake3::hash(&b).as_bytes()).and_then(|t| put_ts.get(t)) {
                        if !tss.contains(&f.timestamp) { failed_input = Some(format!("explicit-input-ignored: frame {} was put with a timestamp in {:?} and holds {}", f.id, tss, f.timestamp)); }
                    }
                }
            }
        }
        // ---- timeline, both directions
        let mut s = String::new();
        for rev in [false, true] {
            let mut q = TimelineQuery::builder().limit(NonZeroU64::new(100_000).unwrap());
            if rev { q = q.reverse(true); }
            match d.mem().timeline(q.build()) {
                Ok(es) => { for e in &es { s.push_str(&format!("{} {} {:?} {:?} {:?}\n", e.frame_id, e.timestamp, e.uri, e.child_frames, e.preview)); } if !rev { tix = es.iter().map(|e| e.frame_id).collect(); tix.sort(); } }
                Err(e) => s.push_str(&format!("error {}\n", e)),
            }
            s.push_str("--\n");
        }
        logical.insert("timeline".into(), s);
        if prof { eprintln!("table+timeline done {:?}", t_start.elapsed()); }
        // ---- searches (sketch pre-filter off)
        let mut queries: Vec<String> = WORDS.iter().map(|w| w.to_string()).collect();
        queries.push("alpha bravo".into()); queries.push("charlie OR delta".into()); queries.push("echo AND foxtrot".into()); queries.push("golf -hotel".into());
        queries.push("uri:mv2://u/1".into()); queries.push("works".into()); queries.push("lives paris".into()); queries.push("nosuchword".into()); queries.push("zulu".into()); queries.push("zulu yankee xray".into()); queries.push("amber bronze".into());
        let mut tagged = 0;
        for f in &frames { if tagged < 6 && f.role == FrameRole::Document { if let Some(t) = f.search_text.as_ref().and_then(|t| t.split_whitespace().next().map(|w| w.to_string())) { if t.starts_with("doc") { queries.push(t); tagged += 1; } } } }
        let mut s = String::new(); let mut sc = String::new();
        for (qi, q) in queries.iter().enumerate() {
            let top_k = if qi % 3 == 0 { 3 } else if qi % 3 == 1 { 10 } else { 200 };
            match d.mem().search(sreq(q, top_k)) {
                Ok(resp) => {
                    s.push_str(&format!("Q {:?} k{} total {} next {:?} engine {:?}\n", q, top_k, resp.total_hits, resp.next_cursor, resp.engine));
                    for h in &resp.hits { s.push_str(&format!("  {} {} {:?} {:?} {} {:?}\n", h.rank, h.frame_id, h.range, h.chunk_range, h.matches, h.text)); sc.push_str(&format!("{} {} {:?}\n", qi, h.frame_id, h.score.map(|x| x.to_bits()))); }
                }
                Err(e) => s.push_str(&format!("Q {:?} error {}\n", q, e)),
            }
        }
        logical.insert("search results".into(), s); logical.insert("search scores".into(), sc);
        if prof { eprintln!("searches done {:?}", t_start.elapsed()); }
        // ---- vector searches
        let mut s = String::new();
        for (qi, k) in [1u64, 50, 423, 999].iter().enumerate() {
            match d.mem().search_vec(&emb_of(*k), if qi == 0 { 100_000 } else { 5 }) {
                Ok(hs) => { s.push_str(&format!("V{} ", k)); for h in &hs { s.push_str(&format!("({} {:08x}) ", h.frame_id, h.distance.to_bits())); } s.push('\n'); if qi == 0 { vec_ids = hs.iter().map(|h| h.frame_id).collect(); vec_ids.sort(); } }
                Err(e) => s.push_str(&format!("V{} error {}\n", k, e)),
            }
        }
        logical.insert("vector searches".into(), s);
        // ---- memory cards (every field, created_at apart: it is `now` for extracted cards)
        let mut s = String::new(); let mut sn = String::new();
        for c in d.mem().memories().cards() { let mut g = c.clone(); sn.push_str(&format!("{} {}\n", g.id, g.created_at)); g.created_at = 0; s.push_str(&serde_json::to_string(&g).unwrap_or_default()); s.push('\n'); }
        ncards = d.mem().memories().card_count() as u64;
        logical.insert("memory cards".into(), s); logical.insert("memory card created_at".into(), sn);
        logical.insert("sketch candidates (live handle)".into(), sketch_digest(d.mem()));
        if std::env::var("C23_DUMP").is_ok() { eprintln!("{}", logical["sketch candidates (live handle)"]); }
        logical.insert("search results (sketch pre-filter, live handle)".into(), prefilter_search_digest(d.mem()));
        let st = d.mem().stats();
        if let Ok(st) = st { logical.insert("stats".into(), format!("frames {} active {} lex {} vec {} time {} vectors {} payload {} logical {}", st.frame_count, st.active_frame_count, st.has_lex_index, st.has_vec_index, st.has_time_index, st.vector_count, st.payload_bytes, st.logical_bytes)); }
    }
    let path = d.path.clone();
    let m = d.mem.take(); drop(m);
    let file = std::fs::read(&path).unwrap_or_default();
    // two further opens of the file as it is (nothing is written): the sketch track is rebuilt from the file each time
    let mut reopen_differs: Option<String> = None;
    if failed.is_none() {
        let mut seen: Vec<(String, String)> = vec![];
        for _ in 0..2 {
            match Memvid::open(&path) {
                Ok(mut m) => { let a = sketch_digest(&m); let b = prefilter_search_digest(&mut m); seen.push((a, b)); }
                Err(e) => { seen.push((format!("open failed: {}", e), String::new())); }
            }
        }
        if seen[0] != seen[1] {
            let what = if seen[0].0 != seen[1].0 { first_diff(&seen[0].0, &seen[1].0) } else { first_diff(&seen[0].1, &seen[1].1) };
            reopen_differs = Some(format!("logical-differs: two opens of the same file give different sketch candidates / pre-filtered search results: {}", what));
        }
        logical.insert("sketch candidates (reopened handle)".into(), seen[0].0.clone());
        logical.insert("search results (sketch pre-filter, reopened handle)".into(), seen[0].1.clone());
    }
    let failed_input = failed_input.or(reopen_differs);
    (ops, RunOut { logical, file, dops, outs, table, tix, vec_ids, ncards, failed, input_ignored: failed_input, delete_seqs, symptoms })
}

// ------------------------------------------------------------------ regions
pub fn regions(file: &[u8]) -> Result<BTreeMap<usize, Vec<u8>>, String> {
    let mut m: BTreeMap<usize, Vec<u8>> = BTreeMap::new();
    if file.len() < 4096 { return Err("file shorter than the header".into()); }
    let arr: [u8; 4096] = file[..4096].try_into().unwrap();
    let h = HeaderCodec::decode(&arr).map_err(|e| format!("header: {}", e))?;
    m.insert(0, [&file[0..8], &file[16..32]].concat());
    m.insert(1, file[8..16].to_vec());
    m.insert(2, file[32..48].to_vec());
    m.insert(3, file[48..80].to_vec());
    m.insert(4, file[80..4096].to_vec());
    let wal_end = (h.wal_offset + h.wal_size) as usize;
    if wal_end > file.len() { return Err("log region beyond the file".into()); }
    m.insert(5, file[h.wal_offset as usize..wal_end].to_vec());
    let fs = find_last_valid_footer(file).ok_or("no valid footer")?;
    if fs.toc_offset as u64 != h.footer_offset { return Err(format!("header footer_offset {} but the last valid footer's TOC starts at {}", h.footer_offset, fs.toc_offset)); }
    let toc = Toc::decode(fs.toc_bytes).map_err(|e| format!("toc: {}", e))?;
    m.insert(14, fs.toc_bytes.to_vec());
    m.insert(17, toc_canonical(&toc).into_bytes());
    let fo = fs.footer_offset;
    m.insert(15, file[fo + 8..fo + 48].to_vec());
    m.insert(16, [&file[fo..fo + 8], &file[fo + 48..fo + 56]].concat());
    let mut covered: Vec<(usize, usize)> = vec![];
    let mut take = |off: u64, len: u64, covered: &mut Vec<(usize, usize)>| -> Result<Vec<u8>, String> {
        let (a, b) = (off as usize, (off + len) as usize);
        if b > fs.toc_offset || a < wal_end { return Err(format!("manifest range {}..{} outside the data area {}..{}", a, b, wal_end, fs.toc_offset)); }
        covered.push((a, b)); Ok(file[a..b].to_vec())
    };
    let mut pay = vec![];
    for f in &toc.frames { if f.payload_length > 0 { pay.extend(take(f.payload_offset, f.payload_length, &mut covered)?); } }
    m.insert(6, pay);
    if let Some(t) = &toc.time_index { if t.bytes_length > 0 { let b = take(t.bytes_offset, t.bytes_length, &mut covered)?; m.insert(7, b); } }
    let mut lex = vec![];
    for s in &toc.indexes.lex_segments { lex.extend(s.path.as_bytes()); lex.push(0); lex.extend(take(s.bytes_offset, s.bytes_length, &mut covered)?); }
    if let Some(l) = &toc.indexes.lex { if l.bytes_length > 0 { lex.extend(take(l.bytes_offset, l.bytes_length, &mut covered)?); } }
    if !lex.is_empty() { m.insert(8, lex); }
    if let Some(v) = &toc.indexes.vec { if v.bytes_length > 0 { let b = take(v.bytes_offset, v.bytes_length, &mut covered)?; m.insert(9, b); } }
    if let Some(t) = &toc.memories_track { if t.bytes_length > 0 { let b = take(t.bytes_offset, t.bytes_length, &mut covered)?; m.insert(10, b); } }
    if let Some(t) = &toc.sketch_track { if t.bytes_length > 0 { let b = take(t.bytes_offset, t.bytes_length, &mut covered)?; m.insert(11, b); } }
    if let Some(t) = &toc.logic_mesh { if t.bytes_length > 0 { let b = take(t.bytes_offset, t.bytes_length, &mut covered)?; m.insert(12, b); } }
    // bytes no manifest points to
    covered.sort();
    let mut un = vec![]; let mut cur = wal_end;
    for (a, b) in covered { if a > cur { un.extend(&file[cur..a]); } cur = cur.max(b); }
    if fs.toc_offset > cur { un.extend(&file[cur..fs.toc_offset]); }
    if !un.is_empty() { m.insert(13, un); }
    Ok(m)
}

fn zero_offsets(v: &mut serde_json::Value) {
    match v {
        serde_json::Value::Object(m) => { for (k, x) in m.iter_mut() { if k == "bytes_offset" || k == "payload_offset" || k == "segment_offset" { *x = serde_json::Value::Null; } else { zero_offsets(x); } } }
        serde_json::Value::Array(a) => { for x in a.iter_mut() { zero_offsets(x); } }
        _ => {}
    }
}

/// the TOC as a value, without what the model tags with an oracle source: the lex / Tantivy segment
/// manifests (names, lengths, checksums, segment id counter), the TOC's own checksum, the memories
/// track's checksum and length (extracted cards are stamped now()), every absolute offset
pub fn toc_canonical(toc: &Toc) -> String {
    let mut v = serde_json::to_value(toc).unwrap_or(serde_json::Value::Null);
    v["toc_checksum"] = serde_json::Value::Null;
    v["indexes"]["lex_segments"] = serde_json::Value::Null;
    v["indexes"]["lex"] = serde_json::Value::Null;
    v["segment_catalog"]["tantivy_segments"] = serde_json::Value::Null;
    v["segment_catalog"]["next_segment_id"] = serde_json::Value::Null;
    if v["memories_track"].is_object() { v["memories_track"]["checksum"] = serde_json::Value::Null; v["memories_track"]["bytes_length"] = serde_json::Value::Null; }
    zero_offsets(&mut v);
    v.to_string()
}

/// every well-formed record in the log region ([seq u64][len u32][reserved 4][blake3 32][payload]), also stale
/// ones from before a wrap: sequence number -> record bytes.  Only WalEntry::Frame records (bincode variant 0)
/// are kept; for the sequence numbers in `tombstones` the timestamp field (payload bytes 4..12) and the
/// checksum are zeroed.
pub fn log_frame_records(file: &[u8], tombstones: &[u64]) -> BTreeMap<u64, Vec<u8>> {
    let mut m = BTreeMap::new();
    if file.len() < 4096 { return m; }
    let arr: [u8; 4096] = file[..4096].try_into().unwrap();
    let h = match HeaderCodec::decode(&arr) { Ok(h) => h, Err(_) => return m };
    let (a, b) = (h.wal_offset as usize, (h.wal_offset + h.wal_size) as usize);
    if b > file.len() { return m; }
    let reg = &file[a..b];
    let mut off = 0usize;
    while off + 48 < reg.len() {
        let len = u32::from_le_bytes(reg[off + 8..off + 12].try_into().unwrap()) as usize;
        let seq = u64::from_le_bytes(reg[off..off + 8].try_into().unwrap());
        if len >= 12 && off + 48 + len <= reg.len() && reg[off + 12..off + 16] == [0, 0, 0, 0] && seq > 0 && seq < 1_000_000
            && blake3::hash(&reg[off + 48..off + 48 + len]).as_bytes()[..] == reg[off + 16..off + 48] {
            let mut rec = reg[off..off + 48 + len].to_vec();
            if rec[48..52] == [0, 0, 0, 0] {
                if tombstones.contains(&seq) { for x in rec[16..48].iter_mut() { *x = 0; } for x in rec[52..60].iter_mut() { *x = 0; } }
                m.insert(seq, rec);
            }
            off += 48 + len;
        } else { off += 1; }
    }
    m
}

/// classes whose bytes differ between two files (a class present in one file only differs)
pub fn diff_classes(a: &BTreeMap<usize, Vec<u8>>, b: &BTreeMap<usize, Vec<u8>>) -> Vec<usize> {
    (0..CLASSES.len()).filter(|c| a.get(c) != b.get(c)).collect()
}

// ------------------------------------------------------------------ child process
pub fn child(args: &[String]) {
    // worker mode: "worker" seed index outfile -- one whole history (all its executions) in a single-threaded process
    if args[0] == "worker" {
        let seed: u64 = args[1].parse().expect("seed"); let i: usize = args[2].parse().expect("index");
        let mut out = std::io::BufWriter::new(std::fs::File::create(&args[3]).expect("outfile"));
        for (stream, c) in one_case(seed, i) { emit(&mut out, stream, &c); }
        return;
    }
    // execution mode: history file, output directory
    let mut ops = de(&std::fs::read_to_string(&args[0]).expect("history file"));
    // self-test of the oracle (never set by ./check): the executions in child processes get a perturbed input
    match std::env::var("C23_SELFTEST").as_deref() {
        Ok("ts") => { for op in ops.iter_mut() { if let XOp::S(Op::Put { ts, .. }) = op { *ts += 1; } } }
        Ok("emb") => { for op in ops.iter_mut() { if let XOp::S(Op::Put { embed, .. }) = op { if embed.is_some() { *embed = Some(emb_of(0)); break; } } } }
        _ => {}
    }
    let (_, out) = execute(Some(&ops), None);
    let dir = std::path::Path::new(&args[1]);
    std::fs::write(dir.join("file.mv2"), &out.file).expect("write file");
    let mut j = serde_json::Map::new();
    for (k, v) in &out.logical { j.insert(k.clone(), serde_json::Value::String(v.clone())); }
    if let Some(f) = &out.failed { j.insert("FAILED".into(), serde_json::Value::String(f.clone())); }
    if !out.symptoms.is_empty() { j.insert("SYMPTOMS".into(), serde_json::Value::String(out.symptoms.join(" | "))); }
    std::fs::write(dir.join("logical.json"), serde_json::to_string(&j).unwrap()).expect("write logical");
}

struct ChildRun { dir: tempfile::TempDir, proc_: std::process::Child }

fn start_child(ops: &[XOp]) -> Result<ChildRun, String> {
    let dir = tempfile::tempdir().map_err(|e| e.to_string())?;
    let hf = dir.path().join("history.txt");
    std::fs::write(&hf, ser(ops)).map_err(|e| e.to_string())?;
    let exe = std::env::current_exe().map_err(|e| e.to_string())?;
    let proc_ = std::process::Command::new(exe).arg("C23-child").arg(&hf).arg(dir.path()).env("RUST_BACKTRACE", "0")
        .stdout(std::process::Stdio::null()).stderr(std::process::Stdio::null()).spawn().map_err(|e| e.to_string())?;
    Ok(ChildRun { dir, proc_ })
}

fn finish_child(mut c: ChildRun, idx: usize) -> Result<(BTreeMap<String, String>, Vec<u8>), String> {
    let st = c.proc_.wait().map_err(|e| e.to_string())?;
    if !st.success() { return Err(format!("child {} exited with {:?}", idx, st.code())); }
    let file = std::fs::read(c.dir.path().join("file.mv2")).map_err(|e| e.to_string())?;
    let j: serde_json::Value = serde_json::from_str(&std::fs::read_to_string(c.dir.path().join("logical.json")).map_err(|e| e.to_string())?).map_err(|e| e.to_string())?;
    let mut m = BTreeMap::new();
    for (k, v) in j.as_object().unwrap() { m.insert(k.clone(), v.as_str().unwrap_or("").to_string()); }
    if let Some(f) = m.get("FAILED") { if !m.contains_key("SYMPTOMS") { return Err(format!("child {} failed: {}", idx, f)); } }
    Ok((m, file))
}

/// region classes the model tags with no oracle source (coq/Model/Determinism.v `deps c = []`)
const DETERMINISTIC: [usize; 10] = [0, 4, 6, 7, 9, 11, 12, 16, 17, 18];
/// logical sections that are part of the property; "search scores" and "memory card created_at" are reported separately
const LOGICAL: [&str; 12] = ["per-op results", "frame table", "frame contents", "timeline", "search results", "vector searches", "memory cards", "stats",
    "sketch candidates (live handle)", "sketch candidates (reopened handle)", "search results (sketch pre-filter, live handle)", "search results (sketch pre-filter, reopened handle)"];

fn first_diff(a: &str, b: &str) -> String {
    for (x, y) in a.lines().zip(b.lines()) { if x != y { return format!("{:?} vs {:?}", &x[..x.len().min(160)], &y[..y.len().min(160)]); } }
    format!("{} vs {} lines", a.lines().count(), b.lines().count())
}

/// one attempt: Ok(case) when no execution showed a spuriously failing commit, Err(symptoms, all four executions affected) otherwise
fn attempt(seed: u64, i: usize) -> Result<Case, (Vec<String>, bool)> {
    let mut r = Rng::new(seed ^ 0xC23 ^ ((i as u64 + 1).wrapping_mul(0x9E37_79B9_7F4A_7C15)));
    let dbg = std::env::var("MV_DEBUG").is_ok();
    let profile = (i % 5) as u64;
    let nops = if profile == 4 { r.range(12, 20) } else { r.range(6, 20) } as usize;
    let (ops, a) = execute(None, Some((&mut r, nops, profile)));
    let mut viol: Option<String> = None;
    let mut tags = vec![format!("profile{}", profile)];
    let mut others: Vec<(String, BTreeMap<String, String>, Vec<u8>)> = vec![];
    let mut symptoms: Vec<String> = a.symptoms.iter().map(|x| format!("first execution, {}", x)).collect();
    let mut affected = if a.symptoms.is_empty() { 0 } else { 1 }; let mut executions = 1;
    if let Some(f) = &a.input_ignored { viol = Some(f.clone()); }
    if let Some(f) = &a.failed { viol = Some(format!("history-failed: {}", f)); }
    if a.failed.is_none() || !a.symptoms.is_empty() {
        // every later execution starts more than a second after the first one ended: each now() call of theirs
        // returns another second than the corresponding call of the first execution, so a flow of `now` shows
        std::thread::sleep(std::time::Duration::from_millis(1100));
        let kids: Vec<Result<ChildRun, String>> = (0..2).map(|_| start_child(&ops)).collect();
        let (_, b) = execute(Some(&ops), None);
        executions += 1; if !b.symptoms.is_empty() { affected += 1; symptoms.extend(b.symptoms.iter().map(|x| format!("second execution, {}", x))); }
        if let Some(f) = &b.failed { viol.get_or_insert(format!("logical-differs: the second execution failed ({}) and the first did not", f)); }
        others.push(("the same process".into(), b.logical, b.file));
        for (k, c) in kids.into_iter().enumerate() {
            match c.and_then(|c| finish_child(c, k)) {
                Ok((l, f)) => { executions += 1; if let Some(x) = l.get("SYMPTOMS") { affected += 1; symptoms.push(format!("child process {}, {}", k + 1, x)); } others.push((format!("child process {}", k + 1), l, f)) }
                Err(e) => { viol.get_or_insert(format!("logical-differs: a separate process could not complete the history the first execution completed: {}", e)); }
            }
        }
    }
    if !symptoms.is_empty() { return Err((symptoms, affected == executions)); }
    // (1) logical digest
    for (who, l, _) in &others {
        for sec in LOGICAL.iter() {
            let (x, y) = (a.logical.get(*sec).cloned().unwrap_or_default(), l.get(*sec).cloned().unwrap_or_default());
            if x != y { viol.get_or_insert(format!("logical-differs: section '{}' of the first execution and of the one in {} differ: {}", sec, who, first_diff(&x, &y))); }
        }
        for sec in ["search scores", "memory card created_at"] {
            if a.logical.get(sec) != l.get(sec) { tags.push(format!("differs:{}", sec.replace(' ', "_"))); }
        }
    }
    // (2) region classes
    let mut differ: Vec<usize> = vec![];
    let mut whole_differs = false;
    match regions(&a.file) {
        Err(e) => { if a.failed.is_none() { viol.get_or_insert(format!("regions-unreadable: first execution's file: {}", e)); } }
        Ok(ra) => {
            for (c, _) in &ra { tags.push(format!("has:{}", CLASSES[*c])); }
            for (who, _, f) in &others {
                if *f != a.file { whole_differs = true; }
                match regions(f) {
                    Err(e) => { viol.get_or_insert(format!("regions-unreadable: file of the execution in {}: {}", who, e)); }
                    Ok(rb) => { for c in diff_classes(&ra, &rb) { if !differ.contains(&c) { differ.push(c); } } }
                }
            }
        }
    }
    // frame records of the log, sequence number by sequence number (those both files still hold)
    let la = log_frame_records(&a.file, &a.delete_seqs);
    let mut compared = 0usize; let mut masked = 0usize;
    for (_, _, f) in &others {
        let lb = log_frame_records(f, &a.delete_seqs);
        for (seq, ra) in &la { if let Some(rb) = lb.get(seq) { compared += 1; if a.delete_seqs.contains(seq) { masked += 1; } if ra != rb && !differ.contains(&18) { differ.push(18); } } }
    }
    if compared > 0 { tags.push("has:log-frame-records".into()); }
    if masked > 0 { tags.push("has:tombstone-record".into()); }
    differ.sort();
    for c in &differ {
        tags.push(format!("bytes-differ:{}", CLASSES[*c]));
        if DETERMINISTIC.contains(c) { viol.get_or_insert(format!("deterministic-class-differs: region class '{}' differs between two executions although the model lets no oracle source flow into it", CLASSES[*c])); }
    }
    if whole_differs && differ.is_empty() { viol.get_or_insert("deterministic-class-differs: the files differ outside every delimited region class".to_string()); }
    if whole_differs && viol.is_none() {
        let names: Vec<&str> = differ.iter().map(|c| CLASSES[*c]).collect();
        viol = Some(format!("bytes-differ-in-oracle-tagged-classes: the files of two executions of the same calls differ in region classes [{}] (each tagged segment_id / scheduling / now by the model; every other class is identical)", names.join(", ")));
    }
    if dbg { eprintln!("case {} profile {} ops {} differ {:?} viol {:?}", i, profile, ops.len(), differ, viol); }
    for op in &ops { match op { XOp::S(Op::Delete { .. }) => tags.push("delete".into()), XOp::S(Op::Update { .. }) => tags.push("update".into()), XOp::S(Op::Reopen) => tags.push("reopen".into()), XOp::S(Op::Crash) => tags.push("crash".into()),
        XOp::S(Op::Vacuum) => tags.push("vacuum".into()), XOp::Card { .. } => tags.push("card".into()), XOp::Sentence { .. } => tags.push("sentence".into()), XOp::Tied { .. } => tags.push("tied".into()),
        XOp::S(Op::Put { kind, embed, .. }) => { tags.push(format!("put{}", kind_c(kind))); if embed.is_some() { tags.push("embedding".into()); } } _ => {} } }
    tags.sort(); tags.dedup();
    let obs_bits = T::L((0..CLASSES.len()).map(|c| T::B(differ.contains(&c))).collect());
    let input = T::Tup(vec![T::L(a.dops.clone()), obs_bits]);
    let output = T::Tup(vec![T::L(a.outs.clone()), a.table.clone(), T::L(a.tix.iter().map(|x| T::N(*x as u128)).collect()), T::L(a.vec_ids.iter().map(|x| T::N(*x as u128)).collect()), T::N(a.ncards as u128), T::B(true)]);
    let key = blake3::hash(ser(&ops).as_bytes()).to_hex()[..16].to_string();
    let nontrivial = others.len() == 3 && a.failed.is_none() && a.file.len() > 4096;
    Ok(Case { input, output, violation: viol, nontrivial, tags, key })
}

/// up to three attempts; a clean one is compared; a spuriously failing commit is reported on a stream of its own
fn one_case(seed: u64, i: usize) -> Vec<(&'static str, Case)> {
    let mut out = vec![]; let mut seen: Vec<String> = vec![];
    for _ in 0..3 {
        match attempt(seed, i) {
            Ok(c) => { out.push(("hist", c)); break; }
            Err((symptoms, all)) => {
                let lock_busy = symptoms.iter().any(|x| x.contains("LockBusy"));
                if all && !lock_busy {
                    // every execution failed the same way and nothing points at the lock race: not the known finding
                    out.push(("failed", Case { input: T::N(i as u128), output: T::N(0), violation: Some(format!("history-failed: every execution of history {} had a failing call: {}", i, symptoms.join(" ; "))), nontrivial: false, tags: vec!["all-executions-failed".into()], key: format!("failed{}", i) }));
                    return out;
                }
                seen.extend(symptoms);
            }
        }
    }
    if !seen.is_empty() {
        let text: String = seen.join(" ; ").chars().take(900).collect();
        out.push(("spurious", Case { input: T::N(i as u128), output: T::N(0), violation: Some(format!("spurious-commit-failure: history {}: a call that commits failed in some executions and not in others of the same calls: {}", i, text)), nontrivial: false, tags: vec!["spurious-commit-failure".into()], key: format!("spurious{}", i) }));
    }
    out
}

/// The parent only schedules: every history runs in a worker PROCESS of its own (single-threaded: first
/// execution, pause, the two child processes are started while no memory is open in the worker, second
/// execution, wait).  Worker threads inside one process are not used: a child forked while another thread
/// holds Tantivy's index-writer lock file keeps that lock's open file description alive until its exec, and
/// the thread's next create_writer() then fails with LockBusy (seen while building this check).
pub fn run(seed: u64, n: usize, w: &mut dyn std::io::Write) {
    let only: Option<usize> = std::env::var("C23_ONLY").ok().and_then(|s| s.parse().ok());
    let workers = std::env::var("C23_WORKERS").ok().and_then(|s| s.parse().ok()).unwrap_or(4usize).max(1);
    let dir = tempfile::tempdir().expect("tempdir");
    let exe = std::env::current_exe().expect("current_exe");
    let todo: Vec<usize> = (0..n).filter(|i| only.map_or(true, |o| o == *i)).collect();
    let mut running: Vec<(usize, std::process::Child)> = vec![];
    let mut next = 0usize;
    let outfile = |i: usize| dir.path().join(format!("case_{}.jsonl", i));
    while next < todo.len() || !running.is_empty() {
        while running.len() < workers && next < todo.len() {
            let i = todo[next]; next += 1;
            let c = std::process::Command::new(&exe).arg("C23-child").arg("worker").arg(seed.to_string()).arg(i.to_string()).arg(outfile(i))
                .env("RUST_BACKTRACE", "0").stdout(std::process::Stdio::null()).spawn().expect("spawn worker");
            running.push((i, c));
        }
        let mut k = 0;
        while k < running.len() {
            match running[k].1.try_wait() { Ok(Some(_)) => { running.remove(k); } _ => { k += 1; } }
        }
        std::thread::sleep(std::time::Duration::from_millis(50));
    }
    for i in todo {
        match std::fs::read_to_string(outfile(i)) {
            Ok(t) if !t.trim().is_empty() => { w.write_all(t.as_bytes()).unwrap(); }
            _ => { emit(w, "failed", &Case { input: T::N(i as u128), output: T::N(0), violation: Some(format!("history-failed: the worker process of history {} produced no case (crashed?)", i)), nontrivial: false, tags: vec!["worker-crashed".into()], key: format!("crashed{}", i) }); }
        }
    }
}
