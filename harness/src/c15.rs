//! C15: Memvid::timeline on real memories against the table-level model (Model/Timeline.v),
//! plus io::time_index append_track/read_track at entry level.
//!
//! Streams:
//!   hist  : (engines, acknowledged ops, queries) -> (frame table, index present, results)
//!   table : (observed frame table, has_time_index, queries) -> results
//!   track : (sort_first, entries) -> read_track result
//! The property oracle (sortedness, exactly-once, inclusive bounds, limit = prefix,
//! reverse = reversal) is evaluated on the implementation's output only.
use crate::store::{payload_bytes, PayloadKind};
use crate::term::*;
use memvid_core::types::{DoctorOptions, FrameRole, FrameStatus, TimelineQuery};
use memvid_core::{Memvid, PutOptions};
use std::collections::{HashMap, HashSet};
use std::num::NonZeroU64;
use std::panic::{catch_unwind, AssertUnwindSafe};

pub const KNOWN_CLASS: &str = "extracted-image-order";

#[derive(Clone, Debug)]
pub enum Role { Doc, Image, Chunked }

#[derive(Clone, Debug)]
pub enum HOp {
    Put { ts: i64, role: Role, default_opts: bool },
    Update { target: u64, ts: Option<i64>, image: bool, payload: bool },
    Delete { target: u64 },
    Commit,
    Reopen,
    Doctor(u8),
}

#[derive(Clone, Debug, PartialEq, Eq, Hash)]
pub struct Q { limit: Option<u64>, since: Option<i64>, until: Option<i64>, reverse: bool }

#[derive(Clone, Debug)]
struct Row { id: u64, ts: i64, role: u8, status: u8 }

fn opt_n(v: Option<u64>) -> T { match v { Some(x) => T::some(T::N(x as u128)), None => T::none() } }
fn opt_z(v: Option<i64>) -> T { match v { Some(x) => T::some(T::Z(x as i128)), None => T::none() } }
fn q_term(q: &Q) -> T { T::Tup(vec![opt_n(q.limit), opt_z(q.since), opt_z(q.until), T::B(q.reverse)]) }
fn row_term(r: &Row) -> T { T::Tup(vec![T::N(r.id as u128), T::Z(r.ts as i128), T::N(r.role as u128), T::N(r.status as u128)]) }
fn res_term(r: &Result<Vec<(u64, i64)>, String>) -> T {
    match r {
        Ok(v) => T::C("Ok", vec![T::L(v.iter().map(|(id, ts)| T::Tup(vec![T::N(*id as u128), T::Z(*ts as i128)])).collect())]),
        Err(e) if e == "panic" => T::C("Panic", vec![T::N(0)]),
        Err(_) => T::C("Err", vec![T::N(1)]),
    }
}

fn table(mem: &Memvid) -> Vec<Row> {
    let n = mem.frame_count() as u64;
    (0..n).map(|id| {
        let f = mem.frame_by_id(id).expect("frame_by_id");
        Row {
            id: f.id, ts: f.timestamp,
            role: match f.role { FrameRole::Document => 0, FrameRole::DocumentChunk => 1, FrameRole::ExtractedImage => 2 },
            status: match f.status { FrameStatus::Active => 0, FrameStatus::Superseded => 1, FrameStatus::Deleted => 2 },
        }
    }).collect()
}

fn eligible(r: &Row) -> bool { r.status == 0 && (r.role == 0 || r.role == 2) }

/// the class of F-C15-1, decided on the observed table: the list "active documents sorted by
/// (timestamp, id), then active extracted images in id order" is not in (timestamp, id) order
fn known_class(rows: &[Row]) -> bool {
    let mut docs: Vec<(i64, u64)> = rows.iter().filter(|r| r.status == 0 && r.role == 0).map(|r| (r.ts, r.id)).collect();
    docs.sort();
    let imgs: Vec<(i64, u64)> = rows.iter().filter(|r| r.status == 0 && r.role == 2).map(|r| (r.ts, r.id)).collect();
    docs.extend(imgs);
    docs.windows(2).any(|w| w[0] > w[1])
}

fn run_query(mem: &mut Memvid, q: &Q) -> Result<Vec<(u64, i64)>, String> {
    let tq = TimelineQuery { limit: q.limit.and_then(NonZeroU64::new), since: q.since, until: q.until, reverse: q.reverse, ..Default::default() };
    match catch_unwind(AssertUnwindSafe(|| mem.timeline(tq))) {
        Ok(Ok(v)) => Ok(v.into_iter().map(|e| (e.frame_id, e.timestamp)).collect()),
        Ok(Err(e)) => Err(format!("{}", e)),
        Err(_) => Err("panic".to_string()),
    }
}

/// the property itself, checked on the implementation's answer to `q`
fn oracle(rows: &[Row], q: &Q, res: &Result<Vec<(u64, i64)>, String>, unlimited: &Result<Vec<(u64, i64)>, String>,
          forward_unlimited: &Result<Vec<(u64, i64)>, String>) -> Option<String> {
    let out = match res { Ok(v) => v, Err(e) => return Some(format!("timeline-error: timeline({:?}) failed: {}", q, e)) };
    let inside = |ts: i64| q.since.map_or(true, |s| ts >= s) && q.until.map_or(true, |u| ts <= u);
    let by_id: HashMap<u64, &Row> = rows.iter().map(|r| (r.id, r)).collect();
    let mut seen = HashSet::new();
    for (id, ts) in out {
        match by_id.get(id) {
            None => return Some(format!("timeline-membership: timeline({:?}) returned frame {} which is not in the frame table", q, id)),
            Some(r) => {
                if !eligible(r) { return Some(format!("timeline-membership: timeline({:?}) returned frame {} (role {}, status {}) which is not an active document/image frame", q, id, r.role, r.status)); }
                if r.ts != *ts { return Some(format!("timeline-membership: timeline({:?}) reports timestamp {} for frame {} whose timestamp is {}", q, ts, id, r.ts)); }
                if !inside(*ts) { return Some(format!("timeline-bounds: timeline({:?}) returned frame {} with timestamp {} outside the inclusive bounds", q, id, ts)); }
            }
        }
        if !seen.insert(*id) { return Some(format!("timeline-membership: timeline({:?}) returned frame {} twice", q, id)); }
    }
    if q.limit.is_none() {
        for r in rows.iter().filter(|r| eligible(r) && inside(r.ts)) {
            if !seen.contains(&r.id) { return Some(format!("timeline-membership: timeline({:?}) misses active frame {} (role {}, timestamp {}) that lies inside the inclusive bounds", q, r.id, r.role, r.ts)); }
        }
    }
    // order
    let key = |e: &(u64, i64)| (e.1, e.0);
    let ordered = out.windows(2).all(|w| if q.reverse { key(&w[0]) >= key(&w[1]) } else { key(&w[0]) <= key(&w[1]) });
    if !ordered {
        let tag = if known_class(rows) { KNOWN_CLASS } else { "timeline-order" };
        return Some(format!("{}: timeline({:?}) is not in {} (timestamp, frame id) order: {:?}", tag, q, if q.reverse { "descending" } else { "ascending" }, out));
    }
    // limit = prefix of the unlimited result, of length min(k, n)
    if let Some(k) = q.limit {
        match unlimited {
            Ok(u) => {
                let want = (k.min(u.len() as u64)) as usize;
                if out.len() != want || out[..] != u[..want] { return Some(format!("timeline-limit-prefix: timeline({:?}) = {:?} is not the first {} entries of the unlimited result {:?}", q, out, want, u)); }
            }
            Err(e) => return Some(format!("timeline-error: unlimited variant of {:?} failed: {}", q, e)),
        }
    }
    // reverse = exact reversal
    if q.reverse && q.limit.is_none() {
        match forward_unlimited {
            Ok(f) => { let mut rf = f.clone(); rf.reverse(); if &rf != out { return Some(format!("timeline-reverse: timeline({:?}) = {:?} is not the reversal of the forward result {:?}", q, out, f)); } }
            Err(e) => return Some(format!("timeline-error: forward variant of {:?} failed: {}", q, e)),
        }
    }
    None
}

fn gen_queries(r: &mut Rng, rows: &[Row]) -> Vec<Q> {
    let el: Vec<&Row> = rows.iter().filter(|x| eligible(x)).collect();
    let n = el.len() as u64;
    let mut tss: Vec<i64> = rows.iter().map(|x| x.ts).collect();
    tss.sort(); tss.dedup();
    let pick_ts = |r: &mut Rng| -> i64 { if tss.is_empty() { r.below(10) as i64 - 5 } else { tss[r.below(tss.len() as u64) as usize] } };
    let near = |r: &mut Rng, t: i64| -> i64 { match r.below(3) { 0 => t, 1 => t.saturating_sub(1), _ => t.saturating_add(1) } };
    let mut qs = vec![
        Q { limit: None, since: None, until: None, reverse: false },
        Q { limit: None, since: None, until: None, reverse: true },
    ];
    // bounds at / just below / just above existing timestamps
    let t = pick_ts(r); qs.push(Q { limit: None, since: Some(t), until: None, reverse: r.chance(1, 3) });
    let t = pick_ts(r); qs.push(Q { limit: None, since: Some(t.saturating_sub(1)), until: None, reverse: false });
    let t = pick_ts(r); qs.push(Q { limit: None, since: Some(t.saturating_add(1)), until: None, reverse: r.chance(1, 3) });
    let t = pick_ts(r); qs.push(Q { limit: None, since: None, until: Some(t), reverse: r.chance(1, 3) });
    let t = pick_ts(r); qs.push(Q { limit: None, since: None, until: Some(near(r, t)), reverse: false });
    let t = pick_ts(r); qs.push(Q { limit: None, since: Some(t), until: Some(t), reverse: r.chance(1, 2) }); // a tie window
    let (a, b) = (pick_ts(r), pick_ts(r));
    qs.push(Q { limit: None, since: Some(near(r, a.min(b))), until: Some(near(r, a.max(b))), reverse: r.chance(1, 2) });
    if r.chance(1, 3) { let (a, b) = (pick_ts(r), pick_ts(r)); if a != b { qs.push(Q { limit: None, since: Some(a.max(b)), until: Some(a.min(b)), reverse: false }); } } // empty window
    // limits 1 .. n+1 and the largest
    qs.push(Q { limit: Some(1), since: None, until: None, reverse: r.chance(1, 2) });
    qs.push(Q { limit: Some(r.range(1, n.max(1))), since: None, until: None, reverse: r.chance(1, 2) });
    qs.push(Q { limit: Some(n.max(1)), since: None, until: None, reverse: r.chance(1, 2) });
    qs.push(Q { limit: Some(n + 1), since: None, until: None, reverse: r.chance(1, 2) });
    if n >= 2 { qs.push(Q { limit: Some(n - 1), since: None, until: None, reverse: r.chance(1, 2) }); }
    if r.chance(1, 3) { qs.push(Q { limit: Some(u64::MAX), since: None, until: None, reverse: r.chance(1, 2) }); }
    let t = pick_ts(r); qs.push(Q { limit: Some(r.range(1, n.max(1) + 1)), since: Some(near(r, t)), until: None, reverse: r.chance(1, 2) });
    let t = pick_ts(r); qs.push(Q { limit: Some(r.range(1, 3)), since: None, until: Some(near(r, t)), reverse: r.chance(1, 2) });
    qs
}

struct Hist {
    mem: Option<Memvid>,
    path: std::path::PathBuf,
    _dir: tempfile::TempDir,
    ops_terms: Vec<T>,
    engines: bool,
    tags: Vec<String>,
    dead: Option<String>,
}

impl Hist {
    fn new() -> Self {
        let dir = tempfile::tempdir().expect("tempdir");
        let path = dir.path().join("t.mv2");
        let mem = Memvid::create(&path).expect("create");
        let st = mem.stats().expect("stats");
        Hist { mem: Some(mem), path, _dir: dir, ops_terms: vec![], engines: st.lex_enabled || st.vec_enabled, tags: vec![], dead: None }
    }
    fn mem(&mut self) -> &mut Memvid { self.mem.as_mut().unwrap() }
    fn tag(&mut self, t: &str) { if !self.tags.iter().any(|x| x == t) { self.tags.push(t.to_string()); } }

    fn pending_zero(&mut self) -> bool { memvid_core::verif_hooks::wal_stats(self.mem()).1 == 0 }

    /// executes one op; pushes the model op only when the call was acknowledged
    fn step(&mut self, op: &HOp, serial: u64) -> Option<String> {
        let mut viol = None;
        match op {
            HOp::Put { ts, role, default_opts } => {
                let mut o = PutOptions::default();
                o.timestamp = Some(*ts);
                if !*default_opts { o.auto_tag = false; o.extract_dates = false; o.extract_triplets = false; o.instant_index = false; }
                let bytes = match role {
                    Role::Chunked => payload_bytes(&PayloadKind::Chunked, 2600 + (serial as usize % 7) * 500, 5000 + serial),
                    _ => format!("note {} about item {} filed under shelf {}", serial, serial * 7 % 13, serial % 5).into_bytes(),
                };
                let mut role_n = 0u128;
                if let Role::Image = role {
                    o.role = FrameRole::ExtractedImage; role_n = 2;
                    // parent: the most recent committed Document frame, if any
                    let n = self.mem().frame_count() as u64;
                    o.parent_id = (0..n).rev().find(|i| self.mem.as_ref().unwrap().frame_by_id(*i).map(|f| f.role == FrameRole::Document).unwrap_or(false));
                    self.tag("image");
                }
                let before = self.mem().next_frame_id();
                match self.mem().put_bytes_with_options(&bytes, o) {
                    Ok(_) => {
                        let nchunks = self.mem().next_frame_id() - before - 1;
                        if nchunks > 0 { self.tag("chunked"); }
                        self.ops_terms.push(T::C("TPut", vec![T::Z(*ts as i128), T::N(role_n), T::N(nchunks as u128)]));
                        if self.pending_zero() { self.ops_terms.push(T::C("TCommit", vec![])); self.tag("autocommit"); }
                    }
                    Err(e) => { viol = Some(format!("op-failed: put {:?} returned an error: {}", op, e)); }
                }
            }
            HOp::Update { target, ts, image, payload } => {
                let mut o = PutOptions::default();
                o.timestamp = *ts; o.auto_tag = false; o.extract_dates = false; o.extract_triplets = false; o.instant_index = false;
                if *image { o.role = FrameRole::ExtractedImage; }
                let bytes = if *payload { Some(format!("revised note {} for frame {}", serial, target).into_bytes()) } else { None };
                if self.mem().update_frame(*target, bytes, o, None).is_ok() {
                    self.ops_terms.push(T::C("TUpdate", vec![T::N(*target as u128), opt_z(*ts), T::N(if *image { 2 } else { 0 })]));
                    self.tag("update");
                    if self.pending_zero() { self.ops_terms.push(T::C("TCommit", vec![])); self.tag("autocommit"); }
                }
            }
            HOp::Delete { target } => {
                if self.mem().delete_frame(*target).is_ok() {
                    self.ops_terms.push(T::C("TDelete", vec![T::N(*target as u128)]));
                    self.tag("delete");
                    if self.pending_zero() { self.ops_terms.push(T::C("TCommit", vec![])); self.tag("autocommit"); }
                }
            }
            HOp::Commit => {
                match self.mem().commit() {
                    Ok(()) => self.ops_terms.push(T::C("TCommit", vec![])),
                    Err(e) => viol = Some(format!("op-failed: commit returned an error: {}", e)),
                }
            }
            HOp::Reopen => {
                drop(self.mem.take());
                match Memvid::open(&self.path) {
                    Ok(m) => { self.mem = Some(m); self.ops_terms.push(T::C("TReopen", vec![])); }
                    Err(e) => { self.dead = Some(format!("open-failed: the memory could not be opened again: {}", e)); }
                }
            }
            HOp::Doctor(bits) => {
                drop(self.mem.take());
                let opts = DoctorOptions { rebuild_time_index: bits & 1 != 0, rebuild_lex_index: bits & 2 != 0, rebuild_vec_index: bits & 4 != 0, vacuum: false, dry_run: false, quiet: true };
                let path = self.path.clone();
                match catch_unwind(|| Memvid::doctor(&path, opts)) {
                    Ok(Ok(rep)) => { let st = format!("{:?}", rep.status); if st == "Failed" { viol = Some("doctor-failed: doctor on a healthy closed memory reported Failed".to_string()); } }
                    Ok(Err(e)) => viol = Some(format!("doctor-failed: doctor on a healthy closed memory returned an error: {}", e)),
                    Err(_) => viol = Some("doctor-failed: doctor panicked".to_string()),
                }
                match Memvid::open(&self.path) {
                    Ok(m) => { self.mem = Some(m); self.ops_terms.push(T::C("TDoctor", vec![T::B(bits & 1 != 0)])); }
                    Err(e) => { self.dead = Some(format!("open-failed: the memory could not be opened after doctor: {}", e)); }
                }
            }
        }
        viol
    }

    /// queries the memory at this point and emits one `hist` and one `table` case
    fn snapshot(&mut self, r: &mut Rng, point: &str, pending_viol: &Option<String>, w: &mut dyn std::io::Write) {
        let t0 = std::time::Instant::now();
        self.snapshot_inner(r, point, pending_viol, w);
        if std::env::var("MV_DEBUG").is_ok() { eprintln!("   snapshot {} took {:?}", point, t0.elapsed()); }
    }
    fn snapshot_inner(&mut self, r: &mut Rng, point: &str, pending_viol: &Option<String>, w: &mut dyn std::io::Write) {
        let rows = table(self.mem.as_ref().unwrap());
        let st = self.mem().stats().expect("stats");
        let has_index = st.has_time_index;
        let qs = gen_queries(r, &rows);
        let mut cache: HashMap<Q, Result<Vec<(u64, i64)>, String>> = HashMap::new();
        let mut results = vec![];
        let mut viol = pending_viol.clone();
        for q in &qs {
            let res = cache.entry(q.clone()).or_insert_with_key(|k| run_query(self.mem.as_mut().unwrap(), k)).clone();
            let qu = Q { limit: None, ..q.clone() };
            let unl = cache.entry(qu.clone()).or_insert_with_key(|k| run_query(self.mem.as_mut().unwrap(), k)).clone();
            let qf = Q { limit: None, reverse: false, ..q.clone() };
            let fwd = cache.entry(qf.clone()).or_insert_with_key(|k| run_query(self.mem.as_mut().unwrap(), k)).clone();
            if let Some(v) = oracle(&rows, q, &res, &unl, &fwd) {
                // an unknown violation outranks a known one
                let is_known = v.starts_with(KNOWN_CLASS);
                match &viol { None => viol = Some(v), Some(old) if old.starts_with(KNOWN_CLASS) && !is_known => viol = Some(v), _ => {} }
            }
            results.push(res);
        }
        if !has_index && !rows.is_empty() {
            let v = format!("timeline-no-index: at {} the memory holds {} frames but no time index", point, rows.len());
            match &viol { None => viol = Some(v), Some(old) if old.starts_with(KNOWN_CLASS) => viol = Some(v), _ => {} }
        }
        let n_el = rows.iter().filter(|x| eligible(x)).count();
        let mut tss: Vec<i64> = rows.iter().filter(|x| eligible(x)).map(|x| x.ts).collect(); tss.sort();
        let ties = tss.windows(2).any(|w| w[0] == w[1]);
        let mut tags = self.tags.clone();
        tags.push(point.to_string());
        if ties { tags.push("ties".into()); }
        if known_class(&rows) { tags.push("in-known-class".into()); } else if rows.iter().any(|x| x.status == 0 && x.role == 2) { tags.push("images-in-order".into()); }
        if rows.iter().any(|x| x.ts == i64::MIN || x.ts == i64::MAX) { tags.push("extreme-ts".into()); }
        if rows.iter().any(|x| x.ts < 0) { tags.push("negative-ts".into()); }
        tags.push(format!("eligible{}", match n_el { 0 => "0", 1..=2 => "1-2", 3..=5 => "3-5", _ => "6+" }));
        let nontrivial = n_el >= 3 && has_index;
        let qterms = T::L(qs.iter().map(q_term).collect());
        let rterms = T::L(results.iter().map(res_term).collect());
        let rows_t = T::L(rows.iter().map(row_term).collect());

        let input = T::Tup(vec![T::B(self.engines), T::L(self.ops_terms.clone()), qterms.clone()]);
        let output = T::Tup(vec![rows_t.clone(), T::B(has_index || rows.is_empty()), rterms.clone()]);
        let key = blake3::hash(input.coq().as_bytes()).to_hex()[..16].to_string();
        emit(w, "hist", &Case { input, output, violation: viol.clone(), nontrivial, tags: tags.clone(), key });

        let input = T::Tup(vec![rows_t, T::B(has_index), qterms]);
        let key = blake3::hash(input.coq().as_bytes()).to_hex()[..16].to_string();
        emit(w, "table", &Case { input, output: rterms, violation: None, nontrivial, tags, key });
    }
}

fn ts_pool(r: &mut Rng, profile: u64) -> Vec<i64> {
    let base: [i64; 12] = [-1000, -7, -1, 0, 1, 2, 5, 50, 51, 100, 1_700_000_000, -1_700_000_000];
    let extreme: [i64; 6] = [i64::MIN, i64::MIN + 1, i64::MAX - 1, i64::MAX, 0, -1];
    let k = r.range(2, 5) as usize;
    let mut v = vec![];
    for _ in 0..k { v.push(if profile == 3 && r.chance(1, 2) { *r.pick(&extreme) } else { *r.pick(&base) }); }
    if profile == 3 { v.push(i64::MIN); v.push(i64::MAX); }
    v
}

/// one generated history; snapshots on the live handle, after reopen and after doctor
fn run_history(r: &mut Rng, profile: u64, fixed: Option<Vec<HOp>>, w: &mut dyn std::io::Write) {
    let mut h = Hist::new();
    h.tag(&format!("profile{}", profile));
    let pool = ts_pool(r, profile);
    let nops = r.range(8, 24) as usize;
    let mut serial = 0u64;
    let mut viol: Option<String> = None;
    let mut late_ts = *pool.iter().max().unwrap();   // profile 0: images get non-decreasing timestamps >= every document
    let plan_len = fixed.as_ref().map(|f| f.len()).unwrap_or(nops);
    for i in 0..plan_len {
        let n_committed = h.mem().frame_count() as u64;
        let op = if let Some(f) = &fixed { f[i].clone() } else {
            let c = r.below(100);
            if c < 58 || n_committed == 0 && c < 80 {
                let role = match profile {
                    2 => if r.chance(1, 6) { Role::Chunked } else { Role::Doc },
                    _ => match r.below(10) { 0..=4 => Role::Doc, 5 => Role::Chunked, _ => Role::Image },
                };
                let ts = match (&role, profile) {
                    (Role::Image, 0) => { if r.chance(1, 2) { late_ts = late_ts.saturating_add(r.below(3) as i64); } late_ts }
                    _ => *r.pick(&pool),
                };
                HOp::Put { ts, role, default_opts: r.chance(1, 14) }
            } else if c < 69 && n_committed > 0 {
                let target = if r.chance(1, 8) { n_committed + r.below(2) } else { r.below(n_committed) };
                let ts = if r.chance(1, 2) { Some(*r.pick(&pool)) } else { None };
                HOp::Update { target, ts, image: profile != 2 && profile != 0 && r.chance(1, 4), payload: r.chance(1, 2) }
            } else if c < 80 && n_committed > 0 {
                HOp::Delete { target: if r.chance(1, 8) { n_committed + r.below(2) } else { r.below(n_committed) } }
            } else if c < 91 { HOp::Commit } else if c < 96 { HOp::Reopen } else { HOp::Doctor(r.below(8) as u8) }
        };
        serial += 1;
        if std::env::var("MV_DEBUG").is_ok() { eprintln!("op {} {:?}", i, op); }
        let t0 = std::time::Instant::now();
        if let Some(v) = h.step(&op, serial) { viol.get_or_insert(v); }
        if std::env::var("MV_DEBUG").is_ok() { eprintln!("   took {:?}", t0.elapsed()); }
        if let Some(d) = h.dead.clone() {
            let input = T::Tup(vec![T::B(h.engines), T::L(h.ops_terms.clone()), T::L(vec![])]);
            let key = blake3::hash(input.coq().as_bytes()).to_hex()[..16].to_string();
            emit(w, "dead", &Case { input, output: T::L(vec![]), violation: Some(d), nontrivial: false, tags: h.tags.clone(), key });
            return;
        }
        // snapshot on the live handle at some commits (also with ops still pending)
        let live_point = matches!(op, HOp::Commit) && r.chance(1, 2) || fixed.is_none() && r.chance(1, 10);
        if live_point { h.snapshot(r, "live", &viol, w); }
        if matches!(op, HOp::Reopen) && r.chance(1, 2) { h.snapshot(r, "after-reopen", &viol, w); }
        if matches!(op, HOp::Doctor(_)) { h.snapshot(r, "after-doctor", &viol, w); }
    }
    // closing sequence: commit -> live, reopen, doctor
    for (op, point) in [(HOp::Commit, "live"), (HOp::Reopen, "after-reopen"), (HOp::Doctor(if fixed.is_some() { 1 } else { r.below(8) as u8 }), "after-doctor")] {
        if let Some(v) = h.step(&op, 0) { viol.get_or_insert(v); }
        if let Some(d) = h.dead.clone() {
            let input = T::Tup(vec![T::B(h.engines), T::L(h.ops_terms.clone()), T::L(vec![])]);
            let key = blake3::hash(input.coq().as_bytes()).to_hex()[..16].to_string();
            emit(w, "dead", &Case { input, output: T::L(vec![]), violation: Some(d), nontrivial: false, tags: h.tags.clone(), key });
            return;
        }
        h.snapshot(r, point, &viol, w);
    }
}

// ---------------------------------------------------------------- io::time_index
fn entries_term(v: &[(i64, u64)]) -> T { T::L(v.iter().map(|(t, i)| T::Tup(vec![T::Z(*t as i128), T::N(*i as u128)])).collect()) }

fn track_case(r: &mut Rng, w: &mut dyn std::io::Write) {
    use memvid_core::{time_index_append, time_index_read, TimeIndexEntry};
    use std::io::{Cursor, Write};
    let tpool: Vec<i64> = match r.below(4) {
        0 => vec![0, 1],
        1 => vec![-3, -2, -1, 0, 1, 2, 3],
        2 => vec![i64::MIN, i64::MIN + 1, -1, 0, 1, i64::MAX - 1, i64::MAX],
        _ => (0..6).map(|_| r.next() as i64).collect(),
    };
    let ipool: Vec<u64> = match r.below(3) { 0 => vec![0, 1, 2], 1 => vec![0, 1, 2, 3, 4, 5, 6, 7, u64::MAX - 1, u64::MAX], _ => (0..8).map(|_| r.below(40)).collect() };
    let n = match r.below(6) { 0 => 0, 1 => 1, 2 => 2, _ => r.range(3, 14) } as usize;
    let mut es: Vec<(i64, u64)> = (0..n).map(|_| (*r.pick(&tpool), *r.pick(&ipool))).collect();
    let sort_first = r.chance(1, 2);
    let mut tags = vec![if sort_first { "append+read".to_string() } else { "raw-read".to_string() }];
    if !sort_first {
        // mostly sorted raw tracks, with one adjacent swap / a duplicate / fully random
        match r.below(4) {
            0 => {}
            1 => { es.sort(); }
            2 => { es.sort(); if es.len() >= 2 { let k = r.below(es.len() as u64 - 1) as usize; es.swap(k, k + 1); } }
            _ => { es.sort(); if es.len() >= 1 { let k = r.below(es.len() as u64) as usize; let e = es[k]; es.insert(k, e); } }
        }
    }
    let pre = r.below(20) as usize;
    let mut cur = Cursor::new(vec![0xAAu8; pre]);
    cur.set_position(pre as u64);
    let (off, len) = if sort_first {
        let mut v: Vec<TimeIndexEntry> = es.iter().map(|(t, i)| TimeIndexEntry::new(*t, *i)).collect();
        let (o, l, _) = time_index_append(&mut cur, &mut v).expect("append_track");
        (o, l)
    } else {
        cur.write_all(&memvid_core::constants::TIME_INDEX_MAGIC).unwrap();
        cur.write_all(&(es.len() as u64).to_le_bytes()).unwrap();
        for (t, i) in &es { cur.write_all(&t.to_le_bytes()).unwrap(); cur.write_all(&i.to_le_bytes()).unwrap(); }
        (pre as u64, 12 + 16 * es.len() as u64)
    };
    let res = time_index_read(&mut cur, off, len).map(|v| v.iter().map(|e| (e.timestamp, e.frame_id)).collect::<Vec<_>>());
    let is_sorted = |v: &[(i64, u64)]| v.windows(2).all(|w| w[0] <= w[1]);
    let mut viol = None;
    match &res {
        Ok(v) => {
            if !is_sorted(v) { viol = Some(format!("track-order: read_track returned entries that are not in (timestamp, id) order: {:?}", v)); }
            let mut a = v.clone(); a.sort(); let mut b = es.clone(); b.sort();
            if a != b { viol = Some(format!("track-content: read_track returned {:?} for written entries {:?}", v, es)); }
            if !sort_first && v != &es { viol = Some("track-content: read_track changed the order of a sorted track".to_string()); }
            tags.push("accepted".into());
        }
        Err(e) => {
            if sort_first || is_sorted(&es) { viol = Some(format!("track-rejected: read_track rejected a sorted track: {}", e)); }
            tags.push("rejected".into());
        }
    }
    let out = match &res { Ok(v) => T::C("Ok", vec![entries_term(v)]), Err(_) => T::C("Err", vec![T::N(1)]) };
    let input = T::Tup(vec![T::B(sort_first), entries_term(&es)]);
    let key = blake3::hash(input.coq().as_bytes()).to_hex()[..16].to_string();
    emit(w, "track", &Case { input, output: out, violation: viol, nontrivial: es.len() >= 2, tags, key });
}

pub fn run(seed: u64, n: usize, w: &mut dyn std::io::Write) {
    let mut r = Rng::new(seed ^ 0xC15);
    // the recorded witness of F-C15-1 first: document (ts 100), commit, extracted image (ts 50,
    // parent 0), document (ts 10), commit
    run_history(&mut r, 1, Some(vec![
        HOp::Put { ts: 100, role: Role::Doc, default_opts: false }, HOp::Commit,
        HOp::Put { ts: 50, role: Role::Image, default_opts: false },
        HOp::Put { ts: 10, role: Role::Doc, default_opts: false }, HOp::Commit,
    ]), w);
    for i in 0..n {
        let profile = (i % 4) as u64;
        run_history(&mut r, profile, None, w);
        for _ in 0..12 { track_case(&mut r, w); }
    }
}
