//! Tiny term language printed as Coq syntax for the generated cases.v files.
#[derive(Clone, Debug)]
pub enum T {
    Z(i128),
    N(u128),
    Nat(u64),
    B(bool),
    L(Vec<T>),
    Tup(Vec<T>),
    H(Vec<u8>),
    S(String),
    O(Option<Box<T>>),
    C(&'static str, Vec<T>),
}

impl T {
    pub fn some(t: T) -> T { T::O(Some(Box::new(t))) }
    pub fn none() -> T { T::O(None) }
    pub fn coq(&self) -> String {
        match self {
            T::Z(z) => format!("({})%Z", z),
            T::N(n) => format!("{}%N", n),
            T::Nat(n) => format!("{}%nat", n),
            T::B(b) => (if *b { "true" } else { "false" }).to_string(),
            T::L(v) => {
                let parts: Vec<String> = v.iter().map(|t| t.coq()).collect();
                format!("[{}]", parts.join("; "))
            }
            T::Tup(v) => {
                let parts: Vec<String> = v.iter().map(|t| t.coq()).collect();
                format!("({})", parts.join(", "))
            }
            T::H(b) => {
                let mut s = String::with_capacity(b.len() * 2 + 8);
                s.push_str("(hex \"");
                for x in b { s.push_str(&format!("{:02x}", x)); }
                s.push_str("\")");
                s
            }
            T::S(s) => {
                // ASCII only; double quotes are doubled in Coq string literals
                let mut o = String::from("\"");
                for ch in s.chars() {
                    if ch == '"' { o.push_str("\"\""); } else { o.push(ch); }
                }
                o.push_str("\"%string");
                o
            }
            T::O(None) => "None".to_string(),
            T::O(Some(t)) => format!("(Some {})", t.coq()),
            T::C(name, args) => {
                if args.is_empty() { name.to_string() } else {
                    let parts: Vec<String> = args.iter().map(|t| t.coq()).collect();
                    format!("({} {})", name, parts.join(" "))
                }
            }
        }
    }
}

/// splitmix64: every random choice of the harness derives from one state.
pub struct Rng(pub u64);
impl Rng {
    pub fn new(seed: u64) -> Self { Rng(seed.wrapping_mul(0x9E3779B97F4A7C15) ^ 0xD1B54A32D192ED03) }
    pub fn next(&mut self) -> u64 {
        self.0 = self.0.wrapping_add(0x9E3779B97F4A7C15);
        let mut z = self.0;
        z = (z ^ (z >> 30)).wrapping_mul(0xBF58476D1CE4E5B9);
        z = (z ^ (z >> 27)).wrapping_mul(0x94D049BB133111EB);
        z ^ (z >> 31)
    }
    pub fn below(&mut self, n: u64) -> u64 { if n == 0 { 0 } else { self.next() % n } }
    pub fn range(&mut self, lo: u64, hi: u64) -> u64 { lo + self.below(hi - lo + 1) }
    pub fn chance(&mut self, num: u64, den: u64) -> bool { self.below(den) < num }
    pub fn pick<'a, A>(&mut self, v: &'a [A]) -> &'a A { &v[self.below(v.len() as u64) as usize] }
    pub fn bytes(&mut self, n: usize) -> Vec<u8> { (0..n).map(|_| self.next() as u8).collect() }
}

/// One generated case: input and implementation output as Coq terms, the verdict of the
/// property oracle evaluated on the implementation's output, and bookkeeping for evidence.
pub struct Case {
    pub input: T,
    pub output: T,
    pub violation: Option<String>,
    pub nontrivial: bool,
    pub tags: Vec<String>,
    pub key: String,
}

pub fn emit(w: &mut dyn std::io::Write, stream: &str, c: &Case) {
    let v = serde_json::json!({
        "stream": stream,
        "in": c.input.coq(),
        "out": c.output.coq(),
        "viol": c.violation,
        "nontrivial": c.nontrivial,
        "tags": c.tags,
        "key": c.key,
    });
    writeln!(w, "{}", v).unwrap();
}
