//! C09 lexical search recall: the sketch pre-filter (`find_sketch_candidates`, `score_entry`,
//! `find_candidates`, `QuerySketch::from_query`) and the recall of `Memvid::search` on real memories.
//!
//! Streams
//!   cands  : `Memvid::find_sketch_candidates` on a track built through the public API (entries of
//!            `generate_sketch` with arbitrary frame ids, optionally written + read back), arbitrary
//!            threshold / max_candidates / min_score; compared exactly with the Coq model (f32 score bits).
//!   recall : corpora of 1-200 short documents over a 2000-word vocabulary (every document draws its OWN
//!            words), planted words in k documents, binary and deleted frames in between, searched with and
//!            without `no_sketch`, before and after close + reopen (and after more puts).  The model gets the
//!            memory's sketch entries and predicts the sketch candidates, the class predicate of F-C09-1 and
//!            checks the returned frames against the engine oracle restricted to the candidate filter.
//!   page   : requests whose documents yield several snippets (F-C09-2): hit frames predicted by the page loop.
//!
//! Property oracle (implementation only): whenever the query word occurs as a whole word in the text of
//! k active frames and k <= top_k, every one of them must be among the hits' frames.  The engine hypothesis
//! of the Coq theorems is tested on every request: with `no_sketch` and top_k = 10000 all k must come back.
use crate::term::*;
use memvid_core::types::{AclEnforcementMode, SearchRequest};
use memvid_core::{generate_sketch, hash_token, read_sketch_track, tokenize_for_sketch, write_sketch_track};
use memvid_core::{Memvid, PutOptions, QuerySketch, SketchEntry, SketchSearchOptions, SketchTrack, SketchVariant};
use std::collections::BTreeSet;

const SYL: [&str; 20] = ["ba", "co", "du", "fe", "gi", "ha", "jo", "ku", "le", "mi", "na", "po", "ru", "ta", "vo", "wi", "xa", "zo", "be", "lu"];

/// 7-letter pseudo-words (three syllables + 'k'): same length, so none is a substring of another
fn word(k: u64) -> String {
    let a = (k % 20) as usize; let b = ((k / 20) % 20) as usize; let c = ((k / 400) % 20) as usize;
    format!("{}{}{}k", SYL[c], SYL[b], SYL[a])
}
const VOCAB: u64 = 2000;      // document words: codes 0..2000
const PLANT0: u64 = 3000;     // planted words: codes 3000..

const TS_BASE: i64 = 1_700_000_000;

fn request(q: &str, top_k: usize, no_sketch: bool) -> SearchRequest {
    SearchRequest { query: q.to_string(), top_k, snippet_chars: 120, uri: None, scope: None, cursor: None,
        as_of_frame: None, as_of_ts: None, no_sketch, acl_context: None, acl_enforcement_mode: AclEnforcementMode::Audit }
}

fn opts(i: usize, ts: i64) -> PutOptions {
    let mut o = PutOptions::default();
    o.timestamp = Some(ts); o.uri = Some(format!("mv2://c09/{}", i));
    o.auto_tag = false; o.extract_dates = false; o.extract_triplets = false; o.instant_index = false;
    o
}

fn entry_term(e: &SketchEntry) -> T {
    T::Tup(vec![T::N(e.frame_id as u128), T::N(e.simhash as u128), T::H(e.term_filter.clone()),
        T::L(e.top_terms.iter().map(|t| T::N(*t as u128)).collect()), T::N(e.length_hint as u128)])
}
fn ids_term<'a, I: IntoIterator<Item = &'a u64>>(v: I) -> T { T::L(v.into_iter().map(|x| T::N(*x as u128)).collect()) }
fn query_hashes(q: &str) -> T { T::L(tokenize_for_sketch(q).iter().map(|t| T::N(hash_token(t) as u128)).collect()) }

// ------------------------------------------------------------------------------------------ stream cands
fn unit_text(r: &mut Rng) -> String {
    let nw = match r.below(10) { 0 => 0, 1 => 1, 2..=7 => r.range(2, 14), 8 => r.range(40, 70), _ => r.range(100, 130) };
    let mut ws: Vec<String> = (0..nw).map(|_| word(r.below(30))).collect();
    if r.chance(1, 3) && !ws.is_empty() { let w = ws[0].clone(); for _ in 0..r.range(1, 4) { ws.push(w.clone()); } }
    if r.chance(1, 8) { ws.push("x".into()); ws.push("Uni9".into()); }
    ws.join(if r.chance(1, 6) { ", " } else { " " })
}

fn run_cands(r: &mut Rng, n: usize, w: &mut dyn std::io::Write) {
    let dir = tempfile::tempdir().expect("tempdir");
    let mut mem = Memvid::create(dir.path().join("c09u.mv2")).expect("create");
    for ci in 0..n {
        let variant = match r.below(10) { 0 | 1 => SketchVariant::Medium, 2 => SketchVariant::Large, _ => SketchVariant::Small };
        let m = match r.below(8) { 0 => 0, 1 => 1, _ => r.range(2, 10) } as usize;
        let mut track = SketchTrack::new(variant);
        let dense = r.chance(1, 3);
        let mut used = BTreeSet::new();
        let mut texts: Vec<String> = vec![];
        for i in 0..m {
            let id = if dense { i as u64 } else { loop { let x = r.below(40); if used.insert(x) { break x; } } };
            let text = if i > 0 && r.chance(1, 5) { texts[r.below(i as u64) as usize].clone() } else { unit_text(r) };
            track.insert(generate_sketch(id, &text, variant, None));
            texts.push(text);
        }
        let mut tags = vec![format!("variant:{:?}", variant), format!("entries:{}", match m { 0 => "0", 1 => "1", _ => "2-10" }), (if dense { "ids:dense" } else { "ids:sparse" }).to_string()];
        if r.chance(1, 4) {
            let mut buf = std::io::Cursor::new(Vec::new());
            let (off, len, _) = write_sketch_track(&mut buf, &track).expect("write");
            track = read_sketch_track(&mut buf, off, len).expect("read");
            tags.push("reloaded".into());
        }
        let query = match r.below(10) {
            0 => "!! ?".to_string(),
            1 => String::new(),
            2..=5 if !texts.is_empty() => {
                let t = r.pick(&texts).clone();
                let ws: Vec<&str> = t.split(|c: char| !c.is_alphanumeric()).filter(|s| s.len() >= 2).collect();
                if ws.is_empty() { word(r.below(30)) } else { let a = *r.pick(&ws); if r.chance(1, 3) { format!("{} {}", a, r.pick(&ws)) } else { a.to_string() } }
            }
            6 => (0..r.range(10, 25)).map(|_| word(r.below(30))).collect::<Vec<_>>().join(" "),
            _ => (0..r.range(1, 3)).map(|_| word(r.below(34))).collect::<Vec<_>>().join(" "),
        };
        let qs = QuerySketch::from_query(&query, variant);
        let entries: Vec<SketchEntry> = track.iter().cloned().collect();
        let hams: Vec<u32> = entries.iter().map(|e| e.hamming_distance(qs.simhash)).collect();
        let thr = match r.below(8) {
            0 | 1 | 2 if !hams.is_empty() => { let h = *r.pick(&hams); match r.below(3) { 0 => h, 1 => h.saturating_sub(1), _ => h + 1 } }
            3 => 0, 4 => 10, 5 => 64, _ => 32,
        };
        let maxc = match r.below(8) { 0 => 0usize, 1 => 1, 2 => 2, 3 => 3, 4 => m, _ => 500 };
        let scores: Vec<f32> = entries.iter().filter_map(|e| qs.score_entry(e, 64)).collect();
        let min_score = match r.below(6) { 0 | 1 if !scores.is_empty() => { let s = *r.pick(&scores); if r.chance(1, 2) { s } else { f32::from_bits(s.to_bits() + 1) } } 2 => 0.3, _ => 0.0 };
        *mem.sketches_mut() = track;
        let got = mem.find_sketch_candidates(&query, Some(SketchSearchOptions { hamming_threshold: thr, max_candidates: maxc, min_score }));
        let passing = entries.iter().filter(|e| qs.score_entry(e, thr).is_some()).count();
        tags.push(format!("thr:{}", match thr { 0 => "0", 32 => "32", 64 => "64", 10 => "10", _ => "at-an-entry" }));
        tags.push((if maxc < passing { "max_candidates:cuts" } else { "max_candidates:no-cut" }).to_string());
        tags.push(format!("min_score:{}", if min_score == 0.0 { "0" } else { "positive" }));
        tags.push(format!("candidates:{}", match got.len() { 0 => "0", 1 => "1", _ => "2+" }));
        let vn = match variant { SketchVariant::Small => 0u128, SketchVariant::Medium => 1, SketchVariant::Large => 2 };
        let input = T::Tup(vec![T::N(vn), T::L(entries.iter().map(entry_term).collect()), query_hashes(&query), T::N(thr as u128), T::N(maxc as u128), T::N(min_score.to_bits() as u128)]);
        let output = T::L(got.iter().map(|c| T::Tup(vec![T::N(c.frame_id as u128), T::N(c.score.to_bits() as u128), T::N(c.hamming_distance as u128), T::N(c.matching_top_terms as u128)])).collect());
        let key = blake3::hash(format!("{:?}|{}|{}|{}|{}", texts, query, thr, maxc, min_score.to_bits()).as_bytes()).to_hex()[..16].to_string();
        emit(w, "cands", &Case { input, output, violation: None, nontrivial: !entries.is_empty() && qs.token_count > 0, tags, key: format!("u{}-{}", ci, key) });
    }
}

// ------------------------------------------------------------------------------------------ corpora
#[derive(Clone)]
struct Doc { words: Vec<u64>, binary: bool, deleted: bool, long: Option<u64>, text: String }

struct Corpus { _dir: tempfile::TempDir, path: std::path::PathBuf, mem: Option<Memvid>, docs: Vec<Doc>, planted: Vec<u64>, tags: Vec<String> }

fn doc_text(r: &mut Rng, d: &Doc) -> String {
    if let Some(pw) = d.long {
        // the planted word twice, about 200 bytes of dotted filler apart: two snippet slices
        let mut s = String::new();
        let n = 200 + r.below(80) as usize;
        while s.len() < n { s.push_str(&word(r.below(VOCAB))); if r.chance(1, 5) { s.push('.'); } s.push(' '); }
        return format!("{} {}. {} {}", word(pw), s, word(pw), d.words.iter().filter(|w| **w != pw).map(|w| word(*w)).collect::<Vec<_>>().join(" "));
    }
    d.words.iter().map(|w| word(*w)).collect::<Vec<_>>().join(" ")
}

fn put_doc(mem: &mut Memvid, i: usize, d: &Doc, ts: i64) {
    if d.binary {
        let mut v = vec![0xFFu8, 0xFE]; v.extend((0..20u8).map(|x| x.wrapping_mul(37) ^ (i as u8)));
        mem.put_bytes_with_options(&v, opts(i, ts)).expect("put bin");
    } else {
        mem.put_bytes_with_options(d.text.as_bytes(), opts(i, ts)).expect("put");
    }
}

fn build_corpus(r: &mut Rng, ci: usize) -> Corpus {
    let n = match ci % 11 { 0 => 1, 1 => r.range(2, 5), 2 | 3 | 4 | 5 => r.range(6, 30), 6 | 7 | 8 => r.range(31, 80), 9 => r.range(100, 140), _ => r.range(150, 200) } as usize;
    let mut tags = vec![format!("docs:{}", match n { 1 => "1", 2..=5 => "2-5", 6..=30 => "6-30", 31..=80 => "31-80", _ => "100-200" })];
    let maxw = *r.pick(&[3u64, 6, 12, 12, 25]);
    let mut docs: Vec<Doc> = (0..n).map(|i| {
        let binary = n > 1 && (r.chance(1, 10) || (i == 0 && r.chance(1, 3)));
        let nw = r.range(1, maxw);
        let words = (0..nw).map(|_| r.below(VOCAB)).collect();
        Doc { words, binary, deleted: false, long: None, text: String::new() }
    }).collect();
    if docs.iter().all(|d| d.binary) { docs[0].binary = false; }
    let text_ids: Vec<usize> = (0..n).filter(|i| !docs[*i].binary).collect();
    // planted words, each in k documents
    let np = if n == 1 { 1 } else { r.range(3, 8) } as usize;
    let mut planted = vec![];
    for j in 0..np {
        let pw = PLANT0 + j as u64;
        let k = (*r.pick(&[1u64, 1, 2, 2, 3, 5, 8, 13, 20, 30])).min(text_ids.len() as u64) as usize;
        let mut pool = text_ids.clone();
        for _ in 0..k { let x = r.below(pool.len() as u64) as usize; let d = pool.swap_remove(x); let pos = r.below(docs[d].words.len() as u64 + 1) as usize; docs[d].words.insert(pos, pw); }
        planted.push(pw);
    }
    // multi-snippet documents (newest timestamps: they rank first)
    if n >= 2 && r.chance(1, 3) {
        tags.push("multi-snippet-docs".into());
        for _ in 0..r.range(1, 2) { let d = *r.pick(&text_ids); let pw = *r.pick(&planted); if docs[d].long.is_none() { docs[d].long = Some(pw); if !docs[d].words.contains(&pw) { docs[d].words.push(pw); } } }
    }
    for i in 0..n { let d = docs[i].clone(); docs[i].text = doc_text(r, &d); }
    let dir = tempfile::tempdir().expect("tempdir");
    let path = dir.path().join("c09.mv2");
    let mut mem = Memvid::create(&path).expect("create");
    let commit_mid = r.chance(1, 3);
    for i in 0..n {
        let ts = TS_BASE + i as i64 + if docs[i].long.is_some() { 5 * 86_400 } else { 0 };
        put_doc(&mut mem, i, &docs[i], ts);
        if commit_mid && i == n / 2 { mem.commit().expect("commit"); }
    }
    mem.commit().expect("commit");
    if n >= 3 && r.chance(1, 2) {
        tags.push("deletes".into());
        for j in 0..r.range(1, (n as u64 / 5).max(1)) {
            let v = if j == 0 && r.chance(1, 2) { 0 } else { r.below(n as u64) as usize };
            if !docs[v].deleted && mem.delete_frame(v as u64).is_ok() { docs[v].deleted = true; }
        }
        mem.commit().expect("commit");
    }
    if docs.iter().any(|d| d.binary) { tags.push("binary-frames".into()); }
    Corpus { _dir: dir, path, mem: Some(mem), docs, planted, tags }
}

fn matching(docs: &[Doc], w: u64) -> BTreeSet<u64> {
    (0..docs.len()).filter(|i| !docs[*i].binary && !docs[*i].deleted && docs[*i].words.contains(&w)).map(|i| i as u64).collect()
}
fn containing_any_status(docs: &[Doc], w: u64) -> usize { docs.iter().filter(|d| !d.binary && d.words.contains(&w)).count() }

struct Resp { frames: Vec<u64>, complete: bool }
fn do_search(mem: &mut Memvid, q: &str, top_k: usize, no_sketch: bool) -> Result<Resp, String> {
    match std::panic::catch_unwind(std::panic::AssertUnwindSafe(|| mem.search(request(q, top_k, no_sketch)))) {
        Ok(Ok(resp)) => Ok(Resp { frames: resp.hits.iter().map(|h| h.frame_id).collect(), complete: resp.next_cursor.is_none() }),
        Ok(Err(e)) => Err(format!("error: {}", e)),
        Err(_) => Err("panic".into()),
    }
}

struct QueryRec { input: T, output: T, failed: bool, tags: Vec<String>, viol: Option<String>, nontrivial: bool, page: Option<(T, T)> }

/// one request on one state of the memory
fn run_query(mem: &mut Memvid, docs: &[Doc], entries: &[SketchEntry], pre_ids: &[u64], w: u64, top_k: usize, no_sketch: bool, state: &str) -> QueryRec {
    let q = word(w);
    let m: BTreeSet<u64> = matching(docs, w);
    let k = m.len();
    let n_any = containing_any_status(docs, w);
    let big = do_search(mem, &q, 10_000, true);
    let got = do_search(mem, &q, top_k, no_sketch);
    let (big, got) = match (big, got) {
        (Ok(b), Ok(g)) => (b, g),
        (b, g) => {
            return QueryRec { input: T::N(0), output: T::N(0), failed: true, tags: vec!["error".into()],
                viol: Some(format!("search-failed: query {:?} top_k {} no_sketch {}: {:?} / {:?}", q, top_k, no_sketch, b.err(), g.err())), nontrivial: false, page: None };
        }
    };
    let mut u: Vec<u64> = vec![];
    for f in &big.frames { if !u.contains(f) { u.push(*f); } }
    let cands: BTreeSet<u64> = mem.find_sketch_candidates(&q, Some(SketchSearchOptions { hamming_threshold: 32, max_candidates: (top_k * 10).max(500), min_score: 0.0 })).iter().map(|c| c.frame_id).collect();
    let got_set: BTreeSet<u64> = got.frames.iter().cloned().collect();
    let sketch_on = !no_sketch && !entries.is_empty();
    let filtered = sketch_on && !cands.is_empty();
    let class_sketch = filtered && m.iter().any(|f| !cands.contains(f));
    let mut tags = vec![format!("state:{}", state), (if no_sketch { "no_sketch" } else { "sketch-on" }).to_string(),
        format!("k:{}", match k { 0 => "0", 1 => "1", 2..=5 => "2-5", 6..=20 => "6-20", _ => "21+" }),
        (if k <= top_k { "k<=top_k" } else { "k>top_k" }).to_string()];
    if filtered { tags.push("sketch-filter-applied".into()); } else if sketch_on { tags.push("sketch-no-candidates".into()); }
    if class_sketch { tags.push("class:sketch-drops-a-matching-frame".into()); }
    // ---- property oracle
    let mut viol = None;
    let engine_lost: Vec<u64> = m.iter().filter(|f| !u.contains(f)).cloned().collect();
    if !engine_lost.is_empty() {
        viol = Some(format!("engine-recall-miss: query {:?} with no_sketch and top_k 10000 does not return frames {:?} whose text contains the word (k = {})", q, engine_lost, k));
    } else if k >= 1 && k <= top_k {
        let lost: Vec<u64> = m.iter().filter(|f| !got_set.contains(f)).cloned().collect();
        if !lost.is_empty() {
            let by_sketch: Vec<u64> = lost.iter().filter(|f| filtered && !cands.contains(f)).cloned().collect();
            let cls = if !by_sketch.is_empty() {
                // renumbered: the entry that described the lost frame before the reopen carries another number now and is a candidate under it
                let renum = by_sketch.iter().any(|f| pre_ids.iter().position(|x| x == f).map_or(false, |pos| entries.get(pos).map_or(false, |e| e.frame_id != *f && cands.contains(&e.frame_id))));
                if renum { "sketch-renumbered-after-reopen" } else { "sketch-false-negative" }
            } else if !got.complete { "snippets-exceed-top-k" } else { "recall-miss" };
            let detail = if cls.starts_with("sketch") {
                let qs = QuerySketch::from_query(&q, SketchVariant::Small);
                let hd: Vec<(u64, u32)> = by_sketch.iter().filter_map(|f| entries.iter().find(|e| e.frame_id == *f).map(|e| (*f, e.hamming_distance(qs.simhash)))).collect();
                format!("; sketch candidates {} of {} entries, (lost frame, Hamming distance of its entry to the query sketch) {:?}", cands.len(), entries.len(), hd)
            } else { format!("; hits' frames {:?}", got.frames) };
            viol = Some(format!("{}: query {:?} occurs in {} active frames {:?}, top_k {} no_sketch {} ({}): frames {:?} are not among the hits{}", cls, q, k, m.iter().take(12).collect::<Vec<_>>(), top_k, no_sketch, state, lost, detail));
            tags.push(format!("lost:{}", cls));
        }
    }
    // ---- page stream: documents with several snippets, evaluated order observed with top_k = 10000
    let mut order: Vec<(u64, u64)> = vec![];
    for f in &big.frames { match order.last_mut() { Some((g, c)) if g == f => *c += 1, _ => order.push((*f, 1)) } }
    let multi = order.iter().any(|x| x.1 > 1);
    let page = if multi && no_sketch && n_any <= 20 && big.complete {
        Some((T::Tup(vec![T::L(order.iter().map(|(f, c)| T::Tup(vec![T::N(*f as u128), T::N(*c as u128)])).collect()), T::N(top_k as u128)]), ids_term(&got.frames)))
    } else { None };
    if multi { tags.push("multi-snippet".into()); }
    let input = T::Tup(vec![query_hashes(&q), T::N(top_k as u128), T::B(no_sketch), ids_term(&m), ids_term(&u), T::N(n_any as u128), ids_term(&got.frames), T::B(got.complete)]);
    let output = T::Tup(vec![if sketch_on { ids_term(&cands) } else { T::L(vec![]) }, T::B(class_sketch), T::B(true)]);
    QueryRec { input, output, failed: false, tags, viol, nontrivial: k >= 1 && k <= top_k && filtered, page }
}

fn flush(batch: &mut Vec<QueryRec>, entries_term: &T, base_tags: &[String], w: &mut dyn std::io::Write, key: String) {
    if batch.is_empty() { return; }
    let mut tags: Vec<String> = base_tags.to_vec();
    for q in batch.iter() { for t in &q.tags { if !tags.contains(t) { tags.push(t.clone()); } } }
    // one violation text per case: a class other than the two recorded ones is never masked by them
    let recorded = |v: &String| v.starts_with("sketch-false-negative:") || v.starts_with("snippets-exceed-top-k:");
    let viol = batch.iter().filter_map(|q| q.viol.clone()).find(|v| !recorded(v)).or_else(|| batch.iter().find_map(|q| q.viol.clone()));
    let nontrivial = batch.iter().any(|q| q.nontrivial);
    let ins: Vec<T> = batch.iter().map(|q| q.input.clone()).collect();
    let outs: Vec<T> = batch.iter().map(|q| q.output.clone()).collect();
    emit(w, "recall", &Case { input: T::Tup(vec![entries_term.clone(), T::L(ins)]), output: T::L(outs), violation: viol, nontrivial, tags, key });
    batch.clear();
}

/// all requests on one state of the memory; returns the sketch entry ids in track order
fn run_state(r: &mut Rng, c: &mut Corpus, pre_ids: &[u64], state: &str, ci: usize, w: &mut dyn std::io::Write, extra_words: &[u64]) -> Vec<u64> {
    let mut mem = c.mem.take().unwrap();
    let entries: Vec<SketchEntry> = mem.sketches().iter().cloned().collect();
    let ids: Vec<u64> = entries.iter().map(|e| e.frame_id).collect();
    let dense = ids.iter().enumerate().all(|(i, x)| *x == i as u64);
    assert_eq!(mem.frame_count(), c.docs.len(), "generator bookkeeping: frame i is document i");
    let mut words: Vec<u64> = c.planted.clone();
    words.extend_from_slice(extra_words);
    // a few ordinary vocabulary words (k = 1 mostly) and an absent word
    let text_docs: Vec<usize> = (0..c.docs.len()).filter(|i| !c.docs[*i].binary).collect();
    for _ in 0..(if c.docs.len() <= 5 { 3 } else { 8 }) {
        let d = *r.pick(&text_docs);
        let ws: Vec<u64> = c.docs[d].words.iter().filter(|x| **x < VOCAB).cloned().collect();
        if !ws.is_empty() { words.push(*r.pick(&ws)); }
    }
    words.push(VOCAB + 77);
    let entries_term = T::L(entries.iter().map(entry_term).collect());
    let mut base_tags = c.tags.clone();
    base_tags.push((if dense { "sketch-ids:dense" } else { "sketch-ids:NOT-dense" }).to_string());
    let mut batch: Vec<QueryRec> = vec![];
    let mut seq = 0usize;
    let mut singles: std::collections::BTreeMap<String, usize> = Default::default();
    for wd in words {
        let k = matching(&c.docs, wd).len();
        let mut tks: Vec<usize> = vec![k.max(1)];
        tks.push(match r.below(6) { 0 => k + 1, 1 => 10, 2 => 50, 3 => 1000, 4 => k.saturating_sub(1).max(1), _ => (k + r.below(4) as usize).max(1) });
        if c.docs.iter().any(|d| d.long == Some(wd)) { tks.push(2); tks.push(3); }
        tks.sort(); tks.dedup();
        for top_k in tks { for no_sketch in [false, true] {
            let q = run_query(&mut mem, &c.docs, &entries, pre_ids, wd, top_k, no_sketch, state);
            if let Some((i, o)) = &q.page {
                emit(w, "page", &Case { input: i.clone(), output: o.clone(), violation: None, nontrivial: true, tags: vec![format!("state:{}", state), format!("top_k:{}", top_k.min(4))], key: format!("p{}-{}-{}-{}", ci, state, wd, top_k) });
            }
            if q.failed {
                emit(w, "failed", &Case { input: T::N(0), output: T::N(0), violation: q.viol.clone(), nontrivial: false, tags: q.tags.clone(), key: format!("f{}-{}-{}-{}", ci, state, wd, top_k) });
                continue;
            }
            seq += 1;
            // the first two violating requests of each class get a case of their own (short replay), the others ride in the batches
            let cls = q.viol.as_ref().map(|v| v.split(':').next().unwrap_or("").to_string());
            let own = match &cls { Some(c) => { let k = singles.entry(c.clone()).or_insert(0usize); *k += 1; *k <= 2 } None => false };
            if own { let mut one = vec![q]; flush(&mut one, &entries_term, &base_tags, w, format!("c{}-{}-{}", ci, state, seq)); }
            else { batch.push(q); if batch.len() >= 12 { flush(&mut batch, &entries_term, &base_tags, w, format!("c{}-{}-{}", ci, state, seq)); } }
        } }
    }
    flush(&mut batch, &entries_term, &base_tags, w, format!("c{}-{}-{}", ci, state, seq + 1));
    c.mem = Some(mem);
    ids
}

fn run_corpus(r: &mut Rng, mut c: Corpus, ci: usize, w: &mut dyn std::io::Write) {
    let pre = run_state(r, &mut c, &[], "open", ci, w, &[]);
    // close + reopen: the sketch track is read back from the file
    drop(c.mem.take());
    c.mem = Some(Memvid::open(&c.path).expect("reopen"));
    run_state(r, &mut c, &pre, "reopened", ci, w, &[]);
    if r.chance(1, 3) {
        // more documents after the reopen (old entries read back from disk, new ones fresh), commit
        let n0 = c.docs.len();
        let extra = PLANT0 + 500;
        for j in 0..r.range(1, 4) as usize {
            let mut words: Vec<u64> = (0..r.range(1, 8)).map(|_| r.below(VOCAB)).collect();
            if j < 2 { words.push(extra); }
            if r.chance(1, 2) && !c.planted.is_empty() { words.push(*r.pick(&c.planted)); }
            let mut d = Doc { words, binary: false, deleted: false, long: None, text: String::new() };
            d.text = doc_text(r, &d);
            put_doc(c.mem.as_mut().unwrap(), n0 + j, &d, TS_BASE + (n0 + j) as i64);
            c.docs.push(d);
        }
        c.mem.as_mut().unwrap().commit().expect("commit");
        let mut ids = pre.clone(); ids.extend((n0..c.docs.len()).map(|x| x as u64));
        run_state(r, &mut c, &ids, "reopened+puts", ci, w, &[extra]);
    }
}

fn unword(s: &str) -> Option<u64> {
    let b = s.as_bytes(); if b.len() != 7 || b[6] != b'k' { return None; }
    let f = |x: &[u8]| SYL.iter().position(|y| y.as_bytes() == x).map(|p| p as u64);
    Some(f(&b[0..2])? * 400 + f(&b[2..4])? * 20 + f(&b[4..6])?)
}

// The recorded witnesses of F-C09-1 / F-C09-2 (KNOWN_FINDINGS.json), re-run first on every check.
// WITNESS_SKETCH: found by the probe (MV_C09_PROBE): three short documents; the default search for
// WITNESS_WORD loses its frame, the same search with no_sketch finds it.
const WITNESS_WORD: &str = "fedubak";
const WITNESS_SKETCH: &[&str] = &["gibafek felukuk felucok fexajok", "bavotak gixaruk fedubak", "cotatak banabek fewipok gimihak"];
// two snippets in the newer document 0, one in document 1: top_k = 2 returns frame 0 twice
const WITNESS_SNIPPET_WORD: &str = "zozozok";
const WITNESS_SNIPPETS: &[&str] = &[
    "zozozok babacok baducok. bafecok bagicok bahacok bajocok. bakucok balecok bamicok banacok bapocok. barucok batacok bavocok bawicok baxacok. bazocok babecok balucok cobabak cobacok. codubak cofebak cogibak cohabak. cojobak cokubak colebak comibak. zozozok conabak",
    "zozozok",
];

fn witness_corpus(texts: &[&str], long_word: Option<&str>, planted: &str, tag: &str) -> Corpus {
    let docs: Vec<Doc> = texts.iter().enumerate().map(|(i, t)| Doc {
        words: t.split(|c: char| !c.is_alphanumeric()).filter_map(unword).collect(), binary: false, deleted: false,
        long: if i == 0 { long_word.and_then(unword) } else { None }, text: t.to_string() }).collect();
    let dir = tempfile::tempdir().expect("tempdir");
    let path = dir.path().join("c09w.mv2");
    let mut mem = Memvid::create(&path).expect("create");
    for (i, d) in docs.iter().enumerate() { put_doc(&mut mem, i, d, TS_BASE + i as i64 + if d.long.is_some() { 5 * 86_400 } else { 0 }); }
    mem.commit().expect("commit");
    Corpus { _dir: dir, path, mem: Some(mem), docs, planted: vec![unword(planted).expect("witness word")], tags: vec![tag.to_string()] }
}

fn probe() {
    // (1) pure sketches: a short document containing the query word whose entry fails the Hamming test,
    //     and a short document without it whose entry passes
    let mut best: Option<(usize, String, String, u32)> = None;
    for n in 0..40000u64 {
        let nw = 5 + (n % 6) as usize;
        let q = word(n % 7919);
        let mut ws: Vec<String> = (0..nw).map(|j| word((n * 31 + j as u64 * 97 + 11) % 8000)).collect();
        ws[(n % nw as u64) as usize] = q.clone();
        let text = ws.join(" ");
        let e = generate_sketch(0, &text, SketchVariant::Small, None);
        let qs = QuerySketch::from_query(&q, SketchVariant::Small);
        let h = e.hamming_distance(qs.simhash);
        if h > 32 && best.as_ref().map_or(true, |b| nw < b.0) { best = Some((nw, q.clone(), text.clone(), h)); if nw == 5 { break; } }
    }
    let (_, q, text, h) = best.expect("no witness");
    let qs = QuerySketch::from_query(&q, SketchVariant::Small);
    let e = generate_sketch(0, &text, SketchVariant::Small, None);
    eprintln!("PURE witness: query {:?} doc {:?} hamming {}", q, text, h);
    eprintln!("  query: hashes {} ; sketch simhash {} filter {} top {:?} count {}", query_hashes(&q).coq(), qs.simhash, T::H(qs.term_filter.clone()).coq(), qs.top_terms, qs.token_count);
    eprintln!("  doc entry: {}  score {:?}", entry_term(&e).coq(), qs.score_entry(&e, 32));
    for n in 0..2000u64 {
        let t2 = (0..3).map(|j| word((n * 13 + j * 7 + 5000) % 8000)).collect::<Vec<_>>().join(" ");
        let e2 = generate_sketch(1, &t2, SketchVariant::Small, None);
        if let Some(s) = qs.score_entry(&e2, 32) { if !t2.contains(&q) {
            eprintln!("  other doc {:?}: {} hamming {} score bits {}", t2, entry_term(&e2).coq(), e2.hamming_distance(qs.simhash), s.to_bits());
            break; } }
    }
    // (2) a real memory: three short documents, first word that the default search loses
    for seed in 0..400u64 {
        let mut r = Rng::new(seed ^ 0x77);
        let texts: Vec<String> = (0..3).map(|_| (0..r.range(2, 4)).map(|_| word(r.below(VOCAB))).collect::<Vec<_>>().join(" ")).collect();
        let dir = tempfile::tempdir().unwrap();
        let mut mem = Memvid::create(dir.path().join("w.mv2")).unwrap();
        for (i, t) in texts.iter().enumerate() { mem.put_bytes_with_options(t.as_bytes(), opts(i, TS_BASE + i as i64)).unwrap(); }
        mem.commit().unwrap();
        let mut found = false;
        for (i, t) in texts.iter().enumerate() { for wd in t.split(' ') {
            let got = do_search(&mut mem, wd, 10, false).unwrap();
            let ns = do_search(&mut mem, wd, 10, true).unwrap();
            if !got.frames.contains(&(i as u64)) && ns.frames.contains(&(i as u64)) && !found {
                found = true;
                let qs = QuerySketch::from_query(wd, SketchVariant::Small);
                eprintln!("MEMORY witness (seed {}): texts {:?}; search {:?} top_k 10 -> {:?}, with no_sketch -> {:?}", seed, texts, wd, got.frames, ns.frames);
                for e in mem.sketches().iter() { eprintln!("   entry {} hamming {} passes {:?}", e.frame_id, e.hamming_distance(qs.simhash), qs.score_entry(e, 32).is_some()); }
            }
        } }
        if found { break; }
    }
}

pub fn run(seed: u64, n: usize, w: &mut dyn std::io::Write) {
    if std::env::var("MV_C09_PROBE").is_ok() { probe(); return; }
    let debug = std::env::var("MV_DEBUG").is_ok();
    let mut r = Rng::new(seed ^ 0xC09);
    run_cands(&mut r, 8 * n, w);
    run_corpus(&mut r, witness_corpus(WITNESS_SKETCH, None, WITNESS_WORD, "witness:F-C09-1"), 9001, w);
    run_corpus(&mut r, witness_corpus(WITNESS_SNIPPETS, Some(WITNESS_SNIPPET_WORD), WITNESS_SNIPPET_WORD, "witness:F-C09-2"), 9002, w);
    for ci in 0..n {
        let t0 = std::time::Instant::now();
        let c = build_corpus(&mut r, ci);
        let nd = c.docs.len();
        let t1 = t0.elapsed();
        run_corpus(&mut r, c, ci, w);
        if debug { eprintln!("corpus {} ({} docs): built in {:?}, total {:?}", ci, nd, t1, t0.elapsed()); }
    }
}
