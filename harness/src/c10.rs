//! C10 every search hit is a valid answer -- real memories.
//!
//! Per corpus (one Memvid): 5-40 documents with uri / tags / labels / track / explicit timestamps,
//! mixed case, punctuation, newlines, some multi-byte words, 0-2 chunked documents (> 2400
//! chars: chunk frames), then updates and deletes.  Three read points: after the first commit,
//! with pending (uncommitted) puts / deletes / updates (instant index on and off), after commit
//! + reopen.  At every read point random query ASTs (words, phrases, wildcards, tag / label /
//! track / uri / scope terms, date ranges, AND / OR / NOT, printed with minimal parentheses and
//! random surface) with random request filters (uri, scope), snippet sizes, top_k 0-10.
//!
//! Stream `post`: the response (rank, frame, range, text, matches, chunk range, chunk text length,
//! score, total_hits, next_cursor) against the Coq model of try_tantivy_search's post-evaluation
//! fed (a) the response's own candidate frames in response order -- raw engine hits are not
//! observable (no hook) -- plus (b) decoy candidates: frames NOT in the response which the REAL
//! evaluator (verif_hooks::evaluate_query) or the request filter rejects, and stale ids; the
//! model must cull exactly those.  The stemmed tokens (engine.analyse_text, private) are
//! recomputed here with the same analyser chain (alphanumeric runs, lower-case, Snowball English
//! via the rust-stemmers crate Tantivy itself uses).
//!
//! Property oracle (independent of the model, own evaluator over the generated AST): every hit
//! names an existing Active frame whose lower-cased search text satisfies the query and which
//! passes the uri / scope filter; at most max(1, top_k) hits; ranks 1..n; hit.text = content at
//! hit.range (unchunked: search text = frame_text_by_id; chunk: the parent's concatenated
//! chunk payloads), range inside chunk_range, chunk_range the chunk's position.
use crate::term::*;
use memvid_core::types::{AclEnforcementMode, Frame, FrameRole, FrameStatus, SearchRequest, SearchResponse};
use memvid_core::{Memvid, PutOptions};
use std::collections::{BTreeMap, BTreeSet};

const BASE_TS: i64 = 1_700_000_000; // 2023-11-14

const WORDS: &[&str] = &[
    "alpha", "bravo", "charlie", "delta", "echo", "foxtrot", "golf", "hotel", "india", "juliet", "kilo", "lima",
    "running", "run", "cities", "city", "quickly", "zebra", "memory", "search", "index", "frames", "vector", "query",
    "tokens", "report", "budget", "meeting", "planned", "planning", "plan", "data", "r\u{e9}sum\u{e9}", "na\u{ef}ve",
    "\u{65e5}\u{672c}", "caf\u{e9}", "x9", "2024",
];
const TAGS: &[&str] = &["red", "Blue", "green", "urgent"];
const LABELS: &[&str] = &["note", "Report", "todo"];
const TRACKS: &[&str] = &["main", "Side"];
const URI_DIRS: &[&str] = &["mv2://docs/a/", "mv2://docs/b/", "mv2://Docs/a/", "mv2://notes/"];

// ------------------------------------------------------------------ query AST
#[derive(Clone, Debug)]
enum Q {
    Word(String), Phrase(String), Wild(String),
    Tag(String), Label(String), Track(String), Uri(String), Scope(String),
    Date(Option<String>, Option<String>),
    And(Vec<Q>), Or(Vec<Q>), Not(Box<Q>),
}

fn glob(p: &[char], s: &[char]) -> bool {
    // anchored; '*' = any run without newline, '?' = one char that is not a newline
    match p.first() {
        None => s.is_empty(),
        Some('*') => {
            let mut i = 0;
            loop {
                if glob(&p[1..], &s[i..]) { return true; }
                if i < s.len() && s[i] != '\n' { i += 1; } else { return false; }
            }
        }
        Some('?') => !s.is_empty() && s[0] != '\n' && glob(&p[1..], &s[1..]),
        Some(c) => !s.is_empty() && s[0] == *c && glob(&p[1..], &s[1..]),
    }
}

struct RefDoc<'a> { uri: Option<&'a str>, track: Option<&'a str>, tags: &'a [String], labels: &'a [String], ts: i64, lower: &'a str }

/// reference semantics, written from the property text (not from the implementation)
fn ref_eval(q: &Q, d: &RefDoc, dates: &BTreeMap<String, Option<i64>>) -> bool {
    match q {
        Q::Word(w) | Q::Phrase(w) => d.lower.contains(&w.to_ascii_lowercase()),
        Q::Wild(p) => glob(&p.to_ascii_lowercase().chars().collect::<Vec<_>>(), &d.lower.chars().collect::<Vec<_>>()),
        Q::Tag(v) => d.tags.iter().any(|t| t.eq_ignore_ascii_case(v)),
        Q::Label(v) => d.labels.iter().any(|t| t.eq_ignore_ascii_case(v)),
        Q::Track(v) => d.track.is_some_and(|t| t.eq_ignore_ascii_case(v)),
        Q::Uri(v) => d.uri.is_some_and(|u| u.eq_ignore_ascii_case(v)),
        Q::Scope(p) => d.uri.is_some_and(|u| u.starts_with(&p.to_ascii_lowercase())),
        Q::Date(a, b) => {
            let lo = a.as_ref().and_then(|s| dates.get(s).copied().flatten());
            let hi = b.as_ref().and_then(|s| dates.get(s).copied().flatten());
            if lo.is_none() && hi.is_none() { return true; }
            lo.map_or(true, |s| d.ts >= s) && hi.map_or(true, |e| d.ts <= e)
        }
        Q::And(l) => l.iter().all(|c| ref_eval(c, d, dates)),
        Q::Or(l) => l.iter().any(|c| ref_eval(c, d, dates)),
        Q::Not(c) => !ref_eval(c, d, dates),
    }
}

fn kw(r: &mut Rng, s: &str) -> String { if r.chance(1, 4) { s.to_ascii_lowercase() } else { s.to_string() } }
fn recase(r: &mut Rng, w: &str) -> String {
    match r.below(5) { 0 => w.to_ascii_uppercase(), 1 => { let mut c = w.chars(); match c.next() { Some(f) => f.to_ascii_uppercase().to_string() + c.as_str(), None => String::new() } }, _ => w.to_string() }
}
fn field(r: &mut Rng, name: &str, v: &str) -> String {
    let n = if r.chance(1, 5) { name.to_ascii_uppercase() } else { name.to_string() };
    if r.chance(1, 2) || v.contains(' ') { format!("{}:\"{}\"", n, v) } else { format!("{}:{}", n, v) }
}
/// lvl 0 = OR level, 1 = AND level, 2 = factor
fn print_q(r: &mut Rng, q: &Q, lvl: u8, explicit: bool) -> String {
    match q {
        Q::Word(w) => recase(r, w),
        Q::Phrase(p) => format!("\"{}\"", p),
        Q::Wild(p) => p.clone(),
        Q::Tag(v) => field(r, "tag", v), Q::Label(v) => field(r, "label", v), Q::Track(v) => field(r, "track", v),
        Q::Uri(v) => field(r, "uri", v), Q::Scope(v) => field(r, "scope", v),
        Q::Date(a, b) => format!("date:[{} TO {}]", a.as_deref().unwrap_or("*"), b.as_deref().unwrap_or("*")),
        Q::Or(l) => {
            let body = l.iter().map(|c| print_q(r, c, 1, explicit)).collect::<Vec<_>>().join(&format!(" {} ", kw(r, "OR")));
            if lvl == 0 { body } else { format!("({})", body) }
        }
        Q::And(l) => {
            let sep = if explicit { format!(" {} ", kw(r, "AND")) } else { " ".to_string() };
            let body = l.iter().map(|c| print_q(r, c, 2, explicit)).collect::<Vec<_>>().join(&sep);
            if lvl <= 1 { body } else { format!("({})", body) }
        }
        Q::Not(c) => format!("{} {}", kw(r, "NOT"), print_q(r, c, 2, explicit)),
    }
}

struct DocSpec { text: String, uri: Option<String>, title: Option<String>, tags: Vec<String>, labels: Vec<String>, track: Option<String>, ts: i64, instant: bool }

fn gen_text(r: &mut Rng, target: usize) -> String {
    let mut s = String::new();
    let focus: Vec<&str> = (0..6).map(|_| *r.pick(WORDS)).collect();
    while s.chars().count() < target {
        let w = if r.chance(1, 2) { *r.pick(&focus) } else { *r.pick(WORDS) };
        s.push_str(&recase(r, w));
        match r.below(14) { 0 => s.push_str(". "), 1 => s.push_str("! "), 2 => s.push_str("? "), 3 => s.push_str(".\n"), 4 => s.push_str(", "), 5 => s.push_str("\n"), 6 => s.push_str("  "), _ => s.push(' ') }
    }
    s
}

fn gen_doc(r: &mut Rng, i: usize, chunked: bool) -> DocSpec {
    let target = if chunked { 2600 + r.below(1400) as usize } else { match r.below(6) { 0 => 8 + r.below(30) as usize, 1..=4 => 50 + r.below(200) as usize, _ => 300 + r.below(300) as usize } };
    let text = gen_text(r, target);
    let uri = if r.chance(1, 5) { None } else {
        let mut u = format!("{}{}{}", r.pick(URI_DIRS), r.pick(&["spec", "Plan", "memo", "log"]), i);
        if r.chance(1, 4) { let fr: &str = *r.pick(&["#intro", "#Sec2"]); u.push_str(fr); }
        Some(u)
    };
    let pick_some = |r: &mut Rng, src: &[&str], max: u64| -> Vec<String> { let n = r.below(max + 1); let mut v: Vec<String> = vec![]; for _ in 0..n { let x = r.pick(src).to_string(); if !v.contains(&x) { v.push(x); } } v };
    DocSpec { text, uri, title: if r.chance(1, 3) { Some(format!("Title {} {}", r.pick(WORDS), i)) } else { None },
        tags: pick_some(r, TAGS, 3), labels: pick_some(r, LABELS, 2), track: if r.chance(1, 2) { Some(r.pick(TRACKS).to_string()) } else { None },
        ts: BASE_TS + (r.below(30) as i64) * 86400 + r.below(86400) as i64, instant: false }
}

fn opts(d: &DocSpec) -> PutOptions {
    let mut o = PutOptions::default();
    o.timestamp = Some(d.ts); o.uri = d.uri.clone(); o.title = d.title.clone(); o.tags = d.tags.clone(); o.labels = d.labels.clone(); o.track = d.track.clone();
    o.auto_tag = false; o.extract_dates = false; o.extract_triplets = false; o.instant_index = d.instant;
    o
}

/// engine.analyse_text: SimpleTokenizer (alphanumeric runs) -> LowerCaser -> Stemmer(English)
fn analyse(text: &str) -> Vec<String> {
    let st = rust_stemmers::Stemmer::create(rust_stemmers::Algorithm::English);
    let mut out = vec![]; let mut cur = String::new();
    let mut flush = |cur: &mut String, out: &mut Vec<String>| {
        if !cur.is_empty() {
            let low = if cur.is_ascii() { cur.to_ascii_lowercase() } else { cur.to_lowercase() };
            out.push(st.stem(&low).into_owned()); cur.clear();
        }
    };
    for ch in text.chars() { if ch.is_alphanumeric() { cur.push(ch); } else { flush(&mut cur, &mut out); } }
    flush(&mut cur, &mut out);
    out
}

/// bytes as `(bl [104;105])`: a decimal list elaborates several times faster than a `hex "..."`
/// string literal of the same content (Corr/C10.v opens N_scope for the generated case files)
fn t_bytes(b: &[u8]) -> T {
    let mut s = String::with_capacity(b.len() * 4 + 8);
    s.push_str("(bl [");
    for (i, x) in b.iter().enumerate() { if i > 0 { s.push(';'); } s.push_str(&x.to_string()); }
    s.push_str("])");
    T::C(Box::leak(s.into_boxed_str()), vec![])
}
fn t_str(s: &str) -> T { t_bytes(s.as_bytes()) }
fn t_ostr(s: Option<&str>) -> T { match s { Some(x) => T::some(t_str(x)), None => T::none() } }
fn t_on(v: Option<u128>) -> T { match v { Some(x) => T::some(T::N(x)), None => T::none() } }

fn uri_matches(candidate: Option<&str>, expected: &str) -> bool {
    let Some(uri) = candidate else { return false };
    if expected.contains('#') { uri.eq_ignore_ascii_case(expected) } else { uri.to_ascii_lowercase().starts_with(&expected.to_ascii_lowercase()) }
}
/// the request's uri / scope restriction as the property reads it (scope ignored when uri is given)
fn passes_filters(uri: Option<&str>, rq_uri: Option<&str>, rq_scope: Option<&str>) -> bool {
    if let Some(u) = rq_uri { return uri_matches(uri, u); }
    if let Some(s) = rq_scope { return uri.is_some_and(|x| x.starts_with(s)); }
    true
}

fn search_caught(mem: &mut Memvid, rq: SearchRequest) -> Result<Result<SearchResponse, memvid_core::MemvidError>, ()> {
    let prev = std::panic::take_hook();
    std::panic::set_hook(Box::new(|_| {}));
    let r = std::panic::catch_unwind(std::panic::AssertUnwindSafe(|| mem.search(rq)));
    std::panic::set_hook(prev);
    r.map_err(|_| ())
}

struct View { frames: Vec<Frame> }
impl View {
    fn load(mem: &Memvid) -> View { View { frames: (0..mem.frame_count() as u64).filter_map(|i| mem.frame_by_id(i).ok()).collect() } }
    fn children(&self, pid: u64) -> Vec<&Frame> {
        let mut v: Vec<&Frame> = self.frames.iter().filter(|c| c.status == FrameStatus::Active && c.role == FrameRole::DocumentChunk && c.parent_id == Some(pid)).collect();
        v.sort_by_key(|c| (c.chunk_index.unwrap_or(u32::MAX), c.id));
        v
    }
}

/// full = a candidate (or the first chunk of a candidate document): every field the evaluation reads.
/// Otherwise a skeleton: parents / sibling chunks of a candidate, of which resolve_chunk_context reads
/// status, role, parent, chunk index, manifest, canonical length and the payload LENGTH only -- texts dropped.
fn t_frame(mem: &mut Memvid, f: &Frame, full: bool, payload_text: bool) -> T {
    let payload = if f.chunk_manifest.is_some() { None } else { mem.frame_canonical_payload(f.id).ok() };
    let t_payload = match payload { Some(b) => T::some(T::Tup(vec![T::N(b.len() as u128), if payload_text { t_bytes(String::from_utf8_lossy(&b).as_bytes()) } else { t_bytes(&[]) }])), None => T::none() };
    if !full {
        return T::Tup(vec![
            T::N(f.id as u128),
            T::N(match f.status { FrameStatus::Active => 0, FrameStatus::Superseded => 1, FrameStatus::Deleted => 2 }),
            T::N(match f.role { FrameRole::Document => 0, FrameRole::DocumentChunk => 1, FrameRole::ExtractedImage => 2 }),
            T::none(), T::none(), T::L(vec![]), T::L(vec![]), T::Z(f.timestamp as i128), T::L(vec![]), T::none(),
            t_on(f.parent_id.map(|x| x as u128)), t_on(f.chunk_index.map(|x| x as u128)),
            t_on(f.chunk_manifest.as_ref().map(|m| m.chunks.len() as u128)), t_on(f.canonical_length.map(|x| x as u128)),
            t_payload,
        ]);
    }
    T::Tup(vec![
        T::N(f.id as u128),
        T::N(match f.status { FrameStatus::Active => 0, FrameStatus::Superseded => 1, FrameStatus::Deleted => 2 }),
        T::N(match f.role { FrameRole::Document => 0, FrameRole::DocumentChunk => 1, FrameRole::ExtractedImage => 2 }),
        t_ostr(f.uri.as_deref()), t_ostr(f.track.as_deref()),
        T::L(f.tags.iter().map(|s| t_str(s)).collect()), T::L(f.labels.iter().map(|s| t_str(s)).collect()),
        T::Z(f.timestamp as i128), T::L(f.content_dates.iter().map(|s| t_str(s)).collect()),
        t_ostr(f.search_text.as_deref()),
        t_on(f.parent_id.map(|x| x as u128)), t_on(f.chunk_index.map(|x| x as u128)),
        t_on(f.chunk_manifest.as_ref().map(|m| m.chunks.len() as u128)), t_on(f.canonical_length.map(|x| x as u128)),
        t_payload,
    ])
}

struct Gen<'a> { docs_text: &'a [String], uris: &'a [String], date_strs: Vec<String> }

fn clean_words(text: &str) -> Vec<String> {
    text.split(|c: char| !c.is_alphanumeric()).filter(|w| !w.is_empty()).map(|w| w.to_ascii_lowercase())
        .filter(|w| !["and", "or", "not", "to"].contains(&w.as_str())).collect()
}

fn gen_leaf(r: &mut Rng, g: &Gen) -> Q {
    let doc = &g.docs_text[r.below(g.docs_text.len() as u64) as usize];
    let ws = clean_words(doc);
    match r.below(20) {
        0..=8 => { if !ws.is_empty() && r.chance(4, 5) { Q::Word(r.pick(&ws).clone()) } else { Q::Word(r.pick(WORDS).to_string()) } }
        9 | 10 => {
            // a phrase: 2-3 consecutive words of a document joined by one blank (present only where the text has them so)
            if ws.len() >= 3 { let i = r.below(ws.len() as u64 - 2) as usize; let n = 2 + r.below(2) as usize; Q::Phrase(ws[i..(i + n).min(ws.len())].join(" ")) } else { Q::Phrase("alpha bravo".into()) }
        }
        11 => { let w = r.pick(WORDS); let k = w.chars().count().min(3); let pre: String = w.chars().take(k).collect(); Q::Wild(match r.below(3) { 0 => format!("{}*", pre), 1 => format!("*{}*", pre), _ => format!("{}?*", pre.chars().take(1).collect::<String>()) }) }
        12 | 13 => { let v: &str = *r.pick(TAGS); Q::Tag(recase(r, v)) }
        14 => { let v: &str = *r.pick(LABELS); Q::Label(recase(r, v)) }
        15 => { let v: &str = *r.pick(TRACKS); Q::Track(recase(r, v)) }
        16 => { if !g.uris.is_empty() { let v: String = r.pick(g.uris).clone(); Q::Uri(recase(r, &v)) } else { Q::Uri("mv2://none".into()) } }
        17 => Q::Scope(r.pick(&["mv2://docs/", "mv2://docs/a/", "mv2://Docs/", "mv2://notes/", "mv2://"]).to_string()),
        _ => {
            let a = if r.chance(2, 3) { Some(r.pick(&g.date_strs).clone()) } else { None };
            let b = if a.is_none() || r.chance(1, 2) { Some(r.pick(&g.date_strs).clone()) } else { None };
            Q::Date(a, b)
        }
    }
}
fn gen_field_leaf(r: &mut Rng, g: &Gen) -> Q { loop { let q = gen_leaf(r, g); if !has_text(&q) { return q; } } }
/// no text token at all (a wildcard without a seed): Memvid::search then takes the filters-only route
/// whenever the engine does not answer
fn gen_seedless(r: &mut Rng, g: &Gen) -> Q {
    let w: &str = *r.pick(WORDS); let k = w.chars().count().min(3); let pre: String = w.chars().take(k).collect();
    let wild = Q::Wild(match r.below(3) { 0 => format!("*{}*", pre), 1 => "*".to_string(), _ => format!("?{}*", pre.chars().skip(1).collect::<String>()) });
    match r.below(4) { 0 => wild, 1 => Q::And(vec![wild, gen_field_leaf(r, g)]), 2 => Q::Or(vec![wild, gen_field_leaf(r, g)]), _ => Q::And(vec![wild, Q::Not(Box::new(gen_field_leaf(r, g)))]) }
}
fn gen_q(r: &mut Rng, g: &Gen, depth: u32) -> Q {
    if depth == 3 && r.chance(1, 10) { return gen_seedless(r, g); }
    if depth == 0 || r.chance(2, 5) { return gen_leaf(r, g); }
    match r.below(7) {
        0..=2 => Q::And((0..2 + r.below(2)).map(|_| gen_q(r, g, depth - 1)).collect()),
        3 | 4 => Q::Or((0..2 + r.below(2)).map(|_| gen_q(r, g, depth - 1)).collect()),
        5 => Q::Not(Box::new(gen_q(r, g, depth - 1))),
        _ => Q::And(vec![gen_leaf(r, g), Q::Not(Box::new(gen_leaf(r, g)))]),
    }
}
fn has_text(q: &Q) -> bool { match q { Q::Word(_) | Q::Phrase(_) | Q::Wild(_) => true, Q::And(l) | Q::Or(l) => l.iter().any(has_text), Q::Not(c) => has_text(c), _ => false } }
fn depth_mixed(q: &Q) -> bool { match q { Q::And(l) => l.iter().any(|c| matches!(c, Q::Or(_) | Q::Not(_))), Q::Or(l) => l.iter().any(|c| matches!(c, Q::And(_) | Q::Not(_))), Q::Not(c) => matches!(**c, Q::And(_) | Q::Or(_)), _ => false } }

fn date_value(s: &str) -> Option<i64> {
    match memvid_core::verif_hooks::query_facts(&format!("date:[{} TO *]", s)) { Ok((_, _, Some((a, _)))) => a, _ => None }
}

#[allow(clippy::too_many_arguments)]
fn run_queries(r: &mut Rng, mem: &mut Memvid, w: &mut dyn std::io::Write, ckey: &str, phase: &str, nq: usize, base_tags: &[String]) {
    let view = View::load(mem);
    let docs_text: Vec<String> = view.frames.iter().filter(|f| f.status == FrameStatus::Active).filter_map(|f| f.search_text.clone()).collect();
    if docs_text.is_empty() { return; }
    let uris: Vec<String> = view.frames.iter().filter_map(|f| f.uri.clone()).collect();
    let mut date_strs: Vec<String> = vec![];
    for _ in 0..6 { let d = r.below(36) as i64 - 3; let t = BASE_TS + d * 86400; let dt = chrono::DateTime::from_timestamp(t, 0).unwrap(); date_strs.push(if r.chance(1, 4) { dt.format("%Y-%m").to_string() } else { dt.format("%Y-%m-%d").to_string() }); }
    date_strs.push("2023".into());
    let dates: BTreeMap<String, Option<i64>> = date_strs.iter().map(|s| (s.clone(), date_value(s))).collect();
    let g = Gen { docs_text: &docs_text, uris: &uris, date_strs: date_strs.clone() };

    let mut budget: usize = std::env::var("C10_BUDGET").ok().and_then(|s| s.parse().ok()).unwrap_or(54_000);
    for qi in 0..nq {
        let q = gen_q(r, &g, 3);
        let explicit = r.chance(1, 2);
        let query = print_q(r, &q, 0, explicit);
        let top_k = match r.below(8) { 0 => 0, 1 => 1, 2 => 2, _ => r.range(1, 10) } as usize;
        let snippet_chars = *r.pick(&[0usize, 40, 80, 120, 200, 400]);
        let rq_uri = if r.chance(1, 6) && !uris.is_empty() {
            let u = r.pick(&uris).clone();
            Some(match r.below(4) { 0 => u, 1 => u.to_ascii_uppercase(), 2 => u.split('#').next().unwrap().to_string(), _ => { let cut = u.len().min(14 + r.below(6) as usize); u[..cut].to_string() } })
        } else { None };
        let no_token_q = memvid_core::verif_hooks::query_facts(&query).map(|f| f.0.iter().all(|t| t.trim().is_empty())).unwrap_or(false);
        let rq_scope = if r.chance(1, 6) || (no_token_q && rq_uri.is_none() && r.chance(1, 2)) { Some(r.pick(&["mv2://docs/", "mv2://docs/a/", "mv2://Docs/a/", "mv2://notes/", "mv2://no"]).to_string()) } else { None };
        let no_sketch = r.chance(3, 4);
        let req = SearchRequest { query: query.clone(), top_k, snippet_chars, uri: rq_uri.clone(), scope: rq_scope.clone(), cursor: None,
            as_of_frame: None, as_of_ts: None, no_sketch, acl_context: None, acl_enforcement_mode: AclEnforcementMode::Audit };
        let got = search_caught(mem, req);
        let mut tags: Vec<String> = base_tags.to_vec();
        tags.push(format!("phase-{}", phase));
        tags.push(format!("k{}", top_k)); tags.push(format!("snip{}", snippet_chars));
        if rq_uri.is_some() { tags.push("rq-uri".into()); } if rq_scope.is_some() { tags.push("rq-scope".into()); }
        if has_text(&q) { tags.push("text-terms".into()); } else { tags.push("field-only".into()); }
        if depth_mixed(&q) { tags.push("nested-ops".into()); }
        let (text_tokens, _, _) = memvid_core::verif_hooks::query_facts(&query).unwrap_or((vec![], false, None));
        if text_tokens.iter().all(|t| t.trim().is_empty()) && has_text(&q) { tags.push("wildcard-without-token".into()); }
        let key = format!("{}-{}-{}", ckey, phase, qi);
        let resp = match got {
            Err(()) => { emit(w, "other", &Case { input: T::Tup(vec![t_str(&query), T::N(2)]), output: T::N(2), violation: Some(format!("search-panic: query {:?} panicked", query)), nontrivial: false, tags: { tags.push("panic".into()); tags }, key }); continue; }
            Ok(Err(e)) => {
                let kind = format!("{:?}", e); let short = kind.split(|c: char| !c.is_alphanumeric()).next().unwrap_or("Err").to_string();
                tags.push(format!("err-{}", short));
                emit(w, "other", &Case { input: T::Tup(vec![t_str(&query), T::N(1)]), output: T::N(1), violation: None, nontrivial: false, tags, key }); continue;
            }
            Ok(Ok(resp)) => resp,
        };
        tags.push(format!("engine-{:?}", resp.engine));
        if resp.hits.is_empty() { tags.push("empty".into()); emit(w, "other", &Case { input: T::Tup(vec![t_str(&query), T::N(0)]), output: T::N(0), violation: None, nontrivial: false, tags, key }); continue; }

        // ------------------------------------------------ property oracle on the implementation's answer
        let mut problems: Vec<String> = vec![];
        if resp.hits.len() > top_k.max(1) { problems.push(format!("too-many-hits: {} hits for top_k {}", resp.hits.len(), top_k)); }
        for (i, h) in resp.hits.iter().enumerate() {
            if h.rank != i + 1 { problems.push(format!("rank-sequence: hit {} has rank {}", i, h.rank)); }
            let Some(f) = view.frames.get(h.frame_id as usize).filter(|f| f.id == h.frame_id) else { problems.push(format!("no-such-frame: hit names frame {}", h.frame_id)); continue; };
            if f.status != FrameStatus::Active { problems.push(format!("inactive-frame: hit names frame {} with status {:?}", f.id, f.status)); }
            let st = f.search_text.clone().unwrap_or_default();
            let lower = st.to_ascii_lowercase();
            let d = RefDoc { uri: f.uri.as_deref(), track: f.track.as_deref(), tags: &f.tags, labels: &f.labels, ts: f.timestamp, lower: &lower };
            if !ref_eval(&q, &d, &dates) { problems.push(format!("query-not-satisfied: frame {} does not satisfy {:?}", f.id, query)); }
            if !passes_filters(f.uri.as_deref(), rq_uri.as_deref(), rq_scope.as_deref()) { problems.push(format!("filter-not-satisfied: frame {} uri {:?} against uri {:?} scope {:?}", f.id, f.uri, rq_uri, rq_scope)); }
            // content at the range
            let (content, expect_chunk): (Vec<u8>, (usize, usize)) = if f.role == FrameRole::DocumentChunk && f.parent_id.is_some() && view.frames.get(f.parent_id.unwrap() as usize).is_some_and(|p| p.chunk_manifest.is_some()) {
                let pid = f.parent_id.unwrap();
                let kids = view.children(pid);
                let mut off = 0usize; let mut mine = (0usize, 0usize);
                for k in &kids { let l = mem.frame_canonical_payload(k.id).map(|b| b.len()).unwrap_or(0); if k.id == f.id { mine = (off, off + l); } off += l; }
                (mem.frame_canonical_payload(pid).unwrap_or_default(), mine)
            } else if f.chunk_manifest.is_some() {
                let kids = view.children(f.id);
                let l0 = kids.first().and_then(|k| mem.frame_canonical_payload(k.id).ok()).map(|b| b.len()).unwrap_or(0);
                (mem.frame_canonical_payload(f.id).unwrap_or_default(), (0, l0))
            } else {
                let t = mem.frame_text_by_id(f.id).unwrap_or_default();
                let l = t.len(); (t.into_bytes(), (0, l))
            };
            let (a, b) = h.range;
            // second admissible reading of "frame content": the frame's own text (frame_text_by_id); for an
            // unchunked document both readings coincide
            let own: Vec<u8> = mem.frame_text_by_id(f.id).unwrap_or_default().into_bytes();
            let ok_in = |c: &[u8]| a < b && b <= c.len() && c[a..b] == *h.text.as_bytes();
            if !(ok_in(&content) || ok_in(&own)) {
                if !(a < b && (b <= content.len() || b <= own.len())) { problems.push(format!("range-invalid: frame {} range {:?} content length {}", f.id, h.range, content.len())); }
                else { problems.push(format!("text-mismatch: frame {} text differs from the content at {:?}", f.id, h.range)); }
            }
            match h.chunk_range {
                None => problems.push(format!("chunk-range-missing: frame {}", f.id)),
                Some((cs, ce)) => {
                    if !(cs <= a && b <= ce) { problems.push(format!("range-outside-chunk: frame {} range {:?} chunk {:?}", f.id, h.range, (cs, ce))); }
                    let _ = expect_chunk; // the chunk's exact position is compared by the model (stream post), the property only asks range within chunk range
                }
            }
        }
        // (the filters-only route -- no text token and the engine rejects the wildcard -- used to return
        //  inactive frames and to ignore uri / scope: F-C10-1/2, fixed by /repo dcf427c; plain violations now)
        let violation = problems.first().cloned().map(|p| if problems.len() > 1 { format!("{} (+{} more: {})", p, problems.len() - 1, problems[1..].iter().map(|x| x.split(':').next().unwrap_or("")).collect::<Vec<_>>().join(",")) } else { p });

        // ------------------------------------------------ model input
        let mut cand_ids: Vec<(u64, u32)> = vec![];
        for h in &resp.hits { if !cand_ids.iter().any(|(i, _)| *i == h.frame_id) { cand_ids.push((h.frame_id, h.score.unwrap_or(0.0).to_bits())); } }
        let nreal = cand_ids.len();
        // decoys: frames outside the response that the real evaluator / the filter rejects; stale ids
        let mut ndecoy = 0;
        let hit_set: BTreeSet<u64> = cand_ids.iter().map(|c| c.0).collect();
        let mut order: Vec<usize> = (0..view.frames.len()).collect();
        for i in (1..order.len()).rev() { let j = r.below(i as u64 + 1) as usize; order.swap(i, j); }
        for fi in order {
            if ndecoy >= 2 { break; }
            let f = &view.frames[fi];
            if hit_set.contains(&f.id) || f.chunk_manifest.is_some() { continue; }
            let Some(st) = f.search_text.as_deref() else { continue };
            if st.len() > 700 { continue; }
            let rejected_by_eval = matches!(memvid_core::verif_hooks::evaluate_query(&query, f, &st.to_ascii_lowercase()), Ok(false));
            let rejected_by_filter = !passes_filters(f.uri.as_deref(), rq_uri.as_deref(), rq_scope.as_deref());
            if rejected_by_eval || rejected_by_filter {
                let pos = r.below(cand_ids.len() as u64 + 1) as usize;
                cand_ids.insert(pos, (f.id, 1.0f32.to_bits())); ndecoy += 1;
                tags.push(if rejected_by_eval { "decoy-eval".into() } else { "decoy-filter".into() });
            }
        }
        if r.chance(1, 5) { let pos = r.below(cand_ids.len() as u64 + 1) as usize; cand_ids.insert(pos, (view.frames.len() as u64 + r.below(3), 1.0f32.to_bits())); tags.push("decoy-stale".into()); }
        // relevant frames
        let mut rel: BTreeSet<u64> = BTreeSet::new();
        for (id, _) in &cand_ids {
            let Some(f) = view.frames.get(*id as usize) else { continue };
            rel.insert(f.id);
            if let Some(p) = f.parent_id { if (p as usize) < view.frames.len() { rel.insert(p); for c in &view.frames { if c.parent_id == Some(p) { rel.insert(c.id); } } } }
            if f.chunk_manifest.is_some() { for c in &view.frames { if c.parent_id == Some(f.id) { rel.insert(c.id); } } }
        }
        let cand_set: BTreeSet<u64> = cand_ids.iter().map(|c| c.0).collect();
        let mut first_chunks: BTreeSet<u64> = BTreeSet::new();
        for id in &cand_set { if let Some(f) = view.frames.get(*id as usize) { if f.chunk_manifest.is_some() { if let Some(k) = view.children(f.id).first() { first_chunks.insert(k.id); } } } }
        let t_frames = T::L(rel.iter().map(|id| { let f = &view.frames[*id as usize]; let full = cand_set.contains(id); t_frame(mem, f, full, full || first_chunks.contains(id)) }).collect());
        // tokens as Memvid::search computes them, then the analyser
        let qt: BTreeSet<String> = text_tokens.into_iter().filter(|t| !t.trim().is_empty()).map(|t| t.to_ascii_lowercase()).collect();
        let stemmed: Vec<String> = qt.iter().flat_map(|t| analyse(t)).collect();
        let alnum: Vec<u128> = query.chars().filter(|c| !c.is_ascii() && c.is_alphanumeric()).map(|c| c as u128).collect::<BTreeSet<_>>().into_iter().collect();
        let t_dates = T::L(dates.iter().map(|(s, v)| T::Tup(vec![t_str(s), match v { Some(x) => T::some(T::Z(*x as i128)), None => T::none() }])).collect());
        let next = resp.next_cursor.as_ref().map(|s| s.parse::<u64>().map(|x| x as u128).unwrap_or(u128::MAX));
        let input = T::Tup(vec![
            t_str(&query), T::L(alnum.into_iter().map(T::N).collect()), t_dates,
            T::L(stemmed.iter().map(|s| t_str(s)).collect()),
            T::Tup(vec![T::N(top_k as u128), T::N(snippet_chars as u128), t_ostr(rq_uri.as_deref()), t_ostr(rq_scope.as_deref())]),
            T::Tup(vec![T::N(view.frames.len() as u128), t_frames]),
            T::L(cand_ids.iter().map(|(i, s)| T::Tup(vec![T::N(*i as u128), T::N(*s as u128)])).collect()),
            T::Tup(vec![T::N(resp.total_hits as u128), t_on(next)]),
        ]);
        let t_hits = T::L(resp.hits.iter().map(|h| {
            let (cs, ce) = h.chunk_range.unwrap_or((usize::MAX, usize::MAX));
            T::Tup(vec![T::N(h.rank as u128), T::N(h.frame_id as u128), T::Tup(vec![T::N(h.range.0 as u128), T::N(h.range.1 as u128)]), t_bytes(h.text.as_bytes()),
                T::N(h.matches as u128), T::Tup(vec![T::N(cs as u128), T::N(ce as u128)]), T::N(h.chunk_text.as_ref().map(|t| t.len()).unwrap_or(usize::MAX) as u128), T::N(h.score.unwrap_or(0.0).to_bits() as u128)])
        }).collect());
        let output = T::C("Ok", vec![T::Tup(vec![t_hits, T::N(resp.total_hits as u128), t_on(next)])]);
        let chunk_hit = resp.hits.iter().any(|h| view.frames.get(h.frame_id as usize).is_some_and(|f| f.role == FrameRole::DocumentChunk));
        let parent_hit = resp.hits.iter().any(|h| view.frames.get(h.frame_id as usize).is_some_and(|f| f.chunk_manifest.is_some()));
        if chunk_hit { tags.push("chunk-hit".into()); } if parent_hit { tags.push("chunked-parent-hit".into()); }
        let multi = resp.hits.len() > nreal; if multi { tags.push("multi-slice".into()); }
        tags.push(format!("hits{}", match resp.hits.len() { 1 => "1", 2..=3 => "2-3", 4..=6 => "4-6", _ => "7+" }));
        if resp.hits.len() == top_k.max(1) { tags.push("page-full".into()); } else { tags.push("page-open".into()); }
        if resp.hits.iter().any(|h| !h.text.is_ascii()) { tags.push("multibyte-snippet".into()); }
        if violation.is_some() { tags.push("property-fails".into()); }
        // model comparison within a size budget per read point (elaborating the case terms dominates the
        // run time); the property oracle above runs on every response
        let sz = input.coq().len();
        let stream = if format!("{:?}", resp.engine) != "Tantivy" { "fallback" } else if sz <= budget { budget -= sz; "post" } else { "post-oracle-only" };
        emit(w, stream, &Case { input, output, violation, nontrivial: nreal >= 1 && (ndecoy >= 1 || nreal >= 2), tags, key });
    }
}

fn build_and_query(r: &mut Rng, ci: usize, nq: usize, w: &mut dyn std::io::Write) -> Result<(), String> {
    let dir = tempfile::tempdir().map_err(|e| e.to_string())?;
    let path = dir.path().join("m.mv2");
    let mut mem = Memvid::create(&path).map_err(|e| e.to_string())?;
    let ndocs = match ci % 4 { 0 => r.range(5, 9), 1 => r.range(10, 18), 2 => r.range(19, 30), _ => r.range(31, 40) } as usize;
    let nchunked = match ci % 3 { 0 => 0, 1 => 1, _ => 2 };
    let mut base_tags = vec![format!("docs{}", match ndocs { 0..=9 => "5-9", 10..=18 => "10-18", 19..=30 => "19-30", _ => "31-40" }), format!("chunked{}", nchunked)];
    let chunk_at: BTreeSet<usize> = (0..nchunked).map(|_| r.below(ndocs as u64) as usize).collect();
    let mut ckey_src = String::new();
    for i in 0..ndocs {
        let d = gen_doc(r, i, chunk_at.contains(&i));
        ckey_src.push_str(&d.text);
        mem.put_bytes_with_options(d.text.as_bytes(), opts(&d)).map_err(|e| format!("put: {}", e))?;
    }
    let ckey = format!("c{}-{}", ci, &blake3::hash(ckey_src.as_bytes()).to_hex()[..10]);
    mem.commit().map_err(|e| format!("commit: {}", e))?;
    // updates and deletes of committed frames, committed
    let n0 = mem.frame_count() as u64;
    let docs0: Vec<u64> = (0..n0).filter(|i| mem.frame_by_id(*i).is_ok_and(|f| f.role == FrameRole::Document && f.status == FrameStatus::Active)).collect();
    let nupd = r.below(3); let ndel = r.below(3);
    for _ in 0..nupd { let t = *r.pick(&docs0); let d = gen_doc(r, 100 + t as usize, false); let _ = mem.update_frame(t, Some(d.text.clone().into_bytes()), opts(&d), None); }
    for _ in 0..ndel { let t = *r.pick(&docs0); let _ = mem.delete_frame(t); }
    if nupd + ndel > 0 { mem.commit().map_err(|e| format!("commit2: {}", e))?; base_tags.push("superseded-or-deleted".into()); }
    run_queries(r, &mut mem, w, &ckey, "committed", nq, &base_tags);
    // pending operations: puts (instant index on / off), a delete, an update -- not committed
    let npend = r.range(1, 4);
    for j in 0..npend { let mut d = gen_doc(r, 200 + j as usize, false); d.instant = r.chance(1, 2); mem.put_bytes_with_options(d.text.as_bytes(), opts(&d)).map_err(|e| format!("put pending: {}", e))?; }
    let live: Vec<u64> = (0..mem.frame_count() as u64).filter(|i| mem.frame_by_id(*i).is_ok_and(|f| f.role == FrameRole::Document && f.status == FrameStatus::Active)).collect();
    if !live.is_empty() { if r.chance(2, 3) { let _ = mem.delete_frame(*r.pick(&live)); } if r.chance(1, 2) { let t = *r.pick(&live); let d = gen_doc(r, 300, false); let _ = mem.update_frame(t, Some(d.text.clone().into_bytes()), opts(&d), None); } }
    run_queries(r, &mut mem, w, &ckey, "pending", nq / 2 + 1, &base_tags);
    mem.commit().map_err(|e| format!("commit3: {}", e))?;
    drop(mem);
    let mut mem = Memvid::open(&path).map_err(|e| format!("reopen: {}", e))?;
    run_queries(r, &mut mem, w, &ckey, "reopened", nq, &base_tags);
    Ok(())
}

pub fn run(seed: u64, n: usize, w: &mut dyn std::io::Write) {
    let mut r = Rng::new(seed ^ 0xC10);
    let nq = std::env::var("C10_NQ").ok().and_then(|s| s.parse().ok()).unwrap_or(24usize);
    for ci in 0..n {
        if let Err(e) = build_and_query(&mut r, ci, nq, w) {
            emit(w, "other", &Case { input: T::Tup(vec![t_bytes(&[]), T::N(9)]), output: T::N(9), violation: Some(format!("harness-selfcheck: corpus {}: {}", ci, e)), nontrivial: false, tags: vec!["setup-failed".into()], key: format!("setup{}", ci) });
        }
    }
}
