//! Shared driver for store-level properties: executes an op history on a real Memvid and
//! records what the model needs (oracle inputs) and what it must predict (observations).
use crate::term::*;
use memvid_core::types::{Frame, FrameRole, FrameStatus};
use memvid_core::{Memvid, PutOptions};
use std::collections::HashMap;
use std::path::PathBuf;

#[derive(Clone, Debug)]
pub enum PayloadKind { Bin, Text, Chunked }

#[derive(Clone, Debug)]
pub enum Op {
    Put { kind: PayloadKind, size: usize, uri: Option<u32>, ts: i64, embed: Option<Vec<f32>>, default_opts: bool },
    Update { target: u64, payload: Option<(PayloadKind, usize)>, uri: Option<u32> },
    Delete { target: u64 },
    Commit,
    Reopen,
    Crash,
    /// Memvid::vacuum (table effect = a commit)
    Vacuum,
    /// close, Memvid::doctor(path, options: rebuild flags from the bits, vacuum bit), reopen (table effect = close + reopen)
    Doctor(u8),
}

pub fn payload_bytes(kind: &PayloadKind, size: usize, tag: u64) -> Vec<u8> {
    let mut r = Rng::new(tag.wrapping_mul(7919) ^ 0xABCD);
    match kind {
        PayloadKind::Bin => {
            // never valid UTF-8: starts with 0xFF 0xFE, random bytes after
            let mut v = vec![0xFFu8, 0xFE];
            while v.len() < size.max(2) { v.push(r.next() as u8); }
            v.truncate(size.max(1));
            if size >= 1 { v[0] = 0xFF; }
            v
        }
        PayloadKind::Text | PayloadKind::Chunked => {
            let words = ["alpha", "bravo", "charlie", "delta", "echo", "foxtrot", "golf", "hotel", "india", "juliet", "kilo", "lima", "mike", "november", "oscar", "papa"];
            let mut s = format!("doc{} ", tag);
            while s.len() < size {
                s.push_str(words[r.below(words.len() as u64) as usize]);
                s.push(if r.chance(1, 9) { '.' } else { ' ' });
                if r.chance(1, 40) { s.push('\n'); }
            }
            s.truncate(size.max(1));
            s.into_bytes()
        }
    }
}

pub fn uri_string(k: u32) -> String { format!("mv2://u/{}", k) }

pub struct Driver {
    pub path: PathBuf,
    _dir: tempfile::TempDir,
    pub mem: Option<Memvid>,
    /// blake3(canonical payload) -> content tag
    pub tags: HashMap<[u8; 32], u64>,
    pub next_tag: u64,
    /// canonical content tag of the payload used by the last put/update
    pub last_tag: u64,
    /// set when a reopen failed: the history cannot continue
    pub open_error: Option<String>,
    pub last_doctor: Option<String>,
}

pub struct StepObs {
    pub op_term: T,        // Coq `sop` with the oracle inputs observed on the implementation
    pub out_term: T,       // (result, frame_count, next_frame_id)
    pub ok: bool,
    pub seq: u64,
    pub next_before: u64,
    pub next_after: u64,
    pub auto_committed: bool,
}

fn opt_n(v: Option<u64>) -> T { match v { Some(x) => T::some(T::N(x as u128)), None => T::none() } }

impl Driver {
    pub fn new() -> Self {
        let dir = tempfile::tempdir().expect("tempdir");
        let path = dir.path().join("m.mv2");
        let mem = Memvid::create(&path).expect("create");
        Driver { path, _dir: dir, mem: Some(mem), tags: HashMap::new(), next_tag: 1000, last_tag: 0, open_error: None, last_doctor: None }
    }
    /// driver on an explicit path (used by the crash child and the survivor checks)
    pub fn at(path: &std::path::Path, create: bool) -> Self {
        let dir = tempfile::tempdir().expect("tempdir");
        let mem = if create { Memvid::create(path).expect("create") } else { Memvid::open(path).expect("open") };
        Driver { path: path.to_path_buf(), _dir: dir, mem: Some(mem), tags: HashMap::new(), next_tag: 1000, last_tag: 0, open_error: None, last_doctor: None }
    }
    pub fn mem(&mut self) -> &mut Memvid { self.mem.as_mut().unwrap() }

    fn dead_obs(&self, op_term: T) -> StepObs {
        StepObs { op_term, out_term: T::Tup(vec![T::C("Err", vec![T::N(8)]), T::N(0), T::N(0)]), ok: false, seq: 0, next_before: 0, next_after: 0, auto_committed: false }
    }

    /// returns the canonical tag of this content (the first tag registered for these bytes)
    fn register(&mut self, bytes: &[u8], tag: u64) -> u64 { *self.tags.entry(*blake3::hash(bytes).as_bytes()).or_insert(tag) }

    pub fn options(uri: Option<u32>, ts: i64, default_opts: bool) -> PutOptions {
        let mut o = PutOptions::default();
        o.timestamp = Some(ts);
        o.uri = uri.map(uri_string);
        if !default_opts { o.auto_tag = false; o.extract_dates = false; o.extract_triplets = false; o.instant_index = false; }
        o
    }

    pub fn step(&mut self, op: &Op) -> StepObs {
        let (wal_seq_before, committed_before) = { let m = self.mem(); (memvid_core::verif_hooks::wal_stats(m).3, m.frame_count() as u64) };
        let next_before = self.mem().next_frame_id();
        let mut ok = true; let mut seq = 0u64; let mut errk = 0u128;
        let op_term;
        match op {
            Op::Put { kind, size, uri, ts, embed, default_opts } => {
                let fresh = self.next_tag; self.next_tag += 1000;
                let bytes = payload_bytes(kind, *size, fresh);
                let tag = self.register(&bytes, fresh);
                self.last_tag = tag;
                if let Some((_, _, chunks)) = std::str::from_utf8(&bytes).ok().and_then(|t| memvid_core::verif_hooks::plan_text_chunks(t)) {
                    let mut cat = Vec::new();
                    for (i, c) in chunks.iter().enumerate() { self.register(c.as_bytes(), tag + i as u64 + 1); cat.extend_from_slice(c.as_bytes()); }
                    self.register(&cat, tag);
                }
                let opts = Self::options(*uri, *ts, *default_opts);
                let r = match embed { Some(e) => self.mem().put_with_embedding_and_options(&bytes, e.clone(), opts), None => self.mem().put_bytes_with_options(&bytes, opts) };
                match r { Ok(s) => seq = s, Err(e) => { ok = false; errk = 9; eprintln!("put failed: {}", e); } }
                let next_after = self.mem().next_frame_id();
                let nchunks = if ok { next_after - next_before - 1 } else { 0 };
                let auto = self.auto_oracle(wal_seq_before, committed_before, 1 + nchunks);
                op_term = T::C("OPut", vec![opt_n(uri.map(|u| u as u64)), T::N(tag as u128), T::N(nchunks as u128), T::N(0), auto]);
            }
            Op::Update { target, payload, uri } => {
                let mut newtag = None; let mut bytes = None;
                if let Some((kind, size)) = payload {
                    let fresh = self.next_tag; self.next_tag += 1000;
                    let b = payload_bytes(kind, *size, fresh); let tag = self.register(&b, fresh); self.last_tag = tag; newtag = Some(tag); bytes = Some(b);
                }
                let mut opts = PutOptions::default();
                opts.uri = uri.map(uri_string); opts.auto_tag = false; opts.extract_dates = false; opts.extract_triplets = false; opts.instant_index = false;
                match self.mem().update_frame(*target, bytes, opts, None) {
                    Ok(s) => seq = s,
                    Err(e) => { ok = false; let s = e.to_string(); errk = if s.contains("not active") { 2 } else { 1 }; }
                }
                let auto = self.auto_oracle(wal_seq_before, committed_before, 1);
                op_term = T::C("OUpdate", vec![T::N(*target as u128), opt_n(newtag), opt_n(uri.map(|u| u as u64)), auto]);
            }
            Op::Delete { target } => {
                match self.mem().delete_frame(*target) {
                    Ok(s) => seq = s,
                    Err(e) => { ok = false; let s = e.to_string(); errk = if s.contains("not active") { 2 } else { 1 }; }
                }
                let auto = self.auto_oracle(wal_seq_before, committed_before, 1);
                op_term = T::C("ODelete", vec![T::N(*target as u128), auto]);
            }
            Op::Commit => {
                let pend_before = memvid_core::verif_hooks::wal_stats(self.mem()).1;
                if let Err(e) = self.mem().commit() { ok = false; errk = 9; eprintln!("commit failed: {}", e); }
                let extra = memvid_core::verif_hooks::wal_stats(self.mem()).3 - wal_seq_before;
                let _ = pend_before;
                op_term = T::C("OCommit", vec![T::N(extra as u128)]);
            }
            Op::Vacuum => {
                if let Err(e) = self.mem().vacuum() { ok = false; errk = 9; eprintln!("vacuum failed: {}", e); }
                let extra = memvid_core::verif_hooks::wal_stats(self.mem()).3 - wal_seq_before;
                op_term = T::C("OCommit", vec![T::N(extra as u128)]);
            }
            Op::Doctor(bits) => {
                let m = self.mem.take().unwrap();
                drop(m);
                let opts = memvid_core::types::DoctorOptions { rebuild_time_index: bits & 1 != 0, rebuild_lex_index: bits & 2 != 0, rebuild_vec_index: bits & 4 != 0, vacuum: bits & 8 != 0, dry_run: false, quiet: true };
                let rep = std::panic::catch_unwind(|| Memvid::doctor(&self.path, opts));
                match rep {
                    Ok(Ok(r)) => { self.last_doctor = Some(format!("{:?}", r.status)); }
                    Ok(Err(e)) => { self.last_doctor = Some(format!("error: {}", e)); }
                    Err(_) => { self.last_doctor = Some("panic".to_string()); }
                }
                match Memvid::open(&self.path) {
                    Ok(m) => { let newseq = memvid_core::verif_hooks::wal_stats(&m).3; self.mem = Some(m); op_term = T::C("ODoctor", vec![T::N(newseq as u128)]); }
                    Err(e) => { self.open_error = Some(format!("{}", e)); return self.dead_obs(T::C("ODoctor", vec![T::N(0)])); }
                }
            }
            Op::Reopen => {
                let m = self.mem.take().unwrap();
                drop(m);
                match Memvid::open(&self.path) {
                    Ok(m) => { let extra = memvid_core::verif_hooks::wal_stats(&m).3 - wal_seq_before; self.mem = Some(m); op_term = T::C("OReopen", vec![T::N(extra as u128)]); }
                    Err(e) => { self.open_error = Some(format!("{}", e)); return self.dead_obs(T::C("OReopen", vec![T::N(0)])); }
                }
            }
            Op::Crash => {
                let m = self.mem.take().unwrap();
                memvid_core::verif_hooks::drop_without_commit(m);
                match Memvid::open(&self.path) {
                    Ok(m) => { let extra = memvid_core::verif_hooks::wal_stats(&m).3 - wal_seq_before; self.mem = Some(m); op_term = T::C("OCrash", vec![T::N(extra as u128)]); }
                    Err(e) => { self.open_error = Some(format!("{}", e)); return self.dead_obs(T::C("OCrash", vec![T::N(0)])); }
                }
            }
        }
        let next_after = self.mem().next_frame_id();
        let fc = self.mem().frame_count() as u64;
        let res = if !ok { T::C("Err", vec![T::N(errk)]) } else {
            match op { Op::Commit | Op::Reopen | Op::Crash | Op::Vacuum | Op::Doctor(_) => T::C("Ok", vec![T::N(0)]), _ => T::C("Ok", vec![T::N(seq as u128)]) }
        };
        let auto_committed = matches!(op, Op::Put { .. } | Op::Update { .. } | Op::Delete { .. }) && memvid_core::verif_hooks::wal_stats(self.mem()).1 == 0 && ok;
        StepObs { op_term, out_term: T::Tup(vec![res, T::N(fc as u128), T::N(next_after as u128)]), ok, seq, next_before, next_after, auto_committed }
    }

    /// did the mutating call end with an automatic checkpoint?  (pending bytes back to 0)
    /// Some(extra) = yes, with `extra` further log records appended by the commit itself
    fn auto_oracle(&mut self, wal_seq_before: u64, _committed_before: u64, appended: u64) -> T {
        let (_, pending, _, seq_now) = memvid_core::verif_hooks::wal_stats(self.mem());
        let grew = seq_now - wal_seq_before;
        if grew > 0 && pending == 0 { T::some(T::N((grew.saturating_sub(appended)) as u128)) }
        else if grew > appended {
            // commit happened and its own records are still pending
            T::some(T::N((grew - appended) as u128))
        } else { T::none() }
    }

    /// frame table summary: (id, uri, tag, role, status, supersedes, superseded_by, parent, manifest)
    pub fn table(&mut self) -> (T, Vec<Frame>) {
        let n = self.mem().frame_count() as u64;
        let mut rows = vec![]; let mut frames = vec![];
        for id in 0..n {
            let f = self.mem().frame_by_id(id).expect("frame_by_id");
            let payload = self.mem().frame_canonical_payload(id).unwrap_or_else(|e| format!("<<read error {}>>", e).into_bytes());
            let tag = self.tags.get(blake3::hash(&payload).as_bytes()).cloned().unwrap_or(u64::MAX / 2);
            if tag == u64::MAX / 2 && std::env::var("MV_DEBUG").is_ok() { eprintln!("UNKNOWN CONTENT frame {} role {:?} len {} plen {} enc {:?} manifest {} head {:?}", id, f.role, payload.len(), f.payload_length, f.canonical_encoding, f.chunk_manifest.is_some(), String::from_utf8_lossy(&payload[..payload.len().min(60)])); }
            let tag = if f.status == FrameStatus::Active { tag } else { 0 };
            rows.push(frame_term(&f, tag));
            frames.push(f);
        }
        (T::L(rows), frames)
    }
}

pub fn uri_term(u: &Option<String>) -> T {
    match u {
        None => T::C("UDefault", vec![T::N(u128::MAX >> 70)]),
        Some(s) => {
            if let Some(rest) = s.strip_prefix("mv2://frames/") { if let Ok(id) = rest.parse::<u64>() { return T::C("UDefault", vec![T::N(id as u128)]); } }
            if let Some(rest) = s.strip_prefix("mv2://u/") {
                if let Some((k, p)) = rest.split_once("#page-") { if let (Ok(k), Ok(p)) = (k.parse::<u64>(), p.parse::<u64>()) { return T::C("UChunk", vec![T::N(k as u128), T::N(p as u128)]); } }
                if let Ok(k) = rest.parse::<u64>() { return T::C("UExp", vec![T::N(k as u128)]); }
            }
            T::C("UExp", vec![T::N(u128::MAX >> 70)])
        }
    }
}

pub fn frame_term(f: &Frame, tag: u64) -> T {
    let role = match f.role { FrameRole::Document => 0, FrameRole::DocumentChunk => 1, FrameRole::ExtractedImage => 2 };
    let status = match f.status { FrameStatus::Active => 0, FrameStatus::Superseded => 1, FrameStatus::Deleted => 2 };
    T::Tup(vec![T::N(f.id as u128), uri_term(&f.uri), T::N(tag as u128), T::N(role), T::N(status), opt_n(f.supersedes), opt_n(f.superseded_by), opt_n(f.parent_id), T::B(f.chunk_manifest.is_some())])
}
