//! C17 at most one writer: interleaved histories of several real Memvid handles on one path.
//! Handles live in this process (flock belongs to the open file description, so a second open in
//! the same process conflicts exactly like one from another process); the key opens are repeated
//! from a child process (`C17-child`).  A refused blocking open costs 10 s (200 x 50 ms), so the
//! histories run in parallel threads and each contains at most a few of them.
use crate::term::*;
use memvid_core::{FileLock, Memvid, PutOptions};
use std::os::unix::fs::MetadataExt;
use std::path::{Path, PathBuf};
use std::thread::JoinHandle;

#[derive(Clone, Debug, PartialEq)]
pub enum Op { OpenFd(u64), OpenLock(u64), GiveUp(u64), Open(u64), Create(u64), Put(u64, u64), Commit(u64), Vacuum(u64), Drop(u64), Kill(u64), Doctor(u64),
    /// model op Touch: an operation that writes in place and must not touch lock state
    Touch(u64, TouchKind), EnableVec(u64),
    /// model op Put, with a payload of the given size (log growth inside put)
    BigPut(u64, u64, usize),
    /// not model ops (oracle-only histories): Memvid::downgrade_to_shared; a put on the downgraded handle (ensure_writable upgrades)
    Downgrade(u64),
    /// not model ops: a child process opens read-only (shared lock) and keeps it until released
    ReaderHold, ReaderRelease,
    /// not a model op: from four child processes at once try Memvid::open, open_read_only, doctor and a non-blocking flock
    Probe,
    /// not a model op: repeat the next would-be open from a child process and compare (cross-process check)
    ChildOpen }

#[derive(Clone, Debug, PartialEq)]
pub enum TouchKind { Presize(u64), BeginBatch, EndBatch, Ticket, EnableLex }

impl Op {
    fn term(&self) -> Option<T> {
        let n = |x: &u64| T::N(*x as u128);
        Some(match self {
            Op::OpenFd(w) => T::C("OpenFd", vec![n(w)]), Op::OpenLock(w) => T::C("OpenLock", vec![n(w)]), Op::GiveUp(w) => T::C("GiveUp", vec![n(w)]),
            Op::Open(w) => T::C("Open", vec![n(w)]), Op::Create(w) => T::C("Create", vec![n(w)]), Op::Put(w, t) => T::C("Put", vec![n(w), n(t)]),
            Op::Commit(w) => T::C("Commit", vec![n(w)]), Op::Vacuum(w) => T::C("Vacuum", vec![n(w)]), Op::Drop(w) => T::C("Drop", vec![n(w)]),
            Op::Kill(w) => T::C("Kill", vec![n(w)]), Op::Doctor(w) => T::C("Doctor", vec![n(w)]),
            Op::Touch(w, _) => T::C("Touch", vec![n(w)]), Op::EnableVec(w) => T::C("EnableVec", vec![n(w)]), Op::BigPut(w, t, _) => T::C("Put", vec![n(w), n(t)]),
            Op::ChildOpen | Op::Probe | Op::Downgrade(_) | Op::ReaderHold | Op::ReaderRelease => return None,
        })
    }
}

fn ino_path(p: &Path) -> u64 { std::fs::metadata(p).map(|m| m.ino()).unwrap_or(0) }
fn ino_lock(m: &Memvid) -> u64 { m.lock_handle().clone_handle().ok().and_then(|f| f.metadata().ok()).map(|m| m.ino()).unwrap_or(0) }
/// non-blocking exclusive flock on a fresh descriptor of the path (released at once): true = refused
fn path_lock_held(p: &Path) -> bool {
    let f = match std::fs::OpenOptions::new().read(true).write(true).open(p) { Ok(f) => f, Err(_) => return false };
    match FileLock::try_acquire(&f, p) { Ok(Some(_)) => false, Ok(None) => true, Err(_) => true }
}
fn put(m: &mut Memvid, k: u64) -> Result<u64, String> {
    let mut o = PutOptions::default();
    o.uri = Some(format!("mv2://u/{}", k)); o.timestamp = Some(1_700_000_000 + k as i64);
    o.auto_tag = false; o.extract_dates = false; o.extract_triplets = false; o.instant_index = false;
    m.put_bytes_with_options(format!("payload number {} of the lock histories", k).as_bytes(), o).map_err(|e| e.to_string())
}
fn put_sized(m: &mut Memvid, k: u64, size: usize) -> Result<u64, String> {
    let mut o = PutOptions::default();
    o.uri = Some(format!("mv2://u/{}", k)); o.timestamp = Some(1_700_000_000 + k as i64);
    o.auto_tag = false; o.extract_dates = false; o.extract_triplets = false; o.instant_index = false;
    let mut r = Rng::new(k ^ 0xB16); let mut b = vec![0xFFu8, 0xFE]; b.extend(r.bytes(size.saturating_sub(2)));   // never UTF-8, incompressible
    m.put_bytes_with_options(&b, o).map_err(|e| e.to_string())
}
/// self-test of the check (MV_C17_SEED_GUARD=1 only): what a temporary `FileLock::acquire(&self.file, path)` guard inside
/// shift_data_for_wal_growth does at the syscall level -- LOCK_EX on a dup of the handle's lock description, LOCK_UN when dropped
fn seeded_guard(m: &Memvid, p: &Path) {
    if std::env::var("MV_C17_SEED_GUARD").is_err() { return; }
    if let Ok(f) = m.lock_handle().clone_handle() { if let Ok(g) = FileLock::acquire(&f, p) { drop(g); } }
}
fn tags(m: &Memvid) -> Vec<u64> {
    (0..m.frame_count() as u64).map(|i| m.frame_by_id(i).ok().and_then(|f| f.uri).and_then(|u| u.strip_prefix("mv2://u/").and_then(|s| s.parse().ok())).unwrap_or(999_999)).collect()
}
/// (got write access, failed for a reason other than lock contention, text)
fn doctor(p: &Path) -> (bool, bool, String) {
    let opts = memvid_core::types::DoctorOptions { rebuild_time_index: true, rebuild_lex_index: false, rebuild_vec_index: false, vacuum: false, dry_run: false, quiet: true };
    match std::panic::catch_unwind(|| Memvid::doctor(p, opts)) {
        Ok(Ok(r)) => { let s = format!("{:?} {:?}", r.status, r.findings.iter().map(|f| format!("{:?}", f.code)).collect::<Vec<_>>()); let failed = s.starts_with("Failed"); let contention = s.contains("LockContention"); (!contention && !failed, failed && !contention, s) }
        Ok(Err(e)) => (false, true, format!("error: {}", e)),
        Err(_) => (false, true, "panic".into()),
    }
}

/// child process: `mvharness C17-child <path> <mode>`: open | ro | doctor | try; reports whether it was let in; exits without commit
pub fn child(args: &[String]) {
    let p = PathBuf::from(&args[0]);
    let mode = args.get(1).map(|s| s.as_str()).unwrap_or("open");
    match mode {
        "ro" => match Memvid::open_read_only(&p) { Ok(m) => { println!("C17CHILD OK {:?}", tags(&m)); memvid_core::verif_hooks::drop_without_commit(m); } Err(e) => println!("C17CHILD ERR {}", e) },
        "doctor" => { let (got, _, what) = doctor(&p); println!("C17CHILD {} {}", if got { "OK" } else { "ERR" }, what); }
        "ro-hold" => match Memvid::open_read_only(&p) {
            Ok(m) => { println!("C17CHILD OK holding"); use std::io::Write; let _ = std::io::stdout().flush();
                let rel = PathBuf::from(&args[2]); for _ in 0..2400 { if rel.exists() { break; } std::thread::sleep(std::time::Duration::from_millis(50)); }
                memvid_core::verif_hooks::drop_without_commit(m); }
            Err(e) => println!("C17CHILD ERR {}", e) },
        "try" => { let f = std::fs::OpenOptions::new().read(true).write(true).open(&p).expect("open"); match FileLock::try_acquire(&f, &p) { Ok(Some(_)) => println!("C17CHILD OK try"), _ => println!("C17CHILD ERR try") } }
        _ => match Memvid::open(&p) { Ok(m) => { println!("C17CHILD OK {:?}", tags(&m)); memvid_core::verif_hooks::drop_without_commit(m); } Err(e) => println!("C17CHILD ERR {}", e) },
    }
    std::process::exit(0);
}
fn spawn_child(p: &Path, mode: &'static str) -> JoinHandle<Option<bool>> {
    let exe = std::env::current_exe().expect("exe"); let p = p.to_path_buf();
    std::thread::spawn(move || {
        let out = std::process::Command::new(exe).arg("C17-child").arg(&p).arg(mode).env("RUST_BACKTRACE", "0").output().ok()?;
        let s = String::from_utf8_lossy(&out.stdout).to_string();
        if s.contains("C17CHILD OK") { Some(true) } else if s.contains("C17CHILD ERR") { Some(false) } else { None }
    })
}
fn spawn_child_open(p: &Path) -> JoinHandle<Option<bool>> { spawn_child(p, "open") }

/// writer child for the strace check: every operation of a writer's life, a marker (unlink of C17MARK-<op>) before each
pub fn writer_child(args: &[String]) {
    let p = PathBuf::from(&args[0]); let dir = p.parent().unwrap().to_path_buf();
    let mark = |name: &str| { let f = dir.join(format!("C17MARK-{}", name)); let _ = std::fs::write(&f, b"x"); let _ = std::fs::remove_file(&f); };
    mark("create"); let mut m = Memvid::create(&p).expect("create");
    mark("presize"); seeded_guard(&m, &p); m.begin_batch(memvid_core::types::PutManyOpts { wal_pre_size_bytes: 200_000, ..Default::default() }).expect("begin_batch");
    mark("end_batch"); m.end_batch().expect("end_batch");
    mark("enable_vec"); let _ = m.enable_vec();
    mark("enable_lex"); let _ = m.enable_lex();
    mark("apply_ticket"); let _ = m.apply_ticket(memvid_core::types::Ticket::new("verif", 1));
    mark("put"); let _ = put(&mut m, 1);
    mark("grow_in_put"); let _ = m.begin_batch(Default::default()); let _ = put_sized(&mut m, 2, 150_000); let _ = put_sized(&mut m, 3, 150_000); let _ = m.end_batch();
    mark("commit"); let _ = m.commit();
    mark("put2"); let _ = put_sized(&mut m, 4, 600_000);
    mark("commit2"); let _ = m.commit();
    mark("vacuum"); let _ = m.vacuum();
    mark("drop"); drop(m);
    std::process::exit(0);
}

/// strace a writer process: no flock(LOCK_UN) on the memory file between the grant and the drop of the handle
fn strace_writer() -> Case {
    let dir = tempfile::tempdir().expect("tempdir"); let p = dir.path().join("m.mv2"); let tr = dir.path().join("trace.txt");
    let exe = std::env::current_exe().expect("exe");
    let st = std::process::Command::new("strace").arg("-f").arg("-qq").arg("-y").arg("-o").arg(&tr).arg("-e").arg("trace=flock,unlink,unlinkat")
        .arg(exe).arg("C17-writer").arg(&p).env("RUST_BACKTRACE", "0").stdout(std::process::Stdio::null()).stderr(std::process::Stdio::null()).status();
    let trace = std::fs::read_to_string(&tr).unwrap_or_default();
    let mut tags = vec!["strace-writer".to_string()]; let mut viol = None; let mut cur = "start".to_string(); let mut locks = 0; let mut unlocks_at_drop = 0; let mut marks = 0;
    for l in trace.lines() {
        if let Some(i) = l.find("C17MARK-") { if l.contains("unlink") { cur = l[i + 8..].chars().take_while(|c| c.is_ascii_alphanumeric() || *c == '_').collect(); marks += 1; } continue; }
        if l.contains("flock(") && l.contains("m.mv2") {
            if l.contains("LOCK_UN") {
                if cur == "drop" { unlocks_at_drop += 1; }
                else if viol.is_none() { viol = Some(format!("unlock-in-critical-section: a live writer unlocked its own open file description during `{}`: {}", cur, l.trim())); }
            } else if l.contains("LOCK_EX") && l.trim_end().ends_with("= 0") { locks += 1; if cur != "create" { tags.push(format!("extra-lock-call-during-{}", cur)); } }
        }
    }
    if st.is_err() || marks < 10 { tags.push("strace-unavailable".into()); viol = None; }
    else { tags.push(format!("flock-grants:{}", locks)); tags.push(format!("unlocks-at-drop:{}", unlocks_at_drop)); }
    Case { input: T::L(vec![]), output: T::Tup(vec![T::N(locks), T::N(unlocks_at_drop)]), violation: viol, nontrivial: marks >= 10, tags, key: "strace-writer".into() }
}

struct Obs { ok: bool, dir_changed: bool, held: bool, live: Vec<(u64, bool)> }
pub struct Outcome { env_error: bool, stream: &'static str, ops: Vec<Op>, obs: Vec<Obs>, tocs: Vec<(u64, Vec<u64>)>, fin: Vec<u64>, violation: Option<String>, tags: Vec<String>, two_writers: bool, refused_opens: usize }

/// runs one history on a fresh path
pub fn run_history(name: &str, ops: &[Op]) -> Outcome {
    let dir = tempfile::tempdir().expect("tempdir");
    let p = dir.path().join("m.mv2");
    let mut hs: Vec<Option<Memvid>> = (0..8).map(|_| None).collect();
    let mut waiting: Vec<Option<JoinHandle<Result<Memvid, String>>>> = (0..8).map(|_| None).collect();
    let mut obs = vec![]; let mut done: Vec<Op> = vec![];
    let mut viol: Option<String> = None; let mut tagv = vec![name.to_string()];
    let mut acked: Vec<u64> = vec![];                 // tags whose commit was acknowledged
    let mut put_by: Vec<Vec<u64>> = vec![vec![]; 8];  // tags put (Ok) by each handle and not yet committed
    let mut stale_seen = false; let mut create_truncated = false; let mut two_writers = false; let mut refused = 0usize;
    let mut child_next = false; let mut dead = false; let mut env_error = false; let mut waiter_ino = [0u64; 8]; let mut waiter_start = [std::time::Instant::now(); 8]; let mut last_release = std::time::Instant::now(); let mut ticket_seq = 10i64; let mut reader: Option<std::process::Child> = None;
    let set_viol = |v: &mut Option<String>, s: String| { if v.is_none() { *v = Some(s); } };
    for op in ops {
        if dead { break; }
        if *op == Op::ChildOpen { child_next = true; continue; }
        let ino_before = ino_path(&p); let len_before = std::fs::metadata(&p).map(|m| m.len()).unwrap_or(0);
        let live_before: Vec<u64> = (0..8).filter(|w| hs[*w as usize].is_some()).collect();
        let mut ok = true;
        match op {
            Op::Create(w) | Op::Open(w) => {
                let creating = matches!(op, Op::Create(_));
                let ch = if child_next && !creating { child_next = false; Some(spawn_child_open(&p)) } else { None };
                // a child that is granted the lock holds it until it exits: let it finish first unless it is going to be refused
                let mut child_res = None;
                let ch = match ch { Some(h) => { if !path_lock_held(&p) { child_res = Some(h.join().ok().flatten()); None } else { Some(h) } } None => None };
                let r = if creating { Memvid::create(&p) } else { Memvid::open(&p) };
                if let Some(h) = ch { child_res = Some(h.join().ok().flatten()); }
                let mut lock_refused = false;
                match r { Ok(m) => hs[*w as usize] = Some(m), Err(e) => { ok = false; if e.to_string().contains("exclusive access unavailable") { refused += 1; lock_refused = true; } else { tagv.push(format!("open-error:{}", e)); env_error = true; } } }
                if let Some(cr) = child_res {
                    tagv.push("child-open".into());
                    if cr != Some(ok) { set_viol(&mut viol, format!("cross-process-differs: Memvid::open from a child process returned {:?}, from this process ok={} at step {}", cr, ok, done.len())); }
                }
                if creating && lock_refused {
                    let len_after = std::fs::metadata(&p).map(|m| m.len()).unwrap_or(0);
                    if !live_before.is_empty() && len_after < len_before { create_truncated = true;
                        set_viol(&mut viol, format!("create-truncates-before-lock: Memvid::create on the path of a live writer failed on the lock but truncated the file from {} to {} bytes (history {:?})", len_before, len_after, done)); }
                    dead = true; // the first writer's file is gone: its later calls fail with I/O errors
                }
            }
            Op::OpenFd(w) => {
                let pc = p.clone(); waiter_ino[*w as usize] = ino_before; waiter_start[*w as usize] = std::time::Instant::now();
                waiting[*w as usize] = Some(std::thread::spawn(move || Memvid::open(&pc).map_err(|e| e.to_string())));
                std::thread::sleep(std::time::Duration::from_millis(400));
            }
            Op::OpenLock(w) => {
                // a round of the retry loop: granted iff the opener thread has finished (give it time when the lock is free)
                let free_now = live_before.iter().all(|v| hs[*v as usize].as_ref().map(|m| ino_lock(m)).unwrap_or(0) != ino_before) || live_before.is_empty();
                let _ = free_now;
                let mut fin = waiting[*w as usize].as_ref().map(|h| h.is_finished()).unwrap_or(false);
                if !fin && live_before.is_empty() { for _ in 0..600 { std::thread::sleep(std::time::Duration::from_millis(50)); if waiting[*w as usize].as_ref().map(|h| h.is_finished()).unwrap_or(true) { fin = true; break; } } }
                if fin { match waiting[*w as usize].take().unwrap().join() { Ok(Ok(m)) => hs[*w as usize] = Some(m), Ok(Err(e)) => { ok = false;
                    // the opener's own 10 s ran out before the holder released (slow machine): timing, not a verdict
                    let timed_out = e.contains("exclusive access unavailable") && last_release.duration_since(waiter_start[*w as usize]) > std::time::Duration::from_millis(8500);
                    if !e.contains("exclusive access unavailable") || timed_out { env_error = true; tagv.push(format!("open-error:{}{}", if timed_out { "waiter timed out before the release: " } else { "" }, e)); } } _ => { ok = false; env_error = true; } } } else { ok = false; }
            }
            Op::GiveUp(w) => { if let Some(h) = waiting[*w as usize].take() { if let Ok(Ok(m)) = h.join() { hs[*w as usize] = Some(m); ok = false; } else { refused += 1; } } }
            Op::Put(w, t) => match hs[*w as usize].as_mut() { Some(m) => { let was_ro = m.is_read_only();
                    match put(m, *t) { Ok(_) => { put_by[*w as usize].push(*t); if was_ro { tagv.push("upgrade-granted".into()); } }
                        Err(e) => { ok = false; if e.contains("Tantivy") { env_error = true; } tagv.push(format!("put-error:{}", e));
                            // ensure_writable: a FAILED upgrade (the shared lock was given up, the exclusive one not obtained) must leave the handle read-only
                            if was_ro && e.contains("exclusive access unavailable") { tagv.push("upgrade-refused".into());
                                if !m.is_read_only() { set_viol(&mut viol, format!("writable-without-lock: put on downgraded handle {} failed to upgrade its lock ({}), the handle now holds no lock and reports is_read_only() == false: its next put / commit will write unlocked (history {:?})", w, e, done)); } } } } }
                None => ok = false },
            Op::Commit(w) | Op::Vacuum(w) => match hs[*w as usize].as_mut() {
                Some(m) => { let r = if matches!(op, Op::Commit(_)) { m.commit() } else { m.vacuum() };
                    match r { Ok(()) => { acked.extend(put_by[*w as usize].drain(..)); } Err(e) => { ok = false; if e.to_string().contains("Tantivy") { env_error = true; } tagv.push(format!("commit-error:{}", e)); } } }
                None => ok = false },
            Op::Drop(w) => { if let Some(m) = hs[*w as usize].take() { drop(m); last_release = std::time::Instant::now(); acked.extend(put_by[*w as usize].drain(..)); } }
            Op::Kill(w) => { if let Some(m) = hs[*w as usize].take() { memvid_core::verif_hooks::drop_without_commit(m); last_release = std::time::Instant::now(); put_by[*w as usize].clear(); } }
            Op::Doctor(_) => {
                let (got, other_failure, what) = doctor(&p); ok = got; if other_failure { env_error = true; tagv.push(format!("doctor-error:{}", what)); }
                if got && !live_before.is_empty() {
                    two_writers = true;
                    let stale = live_before.iter().any(|v| hs[*v as usize].as_ref().map(|m| ino_lock(m) != ino_before).unwrap_or(false));
                    stale_seen |= stale;
                    set_viol(&mut viol, format!("{}: Memvid::doctor got write access ({}) while handle(s) {:?} are alive (history {:?})", if stale { "inode-replaced-under-lock" } else { "two-writers-same-inode" }, what, live_before, done));
                }
            }
            Op::Touch(w, kind) => match hs[*w as usize].as_mut() {
                Some(m) => { let r = match kind {
                        TouchKind::Presize(b) => { seeded_guard(m, &p); m.begin_batch(memvid_core::types::PutManyOpts { wal_pre_size_bytes: *b, ..Default::default() }).and_then(|_| m.end_batch()) }
                        TouchKind::BeginBatch => m.begin_batch(Default::default()),
                        TouchKind::EndBatch => m.end_batch(),
                        TouchKind::Ticket => { ticket_seq += 1; m.apply_ticket(memvid_core::types::Ticket::new("verif", ticket_seq)) }
                        TouchKind::EnableLex => m.enable_lex(),
                    };
                    if let Err(e) = r { ok = false; tagv.push(format!("touch-error:{:?}:{}", kind, e)); if e.to_string().contains("Tantivy") { env_error = true; } }
                    tagv.push(format!("touch:{}", match kind { TouchKind::Presize(_) => "presize", TouchKind::BeginBatch => "begin_batch", TouchKind::EndBatch => "end_batch", TouchKind::Ticket => "apply_ticket", TouchKind::EnableLex => "enable_lex" })); }
                None => ok = false },
            Op::EnableVec(w) => match hs[*w as usize].as_mut() { Some(m) => { if let Err(e) = m.enable_vec() { ok = false; tagv.push(format!("touch-error:enable_vec:{}", e)); } tagv.push("touch:enable_vec".into()); } None => ok = false },
            Op::BigPut(w, t, size) => match hs[*w as usize].as_mut() {
                Some(m) => { let before = memvid_core::verif_hooks::wal_stats(m).0;
                    match put_sized(m, *t, *size) { Ok(_) => put_by[*w as usize].push(*t), Err(e) => { ok = false; if e.contains("Tantivy") { env_error = true; } tagv.push(format!("put-error:{}", e)); } }
                    if memvid_core::verif_hooks::wal_stats(m).0 != before { tagv.push("log-grew-inside-put".into()); seeded_guard(m, &p); } }
                None => ok = false },
            Op::Downgrade(w) => { if let Some(m) = hs[*w as usize].as_mut() { match m.downgrade_to_shared() { Ok(()) => tagv.push(format!("downgrade:read_only={}", m.is_read_only())), Err(e) => tagv.push(format!("downgrade-error:{}", e)) } } }
            Op::Probe => {
                // who holds a lock on the inode the path names right now
                let holders: Vec<u64> = live_before.iter().cloned().filter(|v| hs[*v as usize].as_ref().map(|m| ino_lock(m) == ino_before).unwrap_or(false)).collect();
                let writer_holds = holders.iter().any(|v| hs[*v as usize].as_ref().map(|m| !m.is_read_only()).unwrap_or(false));
                let kinds = ["open", "ro", "doctor", "try"];
                let ths: Vec<JoinHandle<Option<bool>>> = kinds.iter().map(|k| spawn_child(&p, k)).collect();
                for (k, th) in kinds.iter().zip(ths) {
                    let res = th.join().ok().flatten();
                    tagv.push(format!("probe-{}:{}", k, match res { Some(true) => "granted", Some(false) => "refused", None => "no-answer" }));
                    if res == Some(false) { refused += 1; }
                    if res == Some(true) && !live_before.is_empty() {
                        let exclusive = *k != "ro";
                        if holders.is_empty() { stale_seen = true; if exclusive { two_writers = true; set_viol(&mut viol, format!("inode-replaced-under-lock: a second process's {} was granted while handle(s) {:?} are alive, their locks on a replaced inode (history {:?})", k, live_before, done)); } }
                        else if exclusive { two_writers = true; set_viol(&mut viol, format!("two-writers-same-inode: a second process's {} was granted while handle(s) {:?} are alive and hold their lock descriptor on the inode the path names (history {:?})", k, holders, done)); }
                        else if writer_holds { set_viol(&mut viol, format!("lock-released-while-writer-alive: a second process's open_read_only (shared lock) was granted while writable handle(s) {:?} are alive with their lock descriptor on the path's inode: the exclusive lock is gone (history {:?})", holders, done)); }
                        if exclusive { dead = true; }   // the second writer replays / rewrites the file: nothing after this is comparable
                    }
                }
                continue;
            }
            Op::ReaderHold => {
                let rel = dir.path().join("C17-release-reader"); let _ = std::fs::remove_file(&rel);
                let exe = std::env::current_exe().expect("exe");
                match std::process::Command::new(exe).arg("C17-child").arg(&p).arg("ro-hold").arg(&rel).env("RUST_BACKTRACE", "0").stdout(std::process::Stdio::piped()).stderr(std::process::Stdio::null()).spawn() {
                    Ok(mut ch) => { use std::io::BufRead; let mut got = false;
                        if let Some(out) = ch.stdout.take() { let mut rd = std::io::BufReader::new(out); let mut line = String::new();
                            while rd.read_line(&mut line).unwrap_or(0) > 0 { if line.contains("C17CHILD OK") { got = true; break; } if line.contains("C17CHILD ERR") { break; } line.clear(); } }
                        tagv.push(format!("reader-holds:{}", got)); if !got { env_error = true; } reader = Some(ch); }
                    Err(_) => { env_error = true; } }
                continue;
            }
            Op::ReaderRelease => { let _ = std::fs::write(dir.path().join("C17-release-reader"), b"x"); if let Some(mut ch) = reader.take() { let _ = ch.wait(); } continue; }
            Op::ChildOpen => {}
        }
        let ino_after = ino_path(&p);
        if std::env::var("MV_C17_DEBUG").is_ok() { for w in 0..8 { if let Some(m) = hs[w].as_ref() { eprintln!("DBG {} after {:?}: handle {} wal_stats {:?} hdr {:?} frames {}", name, op, w, memvid_core::verif_hooks::wal_stats(m), memvid_core::verif_hooks::header_fields(m), m.frame_count()); } } }
        let live: Vec<(u64, bool)> = (0..8u64).filter_map(|w| hs[w as usize].as_ref().map(|m| (w, ino_lock(m) != ino_after))).collect();
        if live.iter().any(|(_, s)| *s) { stale_seen = true; }
        // THE PROPERTY: at most one live writable handle
        let writable = (0..8).filter(|w| hs[*w].as_ref().map(|m| !m.is_read_only()).unwrap_or(false)).count();
        if writable >= 2 {
            two_writers = true;
            let stale = live.iter().any(|(_, s)| *s);
            set_viol(&mut viol, format!("{}: {} writable handles on one path are alive after step {} of {:?} (lock inode <> path inode per handle: {:?})",
                if stale { "inode-replaced-under-lock" } else { "two-writers-same-inode" }, live.len(), done.len(), { let mut d = done.clone(); d.push(op.clone()); d }, live));
        }
        let waiter_here = (0..8).any(|w| waiting[w].is_some() && waiter_ino[w] == ino_after);
        obs.push(Obs { ok, dir_changed: ino_before != 0 && ino_after != ino_before, held: path_lock_held(&p) || waiter_here, live });
        done.push(op.clone());
    }
    // end: tables of the live handles, then close everything without committing and reopen
    let tocs: Vec<(u64, Vec<u64>)> = (0..8u64).filter_map(|w| hs[w as usize].as_ref().map(|m| (w, tags(m)))).collect();
    let _ = std::fs::write(dir.path().join("C17-release-reader"), b"x"); if let Some(mut ch) = reader.take() { let _ = ch.wait(); }
    for w in 0..8 { if let Some(h) = waiting[w].take() { if let Ok(Ok(m)) = h.join() { memvid_core::verif_hooks::drop_without_commit(m); } } }
    for w in 0..8 { if let Some(m) = hs[w].take() { memvid_core::verif_hooks::drop_without_commit(m); } }
    let fin = match Memvid::open(&p) { Ok(m) => { let t = tags(&m); memvid_core::verif_hooks::drop_without_commit(m); t } Err(e) => { tagv.push(format!("final-open-error:{}", e)); vec![] } };
    // THE CONSEQUENCE: no acknowledged commit is lost
    let lost: Vec<u64> = acked.iter().cloned().filter(|t| !fin.contains(t)).collect();
    if !lost.is_empty() {
        let class = if create_truncated { "create-truncates-before-lock" } else if stale_seen { "inode-replaced-under-lock" } else { "commit-lost" };
        let msg = format!("{}: frames {:?} were committed (Ok) and are not in the file a fresh open shows {:?} (history {:?})", class, lost, fin, done);
        if viol.is_none() { viol = Some(msg); } else { tagv.push("lost-commit".into()); }
    }
    if two_writers { tagv.push("two-live-writers".into()); }
    if stale_seen { tagv.push("lock-on-replaced-inode".into()); }
    if refused > 0 { tagv.push("refused-open".into()); }
    if !lost.is_empty() { tagv.push("lost-commit".into()); }
    Outcome { env_error, stream: if name.starts_with("oracle-") { "oracle" } else { "hist" }, ops: done, obs, tocs, fin, violation: viol, tags: tagv, two_writers, refused_opens: refused }
}

fn scripted() -> Vec<(&'static str, Vec<Op>)> {
    use Op::*;
    vec![
        // the witness of F-C17-1 and the lost commit; both opens also from a child process
        ("witness", vec![Create(0), ChildOpen, Open(1), Commit(0), ChildOpen, Open(1), Put(0, 2), Commit(0), Put(1, 3), Commit(1)]),
        ("put-before-commit", vec![Create(0), Put(0, 1), Open(1), Commit(0), Open(1), Put(1, 4), Commit(1), Open(2)]),
        ("vacuum", vec![Create(0), Put(0, 1), Doctor(5), Vacuum(0), Open(1), Vacuum(1)]),
        ("reopen", vec![Create(0), Put(0, 1), Commit(0), Drop(0), Open(0), Commit(0), Doctor(5), Open(1), Put(0, 2), Commit(0), Doctor(5)]),
        ("doctor-closed", vec![Create(0), Put(0, 1), Commit(0), Drop(0), Doctor(5), Open(0), Doctor(5), Put(0, 2), Open(1)]),
        ("doctor-live", vec![Create(0), Doctor(5), Commit(0), Doctor(5), Commit(0), Vacuum(0), Commit(0), Doctor(5)]),
        ("vacuum-drop", vec![Create(0), Put(0, 1), Vacuum(0), Drop(0), Open(0), Vacuum(0), Open(1), Kill(0), Drop(1)]),
        // oracle only (not compared with the model): after a doctor ran on the inode a live handle writes to, that handle's next put + commit is acknowledged and lost
        ("oracle-doctor-live-put", vec![Create(0), Commit(0), Doctor(5), Put(0, 1), Commit(0)]),
        ("waiter", vec![Create(0), OpenFd(1), OpenLock(1), Put(0, 1), Commit(0), OpenLock(1), Put(0, 2), Commit(0), Drop(0), OpenLock(1), Put(1, 3), Commit(1), Drop(1)]),
        ("waiter-drop", vec![Create(0), OpenFd(1), OpenLock(1), Drop(0), OpenLock(1), Open(2), Put(1, 1), Commit(1), Put(2, 2), Commit(2)]),
        ("kill", vec![Create(0), Put(0, 1), Kill(0), Open(1), Doctor(5), Put(1, 2), Kill(1), Open(0), Open(2)]),
        ("three", vec![Create(0), Commit(0), Open(1), Put(1, 5), Commit(1), Open(2), Put(2, 6), Commit(2), Put(0, 7), Commit(0), Drop(1), Drop(2)]),
        ("failed-create", vec![Create(0), Put(0, 7), Put(0, 8), Create(1)]),
        ("waiter-kill", vec![Create(0), Put(0, 1), OpenFd(1), OpenLock(1), Kill(0), OpenLock(1), Put(1, 2), Commit(1), Doctor(5), Open(2)]),
        // lock state before the first writer's first commit: every operation that rewrites the file in place, then a second process knocks
        ("presize", vec![Create(0), Touch(0, TouchKind::Presize(262_144)), Probe, Open(1), Put(0, 1), Commit(0)]),
        ("batch-growth", vec![Create(0), Touch(0, TouchKind::BeginBatch), BigPut(0, 1, 40_000), BigPut(0, 2, 40_000), Touch(0, TouchKind::EndBatch), Probe, Commit(0), Open(1)]),
        ("big-put", vec![Create(0), BigPut(0, 1, 70_000), Probe, Put(0, 2), Open(1)]),
        ("enable-vec", vec![Create(0), EnableVec(0), Touch(0, TouchKind::EnableLex), Probe, Drop(0), Open(1)]),
        ("ticket", vec![Create(0), Touch(0, TouchKind::Ticket), Put(0, 1), Probe, Kill(0), Open(1)]),
        ("reopen-presize", vec![Create(0), Put(0, 1), Commit(0), Drop(0), Open(0), Touch(0, TouchKind::Presize(262_144)), Probe, Put(0, 2), Touch(0, TouchKind::BeginBatch), BigPut(0, 3, 300_000), Touch(0, TouchKind::EndBatch), Probe]),
        ("oracle-downgrade", vec![Create(0), Put(0, 1), Commit(0), Drop(0), Open(0), Downgrade(0), Probe, Put(0, 2), Probe]),
        // a reader in another process keeps the shared lock while the downgraded writer A tries to upgrade (refused after 10 s); B opens; A writes again (must be refused)
        ("oracle-failed-upgrade", vec![Create(0), Put(0, 1), Commit(0), Drop(0), Open(0), Downgrade(0), ReaderHold, Put(0, 2), ReaderRelease, Open(1), Put(0, 3), Put(1, 4), Commit(1)]),
        ("replay-on-open", vec![Create(0), Put(0, 1), Kill(0), Open(1), ChildOpen, Open(2), Put(1, 2), Commit(1), Put(2, 3), Commit(2)]),
    ]
}

/// random history: at most one refused blocking open (10 s) as far as a shadow of who holds what can tell
fn random_history(r: &mut Rng) -> Vec<Op> {
    use Op::*;
    let mut ops = vec![Create(0)];
    // shadow state: live handle -> (its lock is on the inode the path names, dirty); path_log: the path's file has log records
    let mut live: Vec<(u64, bool, bool)> = vec![(0, true, false)]; let mut noput: Vec<u64> = vec![]; let mut closed_doctor = false;
    let mut path_log = false; let mut first_commit_pending = true;
    let mut next_tag = 10; let mut budget_refused = 1; let mut next_id = 1u64; let mut presize = 65_536u64;
    let n = r.range(5, 11);
    for _ in 0..n {
        let path_locked = live.iter().any(|(_, on, _)| *on);
        let k = r.below(14);
        match k {
            0..=2 if !live.is_empty() => { let i = r.below(live.len() as u64) as usize; if noput.contains(&live[i].0) { continue; } ops.push(Put(live[i].0, next_tag)); next_tag += 1; live[i].2 = true; path_log = true; }
            3..=4 if !live.is_empty() => { let i = r.below(live.len() as u64) as usize; let w = live[i].0; let vac = r.chance(1, 4) && live.len() == 1; // vacuum's in-place phase on an inode shared with another live handle is not modelled ops.push(if vac { Vacuum(w) } else { Commit(w) });
                if live[i].2 || path_log || (w == 0 && first_commit_pending) { for l in live.iter_mut() { l.1 = false; } live[i].2 = false; path_log = false; }
                if w == 0 { first_commit_pending = false; } }
            5..=7 if next_id < 5 => {
                if path_locked { if budget_refused == 0 { continue; } budget_refused -= 1; ops.push(Open(next_id)); }
                else { ops.push(Open(next_id)); if path_log { for l in live.iter_mut() { l.1 = false; } live.push((next_id, false, false)); path_log = false; } else { live.push((next_id, true, false)); } }
                next_id += 1; }
            12 if !live.is_empty() => { let i = r.below(live.len() as u64) as usize; let w = live[i].0; if noput.contains(&w) { continue; }
                match r.below(4) { 0 => { presize *= 2; ops.push(Touch(w, TouchKind::Presize(presize))); } 1 => ops.push(Touch(w, TouchKind::Ticket)), 2 => ops.push(Touch(w, TouchKind::EnableLex)), _ => { ops.push(Touch(w, TouchKind::BeginBatch)); ops.push(Touch(w, TouchKind::EndBatch)); } } }
            13 if !live.is_empty() => { let i = r.below(live.len() as u64) as usize; let w = live[i].0; if noput.contains(&w) { continue; } ops.push(EnableVec(w)); live[i].2 = true; }
            8 if !live.is_empty() => { let i = r.below(live.len() as u64) as usize; let (w, _, d) = live.remove(i); ops.push(Drop(w)); if d { for l in live.iter_mut() { l.1 = false; } path_log = false; } }
            9 if !live.is_empty() => { let i = r.below(live.len() as u64) as usize;
                // a created, never committed memory killed with an empty log: the next open flushes the index into the log in place (not modelled)
                if live[i].0 == 0 && first_commit_pending && !live[i].2 { continue; }
                let (w, _, _) = live.remove(i); ops.push(Kill(w)); }
            _ => { if live.is_empty() { if closed_doctor { continue; } closed_doctor = true; }
                   ops.push(Doctor(5)); if !path_locked { for l in live.iter_mut() { l.1 = false; noput.push(l.0); } path_log = false; } }
        }
        // keep each handle's put -> commit adjacent once two handles are alive or a lock may sit on a replaced inode
        // (two handles can then write one inode's log region; the model's log is positional)
        if live.len() >= 2 || live.iter().any(|l| !l.1) { if let Some(Put(w, _)) = ops.last().cloned() { ops.push(Commit(w)); if let Some(l) = live.iter_mut().find(|l| l.0 == w) { l.2 = false; } for l in live.iter_mut() { l.1 = false; } path_log = false; } }
    }
    ops
}

fn emit_outcome(w: &mut dyn std::io::Write, o: &Outcome) {
    let input = T::L(o.ops.iter().filter_map(|op| op.term()).collect());
    let obs = T::L(o.obs.iter().map(|b| T::Tup(vec![T::B(b.ok), T::B(b.dir_changed), T::B(b.held), T::L(b.live.iter().map(|(w, s)| T::Tup(vec![T::N(*w as u128), T::B(*s)])).collect())])).collect());
    let tocs = T::L(o.tocs.iter().map(|(w, t)| T::Tup(vec![T::N(*w as u128), T::L(t.iter().map(|x| T::N(*x as u128)).collect())])).collect());
    let fin = T::L(o.fin.iter().map(|x| T::N(*x as u128)).collect());
    let key = blake3::hash(format!("{:?}", o.ops).as_bytes()).to_hex()[..16].to_string();
    let nontrivial = o.refused_opens > 0 || o.two_writers || o.obs.iter().any(|b| !b.ok);
    emit(w, o.stream, &Case { input, output: T::Tup(vec![obs, tocs, fin]), violation: o.violation.clone(), nontrivial, tags: o.tags.clone(), key });
}

pub fn run(seed: u64, n: usize, w: &mut dyn std::io::Write) {
    let mut r = Rng::new(seed ^ 0xC17);
    let mut jobs: Vec<(String, Vec<Op>)> = scripted().into_iter().map(|(n, o)| (n.to_string(), o)).collect();
    if let Ok(only) = std::env::var("MV_C17_ONLY") { jobs.retain(|j| j.0 == only); }
    // corpus seed: the histories that caught a seeded lock release (log pre-sizing / growth before the first commit) run first and alone
    let corpus = seed == 17001;
    if corpus { jobs.retain(|j| j.0 == "presize" || j.0 == "batch-growth" || j.0 == "oracle-failed-upgrade"); }
    if !corpus { for i in 0..n.saturating_sub(jobs.len()) { jobs.push((format!("random{}", i), random_history(&mut r))); } }
    // all histories in parallel (a refused open sleeps 10 s), 12 at a time (more concurrent Tantivy writers than that fail to start in this sandbox)
    let mut outs: Vec<Outcome> = vec![];
    for chunk in jobs.chunks(12) {
        let hs: Vec<JoinHandle<Outcome>> = chunk.iter().cloned().map(|(name, ops)| std::thread::spawn(move || { let mut o = run_history(&name, &ops); let mut tries = 0; while o.env_error && tries < 3 { tries += 1; eprintln!("C17 retry {} of {}: {:?}", tries, name, o.tags.iter().filter(|t| t.contains("error")).collect::<Vec<_>>()); o = run_history(&name, &ops); o.tags.push("retried-after-environment-error".into()); }
            if o.env_error { o.stream = "oracle"; o.violation = None; o.tags.push("environment-error-not-compared".into()); } o })).collect();
        for h in hs { match h.join() { Ok(o) => outs.push(o), Err(_) => eprintln!("history thread panicked") } }
    }
    for o in &outs { emit_outcome(w, o); }
    if !corpus && std::env::var("MV_C17_ONLY").is_err() { emit(w, "strace", &strace_writer()); }
}
