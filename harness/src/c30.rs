//! C30 file-format codecs: header, time index, TOC (bincode) -- round trip and rejection.
use crate::term::*;
use memvid_core::clip::ClipIndexManifest;
use memvid_core::error::MemvidError;
use memvid_core::io::header::HeaderCodec;
use memvid_core::io::time_index::{append_track, calculate_checksum, read_track, TimeIndexEntry};
use memvid_core::replay::ReplayManifest;
use memvid_core::types::common::{CanonicalEncoding, EnrichmentState, EnrichmentTask, FrameRole, FrameStatus};
use memvid_core::types::frame::{AnchorSource, Frame};
use memvid_core::types::manifest::*;
use memvid_core::types::metadata::*;
use memvid_core::types::ticket::TicketRef;
use std::collections::BTreeMap;
use std::io::Cursor;
use std::panic::{catch_unwind, AssertUnwindSafe};

fn panic_t() -> T { T::C("Panic", vec![T::N(0)]) }
fn ok_t(t: T) -> T { T::C("Ok", vec![t]) }
fn err_t(k: u128) -> T { T::C("Err", vec![T::N(k)]) }
fn key_of(parts: &[&[u8]]) -> String {
    let mut h = blake3::Hasher::new();
    for p in parts { h.update(&(p.len() as u64).to_le_bytes()); h.update(p); }
    h.finalize().to_hex()[..16].to_string()
}
fn edge_u64(r: &mut Rng) -> u64 {
    match r.below(12) {
        0 => 0, 1 => 1, 2 => u64::MAX, 3 => u64::MAX - 1, 4 => 1 << 63, 5 => (1 << 63) - 1, 6 => 255, 7 => 256,
        8 => r.below(1 << 16), 9 => r.below(1 << 32), _ => r.next(),
    }
}

// =====================================================================================
// header
// =====================================================================================
const MAGIC: [u8; 4] = *b"MV2\0";

fn header_err_kind(e: &MemvidError) -> u128 {
    match e {
        MemvidError::InvalidHeader { reason } => {
            let s: &str = reason.as_ref();
            if s.contains("magic") { 1 } else if s.contains("version") { 2 } else if s.contains("spec byte") { 3 }
            else if s.contains("wal_offset") { 4 } else if s.contains("wal_size") { 5 } else if s.contains("truncated") { 6 } else { 99 }
        }
        MemvidError::Io { .. } => 9,
        _ => 98,
    }
}

fn header_t(h: &Header) -> T {
    T::Tup(vec![T::H(h.magic.to_vec()), T::N(h.version as u128), T::N(h.footer_offset as u128), T::N(h.wal_offset as u128),
                T::N(h.wal_size as u128), T::N(h.wal_checkpoint_pos as u128), T::N(h.wal_sequence as u128), T::H(h.toc_checksum.to_vec())])
}

fn gen_header(r: &mut Rng) -> (Header, Vec<String>) {
    let mut tags = vec![];
    let mut h = Header {
        magic: MAGIC, version: 0x0201,
        footer_offset: edge_u64(r),
        wal_offset: match r.below(6) { 0 => 4096, 1 => 4097, 2 => u64::MAX, _ => 4096 + edge_u64(r) / 2 },
        wal_size: match r.below(5) { 0 => 1, 1 => u64::MAX, _ => edge_u64(r).max(1) },
        wal_checkpoint_pos: edge_u64(r), wal_sequence: edge_u64(r),
        toc_checksum: { let mut c = [0u8; 32]; let b = r.bytes(32); c.copy_from_slice(&b); if r.chance(1, 6) { c = [0; 32]; } c },
    };
    match r.below(12) {
        0 => { let i = r.below(4) as usize; h.magic[i] ^= 1 << r.below(8); tags.push("bad-magic".into()); }
        1 => { h.version = *r.pick(&[0u16, 0x0200, 0x0202, 0x0102, 0x0301, 0xFFFF, 0x0201 ^ (1 << 9)]); tags.push("bad-version".into()); }
        2 => { h.wal_offset = *r.pick(&[0u64, 1, 4095, 4000, 2048]); tags.push("low-wal-offset".into()); }
        3 => { h.wal_size = 0; tags.push("zero-wal-size".into()); }
        4 => { h.magic = *b"BAD!"; h.version = 7; h.wal_size = 0; h.wal_offset = 0; tags.push("all-bad".into()); }
        _ => { tags.push("valid".into()); }
    }
    (h, tags)
}

fn header_valid_ref(h: &Header) -> bool { h.magic == MAGIC && h.version == 0x0201 && h.wal_offset >= 4096 && h.wal_size != 0 }
/// the decode-side checks, straight from the property text (magic, version, spec bytes, wal fields)
fn image_valid_ref(b: &[u8]) -> bool {
    b.len() == 4096 && b[0..4] == MAGIC && b[4] == 1 && b[5] == 2 && b[6] == 2 && b[7] == 1
        && u64::from_le_bytes(b[16..24].try_into().unwrap()) >= 4096 && u64::from_le_bytes(b[24..32].try_into().unwrap()) != 0
}

fn header_streams(r: &mut Rng, n: usize, w: &mut dyn std::io::Write) {
    // (1) encode, then decode of the encoding
    for _ in 0..n {
        let (h, mut tags) = gen_header(r);
        let enc = catch_unwind(AssertUnwindSafe(|| HeaderCodec::encode(&h)));
        let mut viol = None;
        let out = match &enc {
            Err(_) => { viol = Some("header-encode-panic: HeaderCodec::encode panicked".to_string()); panic_t() }
            Ok(Err(e)) => {
                if header_valid_ref(&h) { viol = Some(format!("header-encode-rejects-valid: {:?}", e)); }
                err_t(header_err_kind(e))
            }
            Ok(Ok(b)) => {
                if !header_valid_ref(&h) { viol = Some("header-encode-accepts-invalid: encode accepted a header with wrong magic/version/wal fields".to_string()); }
                match HeaderCodec::decode(b) {
                    Ok(d) => {
                        if (d.magic, d.version, d.footer_offset, d.wal_offset, d.wal_size, d.wal_checkpoint_pos, d.wal_sequence, d.toc_checksum)
                            != (h.magic, h.version, h.footer_offset, h.wal_offset, h.wal_size, h.wal_checkpoint_pos, h.wal_sequence, h.toc_checksum) {
                            viol = Some("header-roundtrip: decode(encode(h)) differs from h".to_string());
                        }
                    }
                    Err(e) => { viol = Some(format!("header-roundtrip: decode(encode(h)) failed: {:?}", e)); }
                }
                let tail_zero = b[80..].iter().all(|x| *x == 0);
                ok_t(T::Tup(vec![T::H(b[..80].to_vec()), T::N(b.len() as u128), T::B(tail_zero)]))
            }
        };
        tags.push(if matches!(enc, Ok(Ok(_))) { "enc-ok".into() } else { "enc-err".into() });
        let input = header_t(&h);
        let key = key_of(&[input.coq().as_bytes()]);
        emit(w, "henc", &Case { input, output: out, violation: viol, nontrivial: true, tags, key });
    }
    // (2) decode / read of images: valid encodings with one field damaged, padding junk, legacy lock bytes, short files
    for _ in 0..n {
        let (mut h, _) = gen_header(r);
        if !header_valid_ref(&h) { h = Header { magic: MAGIC, version: 0x0201, wal_offset: 4096 + r.below(100), wal_size: 1 + r.below(1 << 20), ..h }; }
        let mut img = HeaderCodec::encode(&h).expect("valid header").to_vec();
        let mut tags: Vec<String> = vec![];
        let pad: u8 = if r.chance(1, 3) { r.next() as u8 } else { 0 };
        if pad != 0 { for x in img[160..].iter_mut() { *x = pad; } tags.push("padding-junk".into()); }
        match r.below(14) {
            0 => { let i = r.below(4) as usize; img[i] ^= 1 << r.below(8); tags.push("m-magic".into()); }
            1 => { let i = 4 + r.below(2) as usize; img[i] ^= 1 << r.below(8); tags.push("m-version".into()); }
            2 => { let i = 6 + r.below(2) as usize; img[i] ^= 1 << r.below(8); tags.push("m-spec".into()); }
            3 => { let v: u64 = *r.pick(&[0u64, 1, 4095, 4000]); img[16..24].copy_from_slice(&v.to_le_bytes()); tags.push("m-wal-offset".into()); }
            4 => { img[24..32].copy_from_slice(&0u64.to_le_bytes()); tags.push("m-wal-size".into()); }
            5 => { let i = r.range(8, 79) as usize; img[i] ^= 1 << r.below(8); tags.push("m-field-bit".into()); }
            6 => { let i = r.range(80, 139) as usize; img[i] = 1 + r.below(255) as u8; tags.push("legacy-lock".into()); }
            7 => { for x in img[80..140].iter_mut() { *x = 0xAA; } tags.push("legacy-lock-full".into()); }
            8 => { let i = r.range(140, 159) as usize; img[i] = 1 + r.below(255) as u8; tags.push("pad-140".into()); }
            9 => { let b = r.bytes(80); img[..80].copy_from_slice(&b); tags.push("random-80".into()); }
            _ => { tags.push("intact".into()); }
        }
        // file = image (+ tail) or cut short
        let mut file = img.clone();
        match r.below(8) {
            0 => { let k = r.below(4096) as usize; file.truncate(k); tags.push("short-file".into()); }
            1 => { let k = r.below(40) as usize; file.extend(std::iter::repeat(pad).take(k)); tags.push("long-file".into()); }
            _ => {}
        }
        // decode on the 4096-byte buffer
        let dec_out = if file.len() >= 4096 {
            let arr: [u8; 4096] = file[..4096].try_into().unwrap();
            match catch_unwind(AssertUnwindSafe(|| HeaderCodec::decode(&arr))) {
                Err(_) => panic_t(),
                Ok(Ok(d)) => ok_t(header_t(&d)),
                Ok(Err(e)) => err_t(header_err_kind(&e)),
            }
        } else { err_t(6) };
        // read through a cursor (scrubs legacy bytes in place)
        let mut cur = Cursor::new(file.clone());
        let rd = catch_unwind(AssertUnwindSafe(|| HeaderCodec::read(&mut cur)));
        let after = cur.into_inner();
        let mut viol = None;
        let rd_out = match &rd {
            Err(_) => { viol = Some("header-read-panic: HeaderCodec::read panicked".to_string()); panic_t() }
            Ok(Ok(d)) => {
                let mut scrubbed = file[..4096].to_vec(); for x in scrubbed[80..140].iter_mut() { *x = 0; }
                if !image_valid_ref(&scrubbed) { viol = Some("header-accepts-inconsistent: read accepted an image with wrong magic/version/spec/wal fields".to_string()); }
                else {
                    // accepted image must be the canonical image of the returned value on bytes 0..80
                    match HeaderCodec::encode(d) { Ok(b2) if b2[..80] == file[..80] => {}, _ => { viol = Some("header-decode-noncanonical: accepted image does not re-encode to itself on bytes 0..80".to_string()); } }
                }
                ok_t(header_t(d))
            }
            Ok(Err(e)) => {
                if file.len() >= 4096 && image_valid_ref(&file[..4096]) { viol = Some(format!("header-rejects-valid: read rejected a consistent image: {:?}", e)); }
                err_t(header_err_kind(e))
            }
        };
        let npre = 160.min(file.len());
        let input = T::Tup(vec![T::H(file[..npre].to_vec()), T::N(pad as u128), T::Nat(file.len() as u64)]);
        // the file is prefix ++ repeat pad; that is only true when nothing beyond 160 differs from pad: enforce
        let expect: Vec<u8> = file.iter().enumerate().map(|(i, x)| if i < npre { *x } else { pad }).collect();
        if expect != file {
            // tail bytes appended at the end differ from pad: fall back to an all-explicit prefix when short enough, else skip
            continue;
        }
        let a_npre = 160.min(after.len());
        let output = T::Tup(vec![dec_out, rd_out, T::H(after[..a_npre].to_vec()), T::Nat(after.len() as u64)]);
        tags.push(if matches!(rd, Ok(Ok(_))) { "read-ok".into() } else { "read-err".into() });
        let key = key_of(&[&file]);
        emit(w, "hdec", &Case { input, output, violation: viol, nontrivial: file.len() >= 4096, tags, key });
    }
}

// =====================================================================================
// time index
// =====================================================================================
fn ti_err_kind(e: &MemvidError) -> u128 {
    match e {
        MemvidError::InvalidTimeIndex { reason } => {
            let s: &str = reason.as_ref();
            if s.contains("magic") { 1 } else if s.contains("shorter") { 2 } else if s.contains("overflow") { 3 }
            else if s.contains("declared count") { 4 } else if s.contains("not sorted") { 5 } else if s.contains("too large") { 6 } else { 99 }
        }
        MemvidError::Io { .. } => 9,
        _ => 98,
    }
}
fn entry_t(e: &TimeIndexEntry) -> T { T::Tup(vec![T::Z(e.timestamp as i128), T::N(e.frame_id as u128)]) }

fn gen_entries(r: &mut Rng) -> Vec<TimeIndexEntry> {
    let n = match r.below(10) { 0 => 0, 1 => 1, 2..=6 => r.range(2, 8), 7..=8 => r.range(8, 30), _ => r.range(30, 90) } as usize;
    let style = r.below(5);
    (0..n).map(|_| {
        let ts: i64 = match style {
            0 => r.below(4) as i64,                                    // many ties
            1 => r.below(7) as i64 - 3,                                // negatives and ties
            2 => *r.pick(&[i64::MIN, i64::MAX, -1, 0, 1, i64::MIN + 1, i64::MAX - 1]),
            3 => 1_700_000_000 + r.below(1000) as i64,
            _ => r.next() as i64,
        };
        let id: u64 = match r.below(6) { 0 => 0, 1 => u64::MAX, 2 => r.below(3), _ => r.below(50) };
        TimeIndexEntry::new(ts, id)
    }).collect()
}

fn time_index_streams(r: &mut Rng, n: usize, w: &mut dyn std::io::Write) {
    // (1) append then read
    for _ in 0..n {
        let entries = gen_entries(r);
        let npre_ = r.below(40) as usize; let pre = r.bytes(npre_);
        let pos = match r.below(4) { 0 => r.below(pre.len() as u64 + 1), 1 => pre.len() as u64 + r.below(6), _ => pre.len() as u64 };
        let mut cur = Cursor::new(pre.clone());
        cur.set_position(pos);
        let mut work = entries.clone();
        let res = catch_unwind(AssertUnwindSafe(|| append_track(&mut cur, &mut work)));
        let mut viol = None;
        let mut tags = vec![format!("n{}", match entries.len() { 0 => "0", 1 => "1", 2..=8 => "2-8", _ => "9+" })];
        if pos < pre.len() as u64 { tags.push("overwrite".into()); } else if pos > pre.len() as u64 { tags.push("gap".into()); }
        let (output, table) = match res {
            Err(_) => { viol = Some("ti-append-panic: append_track panicked".to_string()); (panic_t(), vec![]) }
            Ok(Err(e)) => { viol = Some(format!("ti-append-error: {:?}", e)); (err_t(ti_err_kind(&e)), vec![]) }
            Ok(Ok((off, len, cks))) => {
                let file = cur.get_ref().clone();
                let img = file[off as usize..(off + len) as usize].to_vec();
                let rd = read_track(&mut cur, off, len);
                let mut sorted = entries.clone();
                sorted.sort_by(|a, b| (a.timestamp, a.frame_id).cmp(&(b.timestamp, b.frame_id)));
                match &rd {
                    Ok(back) => { if *back != sorted { viol = Some("ti-roundtrip: read_track(append_track(es)) is not the sorted entry list".to_string()); } }
                    Err(e) => { viol = Some(format!("ti-roundtrip: read_track rejected what append_track wrote: {:?}", e)); }
                }
                if work != sorted && viol.is_none() { viol = Some("ti-sort: the caller's slice is not sorted after append_track".to_string()); }
                if cks != *blake3::hash(&img).as_bytes() && viol.is_none() { viol = Some("ti-checksum: returned checksum is not BLAKE3 of the written track".to_string()); }
                if cks != calculate_checksum(&entries) && viol.is_none() { viol = Some("ti-checksum: calculate_checksum(entries) differs from append_track's checksum".to_string()); }
                let rd_t = match &rd { Ok(b) => ok_t(T::L(b.iter().map(entry_t).collect())), Err(e) => err_t(ti_err_kind(e)) };
                (T::Tup(vec![T::N(off as u128), T::N(len as u128), T::H(cks.to_vec()), T::H(file), T::L(work.iter().map(entry_t).collect()), rd_t]),
                 vec![(img.clone(), cks.to_vec())])
            }
        };
        let input = T::Tup(vec![T::H(pre.clone()), T::Nat(pos), T::L(entries.iter().map(entry_t).collect()),
                                T::L(table.iter().map(|(k, d)| T::Tup(vec![T::H(k.clone()), T::H(d.clone())])).collect())]);
        let key = key_of(&[input.coq().as_bytes()]);
        emit(w, "tiapp", &Case { input, output, violation: viol, nontrivial: entries.len() >= 2, tags, key });
    }
    // (2) read of damaged tracks
    for _ in 0..n {
        let mut entries = gen_entries(r);
        entries.sort_by(|a, b| (a.timestamp, a.frame_id).cmp(&(b.timestamp, b.frame_id)));
        let npre_ = r.below(12) as usize; let pre = r.bytes(npre_);
        let mut img: Vec<u8> = Vec::new();
        img.extend_from_slice(b"MVTI");
        img.extend_from_slice(&(entries.len() as u64).to_le_bytes());
        for e in &entries { img.extend_from_slice(&e.timestamp.to_le_bytes()); img.extend_from_slice(&e.frame_id.to_le_bytes()); }
        let mut off = pre.len() as u64;
        let mut len = img.len() as u64;
        let mut tags: Vec<String> = vec![];
        let mut expect_reject = false;   // the image (with this length) is inconsistent in one of the ways the property names
        let mut capacity = false;
        let mut truncated = false;
        match r.below(16) {
            0 => { let i = r.below(4) as usize; img[i] ^= 1 << r.below(8); tags.push("m-magic".into()); expect_reject = true; }
            1 => { let c = entries.len() as u64; let c2 = if r.chance(1, 2) { c + 1 + r.below(3) } else { c.saturating_sub(1 + r.below(2)) }; if c2 != c { img[4..12].copy_from_slice(&c2.to_le_bytes()); expect_reject = true; } tags.push("m-count".into()); }
            2 => { let d = 1 + r.below(20); len = if r.chance(1, 2) { len + d } else { len.saturating_sub(d) }; tags.push("m-length".into()); expect_reject = len != img.len() as u64; }
            3 => { len = r.below(12); tags.push("m-length-lt12".into()); expect_reject = true; }
            4 => { if entries.len() >= 2 { let i = r.below(entries.len() as u64 - 1) as usize; let (a, b) = (12 + 16 * i, 12 + 16 * (i + 1));
                       let (x, y): (Vec<u8>, Vec<u8>) = (img[a..a + 16].to_vec(), img[b..b + 16].to_vec());
                       if x != y { img[a..a + 16].copy_from_slice(&y); img[b..b + 16].copy_from_slice(&x); expect_reject = true; } }
                   tags.push("m-swap-neighbours".into()); }
            5 => { if !entries.is_empty() { let i = 12 + r.below(16 * entries.len() as u64) as usize; img[i] ^= 1 << r.below(8); } tags.push("m-entry-bit".into()); }
            6 => { let k = r.below(img.len() as u64) as usize; img.truncate(k); tags.push("m-truncated-file".into()); truncated = true; }
            7 => { let c: u64 = *r.pick(&[1u64 << 60, u64::MAX, (1 << 60) + 5, u64::MAX / 16 + 1]); img[4..12].copy_from_slice(&c.to_le_bytes()); len = *r.pick(&[12u64, 28, u64::MAX]); tags.push("m-count-overflow".into()); expect_reject = true; }
            8 => { // count needs more than isize::MAX bytes and the length matches it: Vec::with_capacity
                   let rnd_ = r.below(1 << 20); let c: u64 = *r.pick(&[1u64 << 59, (1 << 59) + 1, (1 << 60) - 1, (1u64 << 59) + rnd_]);
                   img[4..12].copy_from_slice(&c.to_le_bytes()); len = 12 + c * 16; tags.push("m-count-capacity".into()); expect_reject = true; capacity = true; }
            9 => { off += 1 + r.below(5); tags.push("m-offset".into()); }
            10 => { off = pre.len() as u64 + img.len() as u64 + r.below(10); tags.push("m-offset-eof".into()); expect_reject = true; }
            _ => { tags.push("intact".into()); }
        }
        let mut file = pre.clone(); file.extend(&img); let ntail_ = r.below(20) as usize; file.extend(r.bytes(ntail_));
        // a cut track is inconsistent when the store ends before offset + length (the tail bytes may refill it otherwise)
        if truncated && (file.len() as u64) < off + len { expect_reject = true; }
        let mut cur = Cursor::new(file.clone());
        let res = catch_unwind(AssertUnwindSafe(|| read_track(&mut cur, off, len)));
        let mut viol = None;
        let output = match &res {
            Err(_) => {
                // (repaired by b6c8721; the input class is still generated and a panic on it is a plain violation)
                viol = Some(if capacity { format!("ti-read-panic: read_track panicked instead of returning Err for count {} with matching length {}", u64::from_le_bytes(img[4..12].try_into().unwrap()), len) }
                            else { "ti-read-panic: read_track panicked".to_string() });
                panic_t()
            }
            Ok(Ok(es)) => {
                if expect_reject { viol = Some(format!("ti-accepts-inconsistent: read_track accepted a damaged track ({})", tags.join(","))); }
                else {
                    // accepted => sorted, and the bytes are exactly the image of the returned list with the declared length
                    let ok_sorted = es.windows(2).all(|p| (p[0].timestamp, p[0].frame_id) <= (p[1].timestamp, p[1].frame_id));
                    let mut re: Vec<u8> = Vec::new(); re.extend_from_slice(b"MVTI"); re.extend_from_slice(&(es.len() as u64).to_le_bytes());
                    for e in es { re.extend_from_slice(&e.timestamp.to_le_bytes()); re.extend_from_slice(&e.frame_id.to_le_bytes()); }
                    let o = off as usize;
                    if !ok_sorted || len != re.len() as u64 || file.len() < o + re.len() || file[o..o + re.len()] != re[..] {
                        viol = Some("ti-accepts-inconsistent: accepted track is not the sorted image of the returned entries".to_string());
                    }
                }
                ok_t(T::L(es.iter().map(entry_t).collect()))
            }
            Ok(Err(e)) => {
                if tags[0] == "intact" { viol = Some(format!("ti-rejects-valid: read_track rejected an intact track: {:?}", e)); }
                err_t(ti_err_kind(e))
            }
        };
        tags.push(match &res { Ok(Ok(_)) => "ok".into(), Ok(Err(_)) => "err".into(), Err(_) => "panic".into() });
        let input = T::Tup(vec![T::H(file.clone()), T::Nat(off), T::N(len as u128)]);
        let key = key_of(&[&file, &off.to_le_bytes(), &len.to_le_bytes()]);
        emit(w, "tiread", &Case { input, output, violation: viol, nontrivial: true, tags, key });
    }
}

// =====================================================================================
// TOC: values <-> `value` terms of Model/Bincode.v
// =====================================================================================
/// long byte strings as a list of short hex literals (a 60k-character Coq string literal is a 60k-deep term)
fn big_h(b: &[u8]) -> T {
    let chunks: Vec<T> = b.chunks(512).map(|c| { let mut h = String::with_capacity(1024); for x in c { h.push_str(&format!("{:02x}", x)); } T::S(h) }).collect();
    T::C("hexs", vec![T::L(chunks)])
}
fn vn(n: u128) -> T { T::C("VN", vec![T::N(n)]) }
fn vlist(v: Vec<T>) -> T { T::C("VList", vec![T::L(v)]) }
fn vstr(b: &[u8]) -> T { T::C("VStr", vec![T::H(b.to_vec())]) }

trait G: Sized { fn g(r: &mut Rng) -> Self; fn v(&self) -> T; }

impl G for u8 { fn g(r: &mut Rng) -> Self { *r.pick(&[0u8, 1, 2, 127, 128, 255]) } fn v(&self) -> T { vn(*self as u128) } }
impl G for u16 { fn g(r: &mut Rng) -> Self { *r.pick(&[0u16, 1, 32, 64, 96, 255, 256, 65535]) } fn v(&self) -> T { vn(*self as u128) } }
impl G for u32 { fn g(r: &mut Rng) -> Self { match r.below(6) { 0 => 0, 1 => u32::MAX, 2 => 1, 3 => 384, _ => r.next() as u32 } } fn v(&self) -> T { vn(*self as u128) } }
impl G for u64 { fn g(r: &mut Rng) -> Self { edge_u64(r) } fn v(&self) -> T { vn(*self as u128) } }
impl G for usize { fn g(r: &mut Rng) -> Self { edge_u64(r) as usize } fn v(&self) -> T { vn(*self as u128) } }
impl G for i64 {
    fn g(r: &mut Rng) -> Self { match r.below(8) { 0 => 0, 1 => -1, 2 => i64::MIN, 3 => i64::MAX, 4 => 1_700_000_000, 5 => -(r.below(1000) as i64), _ => r.next() as i64 } }
    fn v(&self) -> T { T::C("VZ", vec![T::Z(*self as i128)]) }
}
impl G for bool { fn g(r: &mut Rng) -> Self { r.chance(1, 2) } fn v(&self) -> T { T::C("VB", vec![T::B(*self)]) } }
impl G for f32 {
    fn g(r: &mut Rng) -> Self { match r.below(7) { 0 => 0.0, 1 => -0.0, 2 => f32::NAN, 3 => f32::INFINITY, 4 => 1.5, 5 => f32::from_bits(0x7fc0_0001), _ => f32::from_bits(r.next() as u32) } }
    fn v(&self) -> T { vn(self.to_bits() as u128) }
}
impl G for f64 {
    fn g(r: &mut Rng) -> Self { match r.below(6) { 0 => 0.0, 1 => -0.0, 2 => f64::NAN, 3 => 48.8566, 4 => f64::NEG_INFINITY, _ => f64::from_bits(r.next()) } }
    fn v(&self) -> T { vn(self.to_bits() as u128) }
}
impl G for String {
    fn g(r: &mut Rng) -> Self {
        let n = match r.below(10) { 0 => 0, 1..=6 => r.range(1, 8), 7..=8 => r.range(8, 30), _ => r.range(30, 200) } as usize;
        let style = r.below(5);
        (0..n).map(|_| match style {
            0 | 1 => (b'a' + r.below(26) as u8) as char,
            2 => *r.pick(&['a', 'Z', ' ', '/', ':', '"', '\\', '\n', '\0', '\u{7f}']),
            3 => *r.pick(&['é', 'ß', 'ж', '中', '日', '\u{FB01}', '😀', '\u{10FFFF}', '\u{800}', '\u{FFFF}', '\u{D7FF}', '\u{E000}', 'x']),
            _ => char::from_u32(r.below(0x11_0000) as u32).unwrap_or('?'),
        }).collect()
    }
    fn v(&self) -> T { vstr(self.as_bytes()) }
}
impl G for [u8; 32] {
    fn g(r: &mut Rng) -> Self { let mut a = [0u8; 32]; match r.below(4) { 0 => {}, 1 => { a = [0xFF; 32]; } _ => { let b = r.bytes(32); a.copy_from_slice(&b); } } a }
    fn v(&self) -> T { vstr(&self[..]) }
}
impl<X: G> G for Option<X> {
    fn g(r: &mut Rng) -> Self { if r.chance(1, 2) { Some(X::g(r)) } else { None } }
    fn v(&self) -> T { match self { None => T::C("VNone", vec![]), Some(x) => T::C("VSome", vec![x.v()]) } }
}
impl<X: G> G for Vec<X> {
    fn g(r: &mut Rng) -> Self { let n = match r.below(8) { 0..=3 => 0, 4..=5 => 1, 6 => 2, _ => r.range(3, 5) }; (0..n).map(|_| X::g(r)).collect() }
    fn v(&self) -> T { vlist(self.iter().map(|x| x.v()).collect()) }
}
impl<X: G> G for BTreeMap<String, X> {
    fn g(r: &mut Rng) -> Self {
        let n = match r.below(8) { 0..=3 => 0, 4..=5 => 1, _ => r.range(2, 6) };
        let mut m = BTreeMap::new();
        for _ in 0..n { let k = if r.chance(1, 3) { (*r.pick(&["", "a", "ab", "b", "a\u{0}", "é", "z"])).to_string() } else { String::g(r) }; m.insert(k, X::g(r)); }
        m
    }
    fn v(&self) -> T { vlist(self.iter().map(|(k, x)| T::C("VPair", vec![T::H(k.as_bytes().to_vec()), x.v()])).collect()) }
}
impl G for (u64, u64) { fn g(r: &mut Rng) -> Self { (u64::g(r), u64::g(r)) } fn v(&self) -> T { vlist(vec![self.0.v(), self.1.v()]) } }

macro_rules! st { ($t:ident { $($f:ident),* }) => {
    impl G for $t {
        fn g(r: &mut Rng) -> Self { $t { $($f: G::g(r)),* } }
        fn v(&self) -> T { vlist(vec![$(self.$f.v()),*]) }
    } } }
macro_rules! en { ($t:ident { $($c:ident),* }) => {
    impl G for $t {
        fn g(r: &mut Rng) -> Self { let all = [$($t::$c),*]; let i = r.below(all.len() as u64) as usize; all[i].clone() }
        fn v(&self) -> T { let all = [$(stringify!($c)),*]; let me = match self { $($t::$c => stringify!($c)),* }; vn(all.iter().position(|x| *x == me).unwrap() as u128) }
    } } }
/// descriptors whose `common: SegmentCommon` is written flattened before the own fields
macro_rules! desc { ($t:ident { $($f:ident),* }) => {
    impl G for $t {
        fn g(r: &mut Rng) -> Self { $t { common: G::g(r), $($f: G::g(r)),* } }
        fn v(&self) -> T { let mut fs = match self.common.v() { T::C(_, mut a) => match a.remove(0) { T::L(l) => l, _ => unreachable!() }, _ => unreachable!() }; $(fs.push(self.$f.v());)* vlist(fs) }
    } } }

en!(SegmentCompression { None, Zstd, Lz4 });
en!(VectorCompression { None, Pq96 });
en!(SegmentKind { Lexical, Vector, Time, Temporal, Tantivy });
en!(AnchorSource { Explicit, FrameTimestamp, Metadata, IngestionClock });
en!(FrameRole { Document, DocumentChunk, ExtractedImage });
en!(FrameStatus { Active, Superseded, Deleted });
en!(EnrichmentState { Searchable, Enriched });
impl G for CanonicalEncoding {
    fn g(r: &mut Rng) -> Self { if r.chance(1, 2) { CanonicalEncoding::Plain } else { CanonicalEncoding::Zstd } }
    fn v(&self) -> T { vn(match self { CanonicalEncoding::Plain => 0, CanonicalEncoding::Zstd => 1 }) }
}
st!(SegmentSpan { frame_start, frame_end, page_start, page_end, token_start, token_end });
st!(SegmentCommon { segment_id, bytes_offset, bytes_length, checksum, build_sequence, codec_version, compression, span });
st!(SegmentStats { doc_count, vector_count, time_entries, bytes_uncompressed, build_micros });
st!(IndexSegmentRef { kind, common, stats });
desc!(LexSegmentDescriptor { doc_count });
desc!(VecSegmentDescriptor { vector_count, dimension, vector_compression });
desc!(TimeSegmentDescriptor { entry_count });
desc!(TemporalSegmentDescriptor { entry_count, anchor_count, flags });
desc!(TantivySegmentDescriptor { path });
st!(SegmentCatalog { next_segment_id, version, lex_enabled, lex_segments, vec_segments, time_segments, temporal_segments, tantivy_segments, index_segments });
st!(LexIndexManifest { doc_count, generation, bytes_offset, bytes_length, checksum });
st!(LexSegmentManifest { path, bytes_offset, bytes_length, checksum });
st!(VecIndexManifest { vector_count, dimension, bytes_offset, bytes_length, checksum, compression_mode, model });
st!(ClipIndexManifest { bytes_offset, bytes_length, vector_count, dimension, checksum, model_name });
st!(IndexManifests { lex, lex_segments, vec, clip });
st!(SegmentMeta { id, frame_range, primary_checksum, compression, bytes_offset, bytes_length });
st!(TimeIndexManifest { bytes_offset, bytes_length, entry_count, checksum });
st!(TemporalTrackManifest { bytes_offset, bytes_length, entry_count, anchor_count, checksum, flags });
st!(MemoriesTrackManifest { bytes_offset, bytes_length, card_count, entity_count, checksum });
st!(LogicMeshManifest { bytes_offset, bytes_length, node_count, edge_count, checksum });
st!(SketchTrackManifest { bytes_offset, bytes_length, entry_count, entry_size, flags, checksum });
st!(TicketRef { issuer, seq_no, expires_in_secs, capacity_bytes, verified });
st!(ReplayManifest { segment_offset, segment_size, session_count, total_actions, version });
st!(EnrichmentTask { frame_id, created_at, chunks_done, chunks_total });
st!(EnrichmentQueueManifest { tasks, updated_at });
st!(DocGpsMetadata { latitude, longitude });
st!(DocExifMetadata { make, model, lens, datetime, gps });
st!(AudioSegmentMetadata { start_seconds, end_seconds, label });
st!(DocAudioMetadata { duration_secs, sample_rate_hz, channels, bitrate_kbps, codec, segments, tags });
st!(MediaManifest { kind, mime, bytes, filename, duration_ms, width, height, codec });
st!(DocMetadata { mime, bytes, hash, width, height, colors, caption, exif, audio, media });
st!(TextChunkRange { start, end });
st!(TextChunkManifest { chunk_chars, chunks });
st!(Frame { id, timestamp, anchor_ts, anchor_source, kind, track, payload_offset, payload_length, checksum, uri, title,
            canonical_encoding, canonical_length, metadata, search_text, tags, labels, extra_metadata, content_dates,
            chunk_manifest, role, parent_id, chunk_index, chunk_count, status, supersedes, superseded_by, source_sha256,
            source_path, enrichment_state });

fn gen_toc(r: &mut Rng) -> Toc {
    let nframes = match r.below(10) { 0 => 0, 1..=5 => r.range(1, 3), 6..=8 => r.range(3, 6), _ => r.range(6, 14) };
    Toc {
        toc_version: G::g(r), segments: G::g(r), frames: (0..nframes).map(|_| Frame::g(r)).collect(), indexes: G::g(r),
        time_index: G::g(r), temporal_track: G::g(r), memories_track: G::g(r), logic_mesh: G::g(r), sketch_track: G::g(r),
        segment_catalog: G::g(r), ticket_ref: G::g(r), memory_binding: None, replay_manifest: G::g(r),
        enrichment_queue: G::g(r), merkle_root: G::g(r), toc_checksum: G::g(r),
    }
}
fn toc_v(t: &Toc) -> T {
    vlist(vec![t.toc_version.v(), t.segments.v(), t.frames.v(), t.indexes.v(), t.time_index.v(), t.temporal_track.v(),
               t.memories_track.v(), t.logic_mesh.v(), t.sketch_track.v(), t.segment_catalog.v(), t.ticket_ref.v(),
               T::C("VNone", vec![]), t.replay_manifest.v(), t.enrichment_queue.v(), t.merkle_root.v(), t.toc_checksum.v()])
}

fn bcfg() -> impl bincode::config::Config { bincode::config::standard().with_fixed_int_encoding().with_little_endian() }
fn benc<S: serde::Serialize>(x: &S) -> Vec<u8> { bincode::serde::encode_to_vec(x, bcfg()).expect("bincode") }
/// image in the pre-replay layout (LegacyTocV2) / pre-memories layout (LegacyTocV1), from the field encodings
fn legacy_image(t: &Toc, v1: bool) -> Vec<u8> {
    let mut b = vec![];
    b.extend(benc(&t.toc_version)); b.extend(benc(&t.segments)); b.extend(benc(&t.frames)); b.extend(benc(&t.indexes));
    b.extend(benc(&t.time_index)); b.extend(benc(&t.temporal_track));
    if !v1 { b.extend(benc(&t.memories_track)); b.extend(benc(&t.logic_mesh)); }
    b.extend(benc(&t.segment_catalog)); b.extend(benc(&t.ticket_ref)); b.push(0 /* memory_binding: None */);
    b.extend(benc(&t.merkle_root)); b.extend(benc(&t.toc_checksum));
    b
}

fn toc_err_kind(e: &MemvidError) -> u128 {
    match e { MemvidError::InvalidToc { reason } => { let s: &str = reason.as_ref(); if s.contains("trailing") { 1 } else { 97 } } _ => 2 }
}

fn stamp(mut t: Toc) -> Toc {
    let mut z = t.clone(); z.toc_checksum = [0u8; 32];
    t.toc_checksum = Toc::calculate_checksum(&z.encode().expect("encode"));
    t
}

fn toc_streams(r: &mut Rng, n: usize, w: &mut dyn std::io::Write) {
    // (1) encode: value -> bytes, and decode(encode) through the implementation
    for it in 0..n {
        let mut t = gen_toc(r);
        if it % 16 == 5 { // a vector exactly at its deserialize bound (MAX_TAGS = 1024)
            if t.frames.is_empty() { t.frames.push(Frame::g(r)); }
            let which = r.below(3);
            let v: Vec<String> = (0..1024).map(|i| if i % 100 == 0 { "t".to_string() } else { String::new() }).collect();
            match which { 0 => t.frames[0].tags = v, 1 => t.frames[0].labels = v, _ => t.frames[0].content_dates = v }
        }
        let mut viol = None;
        let mut tags = vec![format!("frames{}", match t.frames.len() { 0 => "0", 1..=2 => "1-2", 3..=5 => "3-5", _ => "6+" })];
        let enc = catch_unwind(AssertUnwindSafe(|| t.encode()));
        let output = match &enc {
            Err(_) => { viol = Some("toc-encode-panic: Toc::encode panicked".to_string()); panic_t() }
            Ok(Err(e)) => { viol = Some(format!("toc-encode-error: Toc::encode failed on a constructible value: {:?}", e)); err_t(2) }
            Ok(Ok(b)) => {
                match catch_unwind(AssertUnwindSafe(|| Toc::decode(b))) {
                    Err(_) => { viol = Some("toc-decode-panic: Toc::decode panicked on an encoding".to_string()); }
                    Ok(Err(e)) => { viol = Some(format!("toc-roundtrip: decode(encode(t)) failed: {:?}", e)); }
                    Ok(Ok(d)) => {
                        if toc_v(&d).coq() != toc_v(&t).coq() { viol = Some("toc-roundtrip: decode(encode(t)) differs from t".to_string()); }
                        else if d.encode().ok().as_deref() != Some(&b[..]) { viol = Some("toc-roundtrip: re-encoding the decoded value gives different bytes".to_string()); }
                    }
                }
                // checksum: stamped value verifies, any flipped checksum byte does not
                let s = stamp(t.clone());
                if s.verify_checksum().is_err() && viol.is_none() { viol = Some("toc-checksum: verify_checksum fails on a freshly stamped TOC".to_string()); }
                let mut bad = s.clone(); let i = r.below(32) as usize; bad.toc_checksum[i] ^= 1 << r.below(8);
                if bad.verify_checksum().is_ok() && viol.is_none() { viol = Some("toc-checksum: verify_checksum accepts a TOC whose checksum field was altered".to_string()); }
                let mut bad2 = s.clone(); bad2.toc_version ^= 1;
                if bad2.verify_checksum().is_ok() && viol.is_none() { viol = Some("toc-checksum: verify_checksum accepts a TOC whose content was altered".to_string()); }
                ok_t(big_h(b))
            }
        };
        if t.frames.iter().any(|f| f.metadata.is_some()) { tags.push("metadata".into()); }
        if t.frames.iter().any(|f| !f.extra_metadata.is_empty()) { tags.push("map".into()); }
        let input = toc_v(&t);
        let key = key_of(&[input.coq().as_bytes()]);
        emit(w, "tocenc", &Case { input, output, violation: viol, nontrivial: !t.frames.is_empty(), tags, key });
    }
    // (2) decode of images: intact, legacy layouts, trailing bytes, truncation, targeted and random damage
    for _ in 0..(n * 2) {
        let mut t = stamp(gen_toc(r));
        let mut tags: Vec<String> = vec![];
        let kind = r.below(20);
        let mut must_reject = false;      // property oracle: this damage has to be answered with an error
        let mut legacy: Option<bool> = None;
        let orig = t.encode().expect("encode");
        let nseg = t.segments.len();
        let frames_len_pos = 16 + 76 * nseg;
        let mut img = orig.clone();
        match kind {
            0 | 1 => { tags.push("intact".into()); }
            2 => { let k_ = r.range(1, 4) as usize; img.extend(r.bytes(k_)); tags.push("trailing".into()); must_reject = true; }
            3 => { img.push(0); tags.push("trailing-zero".into()); must_reject = true; }
            4 => { let k = r.below(img.len() as u64) as usize; img.truncate(k); tags.push("truncated".into()); must_reject = true; }
            5 => { img.pop(); tags.push("last-byte-removed".into()); must_reject = true; }
            6 | 7 => { // pre-replay layout
                t.sketch_track = None; t.replay_manifest = None; t.enrichment_queue = Default::default();
                if r.chance(1, 2) { t.segment_catalog.next_segment_id = r.below(3); }
                img = legacy_image(&t, false); legacy = Some(false); tags.push("legacy-v2".into());
                if kind == 7 && r.chance(1, 2) { img.push(r.next() as u8); tags.push("trailing".into()); must_reject = true; }
            }
            8 | 9 => { // pre-memories layout
                t.sketch_track = None; t.replay_manifest = None; t.enrichment_queue = Default::default(); t.memories_track = None; t.logic_mesh = None;
                if r.chance(1, 2) { t.segment_catalog.next_segment_id = r.below(3); }
                img = legacy_image(&t, true); legacy = Some(true); tags.push("legacy-v1".into());
                if kind == 9 && r.chance(1, 2) { img.push(r.next() as u8); tags.push("trailing".into()); must_reject = true; }
            }
            10 => { // an Option tag set to 2..255: time_index tag sits right after `indexes`; find it by re-encoding the prefix
                let p = 8 + benc(&t.segments).len() + benc(&t.frames).len() + benc(&t.indexes).len();
                img[p] = 2 + r.below(254) as u8; tags.push("option-tag".into()); must_reject = true;
            }
            11 => { // enum tag out of range: first segment's compression (u32 at 8+8+8+16+32) when there is a segment
                if nseg > 0 { let p = 16 + 8 + 16 + 32; img[p..p + 4].copy_from_slice(&(3 + r.below(1000) as u32).to_le_bytes()); must_reject = true; }
                tags.push("enum-tag".into());
            }
            12 => { // vector length beyond its bound / beyond the input
                let v: u64 = *r.pick(&[1_000_001u64, 10_000_001, u64::MAX, 1 << 40]);
                let p = if r.chance(1, 2) { 8 } else { frames_len_pos };
                img[p..p + 8].copy_from_slice(&v.max(10_000_001).to_le_bytes()); tags.push("length-over-bound".into()); must_reject = true;
            }
            13 => { // frames count off by one
                let c = t.frames.len() as u64; let c2 = if r.chance(1, 2) { c + 1 } else { c.saturating_sub(1) };
                img[frames_len_pos..frames_len_pos + 8].copy_from_slice(&c2.to_le_bytes()); tags.push("frames-count".into());
            }
            14 => { // bool byte 2.. : ticket_ref.verified is the byte before memory_binding tag; locate from the end
                let tail = 1 + benc(&t.replay_manifest).len() + benc(&t.enrichment_queue).len() + 64;
                let p = img.len() - tail - 1; img[p] = 2 + r.below(200) as u8; tags.push("bool-byte".into()); must_reject = true;
            }
            15 => { // invalid UTF-8 in the ticket issuer (first byte of the string) when it is non-empty
                if !t.ticket_ref.issuer.is_empty() {
                    let tail = 1 + benc(&t.replay_manifest).len() + benc(&t.enrichment_queue).len() + 64;
                    let p = img.len() - tail - (8 + 8 + 8 + 1) - t.ticket_ref.issuer.len();
                    img[p] = *r.pick(&[0xFFu8, 0xC0, 0x80, 0xF8, 0xED]); if img[p] == 0xED && t.ticket_ref.issuer.len() >= 3 { img[p + 1] = 0xA0; img[p + 2] = 0x80; }
                    tags.push("bad-utf8".into());
                } else { tags.push("intact".into()); }
            }
            16 => { // a bounded inner vector one past its bound: Toc::encode does not check, decode must refuse
                if t.frames.is_empty() { t.frames.push(Frame::g(r)); }
                let v: Vec<String> = (0..1025).map(|_| String::new()).collect();
                match r.below(3) { 0 => t.frames[0].tags = v, 1 => t.frames[0].labels = v, _ => t.frames[0].content_dates = v }
                img = t.encode().expect("encode"); tags.push("inner-length-bound-plus-1".into()); must_reject = true;
            }
            _ => { // one random bit, away from the high bytes of the two bounded top-level lengths (allocation size)
                let mut p = r.below(img.len() as u64) as usize;
                if (p >= 10 && p < 16) || (p >= frames_len_pos + 2 && p < frames_len_pos + 8) { p = 0; }
                img[p] ^= 1 << r.below(8); tags.push("bit-flip".into());
            }
        }
        let res = catch_unwind(AssertUnwindSafe(|| Toc::decode(&img)));
        let mut viol = None;
        let output = match &res {
            Err(_) => { viol = Some("toc-decode-panic: Toc::decode panicked".to_string()); panic_t() }
            Ok(Err(e)) => {
                if tags[0] == "intact" || (legacy.is_some() && !must_reject) { viol = Some(format!("toc-rejects-valid: Toc::decode rejected a valid image ({}): {:?}", tags.join(","), e)); }
                if memvid_err_is_skip(e) { continue; }
                err_t(toc_err_kind(e))
            }
            Ok(Ok(d)) => {
                if d.memory_binding.is_some() { continue; }   // outside the modelled schema
                if must_reject { viol = Some(format!("toc-accepts-damaged: Toc::decode accepted an image with {}", tags.join(","))); }
                else if legacy.is_some() || tags[0] == "intact" {
                    if toc_v(d).coq() != toc_v(&t).coq() { viol = Some(format!("toc-roundtrip: decode of a valid {} image differs from the value", tags[0])); }
                    if d.verify_checksum().is_err() && tags[0] == "intact" && viol.is_none() { viol = Some("toc-checksum: decoded intact TOC fails verify_checksum".to_string()); }
                } else {
                    // damaged but decodable: it must not pass as the original -- a different value has to fail the checksum
                    let same = d.encode().ok().as_deref() == Some(&orig[..]);
                    if !same && d.verify_checksum().is_ok() { viol = Some(format!("toc-damage-undetected: damaged image ({}) decodes to a different value that passes verify_checksum", tags.join(","))); }
                }
                ok_t(toc_v(d))
            }
        };
        tags.push(match &res { Ok(Ok(_)) => "ok".into(), Ok(Err(_)) => "err".into(), Err(_) => "panic".into() });
        let input = big_h(&img);
        let key = key_of(&[&img]);
        emit(w, "tocdec", &Case { input, output, violation: viol, nontrivial: matches!(res, Ok(Ok(_))) || must_reject, tags, key });
    }
}
fn memvid_err_is_skip(_e: &MemvidError) -> bool { false }

pub fn run(seed: u64, n: usize, w: &mut dyn std::io::Write) {
    std::panic::set_hook(Box::new(|_| {}));
    let mut r = Rng::new(seed ^ 0xC30);
    header_streams(&mut r, n, w);
    time_index_streams(&mut r, n, w);
    toc_streams(&mut r, (n / 3).max(10), w);
}
