//! C26: derived data (memory cards, enrichment records, enrichment-queue entries) refers to
//! the frame it was derived from.  Histories on a real Memvid (shared Driver of store.rs for
//! update / delete / commit / reopen / crash / vacuum / doctor; puts are issued here because
//! they need texts that the rule extractor turns into cards and the derived-data options).
//!
//! Model side: coq/Model/Derived.v (`dop`, `dout`), runner Corr/C26.v.
//! Property oracle (independent of the model), evaluated on the implementation:
//!   * every card's owner put is decoded from the card's ENTITY (the generated person name
//!     encodes the put number), the document's real id is found BY URI after the commit, and
//!     `source_frame_id` must equal it;
//!   * every enrichment record (frame id -> card ids) must sit under the real id of the put
//!     that owns those cards;
//!   * every enrichment-queue entry must be the real id of a put that asked for enrichment;
//!   * `frame_text_by_id(source_frame_id)` must contain the card's value (for the two "role"
//!     rules, whose value is "$2 at $3": both halves).
//! Class of the known finding: the put's returned log sequence number differs from
//! `next_frame_id()` read before the put (Coq: Derived.known_class).
use crate::store::*;
use crate::term::*;
use memvid_core::types::{FrameRole, FrameStatus};
use memvid_core::{Memvid, PutOptions};

const CITIES: [&str; 6] = ["Paris", "Berlin", "Oslo", "Rome", "Lima", "Cairo"];
const FILLER: [&str; 12] = ["alpha", "bravo", "charlie", "delta", "echo", "foxtrot", "golf", "hotel", "kilo", "lima", "november", "oscar"];

/// person name encoding (put number, sentence number): "X" + base-26 letters
fn name_of(put: usize, k: usize) -> String {
    let mut n = put * 4 + k;
    let mut s = String::new();
    for _ in 0..3 { s.push((b'a' + (n % 26) as u8) as char); n /= 26; }
    format!("X{}", s)
}
fn decode_entity(e: &str) -> Option<(usize, usize)> {
    let b = e.as_bytes();
    if b.len() != 4 || b[0] != b'x' { return None; }
    let mut n = 0usize;
    for i in (1..4).rev() { if !b[i].is_ascii_lowercase() { return None; } n = n * 26 + (b[i] - b'a') as usize; }
    Some((n / 4, n % 4))
}

#[derive(Clone, Debug)]
struct PutPlan { sentences: Vec<u8>, filler: usize, uri: Option<u32>, triplets: bool, instant: bool, embed: bool, auto_tag: bool }

fn put_text(put: usize, tag: u64, plan: &PutPlan, r: &mut Rng) -> String {
    let mut s = String::new();
    for (k, kind) in plan.sentences.iter().enumerate() {
        let name = name_of(put, k);
        match kind {
            0 => s.push_str(&format!("{} works at Acme{}. ", name, tag)),
            1 => s.push_str(&format!("{} lives in {}. ", name, CITIES[r.below(CITIES.len() as u64) as usize])),
            _ => s.push_str(&format!("{} is the CEO of Globex{}. ", name, tag)),
        }
    }
    s.push_str(&format!("note{} ", tag));
    while s.len() < plan.filler {
        s.push_str(FILLER[r.below(FILLER.len() as u64) as usize]);
        s.push_str(if r.chance(1, 7) { ". " } else { " " });
        if r.chance(1, 30) { s.push('\n'); }
    }
    s
}

struct PutRec { uri: Option<u32>, next_before: u64, seq: u64, asked_queue: bool }

fn opt_n(v: Option<u64>) -> T { match v { Some(x) => T::some(T::N(x as u128)), None => T::none() } }
fn pair(a: u64, b: u64) -> T { T::Tup(vec![T::N(a as u128), T::N(b as u128)]) }

fn dobs(mem: &Memvid) -> T {
    T::Tup(vec![T::N(mem.memories().card_count() as u128), T::N(mem.enrichment_queue_len() as u128), opt_n(mem.next_enrichment_task().map(|t| t.frame_id))])
}
fn sout_ok0(mem: &Memvid) -> T { T::Tup(vec![T::C("Ok", vec![T::N(0)]), T::N(mem.frame_count() as u128), T::N(mem.next_frame_id() as u128)]) }
fn dout(sout: T, obs: T, cards: Vec<T>, stamps: Vec<T>, drained: Vec<T>) -> T { T::Tup(vec![sout, obs, T::L(cards), T::L(stamps), T::L(drained)]) }

fn value_in_text(slot: &str, value: &str, text: &str) -> bool {
    if text.contains(value) { return true; }
    if slot == "role" {
        // template "$2 at $3": some split at " at " has both halves in the text
        let mut from = 0;
        while let Some(p) = value[from..].find(" at ") {
            let (a, b) = (&value[..from + p], &value[from + p + 4..]);
            if text.contains(a) && text.contains(b) { return true; }
            from += p + 4;
        }
    }
    false
}

pub struct Hist { ops: Vec<T>, outs: Vec<T>, viol: Option<String>, tags: Vec<String>, nontrivial: bool }

#[derive(Clone, Copy, PartialEq)]
enum Profile { Mixed, Witness, Minimal, Align, AutoCheckpoint }

fn run_history(r: &mut Rng, profile: Profile, nops: usize) -> Hist {
    let mut d = Driver::new();
    let mut ops: Vec<T> = vec![]; let mut outs: Vec<T> = vec![]; let mut viol: Option<String> = None; let mut tags: Vec<String> = vec![];
    let mut puts: Vec<PutRec> = vec![]; let mut all_viol: Vec<String> = vec![];
    let mut uri_counter = 100u32;
    let mut in_class_puts = 0usize; let mut aligned_puts = 0usize; let mut autos = 0usize; let mut chunked = 0usize; let mut drained_total = 0usize; let mut cards_total = 0u64;
    let mut step = 0usize; let mut align_phase = 0usize; let mut align_initial = r.range(1, 3); let mut done = false;
    #[derive(Debug)]
    enum A { Put(PutPlan), Store(Op), Drain, Observe }
    let mut queue_next: Vec<A> = vec![];
    while !done {
        // ---------- choose the next action ----------
        let act: A = if let Some(a) = queue_next.pop() { a } else {
            step += 1;
            match profile {
                Profile::Witness => {
                    // three put+commit pairs, then a put with triplets (the recorded experiment)
                    let plan = PutPlan { sentences: vec![0, 1], filler: 0, uri: None, triplets: true, instant: true, embed: false, auto_tag: true };
                    match step { 1 | 3 | 5 | 7 => A::Put(plan), 2 | 4 | 6 | 8 => A::Store(Op::Commit), 9 => A::Observe, _ => { done = true; continue; } }
                }
                Profile::Minimal => {
                    let plan = PutPlan { sentences: vec![0], filler: 0, uri: Some(1), triplets: true, instant: true, embed: true, auto_tag: false };
                    match step { 1 => A::Put(plan), 2 => A::Store(Op::Commit), 3 => A::Observe, 4 => A::Drain, _ => { done = true; continue; } }
                }
                Profile::Align => {
                    // doctor resets the log sequence; (put, commit) pairs then close the gap by one each,
                    // until sequence + 1 == next_frame_id: that put is OUTSIDE the known class
                    let (_, _, _, seq) = memvid_core::verif_hooks::wal_stats(d.mem());
                    let next = d.mem().next_frame_id();
                    let plan = |r: &mut Rng, uc: &mut u32| { *uc += 1; PutPlan { sentences: vec![0, 1 + r.below(2) as u8], filler: 0, uri: Some(*uc), triplets: true, instant: true, embed: true, auto_tag: r.chance(1, 2) } };
                    match align_phase {
                        // 1-3 documents (whole or chunked, with or without derived data), most of them committed
                        0 => {
                            align_initial -= 1; if align_initial == 0 { align_phase = 2; }
                            if r.chance(2, 3) { queue_next.push(A::Store(Op::Commit)); }
                            let mut p = plan(r, &mut uri_counter);
                            if r.chance(1, 4) { p.filler = r.range(2500, 5000) as usize; }
                            if r.chance(1, 4) { p.triplets = false; p.embed = false; }
                            A::Put(p)
                        }
                        2 => { align_phase = 3; if r.chance(1, 3) { queue_next.push(A::Observe); } A::Store(Op::Doctor(r.below(16) as u8)) }
                        3 => {
                            if seq + 1 == next { align_phase = 4; queue_next.push(A::Observe); queue_next.push(A::Store(Op::Commit)); A::Put(plan(r, &mut uri_counter)) }
                            else if seq + 1 < next && step < 40 { queue_next.push(A::Store(Op::Commit)); let mut p = plan(r, &mut uri_counter); if r.chance(1, 3) { p.triplets = false; } A::Put(p) }
                            else { align_phase = 4; A::Observe }
                        }
                        4 => { align_phase = 5; if r.chance(1, 2) { A::Drain } else { A::Store(Op::Reopen) } }
                        5 => { align_phase = 6; queue_next.push(A::Observe); queue_next.push(A::Store(Op::Commit)); A::Put(plan(r, &mut uri_counter)) }
                        6 => { align_phase = 7; A::Drain }
                        _ => { done = true; continue; }
                    }
                }
                Profile::Mixed | Profile::AutoCheckpoint => {
                    if step > nops { done = true; continue; }
                    if step == nops { queue_next.push(A::Drain); queue_next.push(A::Observe); A::Store(Op::Commit) }
                    else {
                        let n_committed = d.mem().frame_count() as u64;
                        let c = r.below(100);
                        let docs: Vec<u64> = (0..n_committed).filter(|i| d.mem().frame_by_id(*i).map(|f| f.role == FrameRole::Document && f.status == FrameStatus::Active && f.chunk_manifest.is_none()).unwrap_or(false)).collect();
                        let big = profile == Profile::AutoCheckpoint;
                        if c < 58 || n_committed == 0 && c < 75 || big && c < 90 {
                            let nsent = r.below(4) as usize;
                            let sentences: Vec<u8> = (0..nsent).map(|_| r.below(3) as u8).collect();
                            let filler = if big && r.chance(4, 5) { r.range(3000, 9000) as usize } else { match r.below(10) { 0..=3 => 0, 4..=6 => r.range(50, 1500) as usize, 7 => r.range(2500, 7000) as usize, _ => r.range(100, 600) as usize } };
                            let uri = if r.chance(3, 4) { uri_counter += 1; Some(uri_counter) } else { None };
                            A::Put(PutPlan { sentences, filler, uri, triplets: r.chance(5, 6), instant: r.chance(3, 4), embed: r.chance(1, 2), auto_tag: r.chance(1, 2) })
                        } else if c < 64 && !docs.is_empty() {
                            let target = docs[r.below(docs.len() as u64) as usize];
                            let payload = if r.chance(1, 2) { Some((PayloadKind::Bin, r.range(1, 800) as usize)) } else { None };
                            A::Store(Op::Update { target, payload, uri: None })
                        } else if c < 69 && !docs.is_empty() {
                            A::Store(Op::Delete { target: docs[r.below(docs.len() as u64) as usize] })
                        } else if c < 72 { A::Store(Op::Put { kind: PayloadKind::Bin, size: r.range(1, 900) as usize, uri: None, ts: 1_700_000_000 + step as i64, embed: None, default_opts: false }) }
                        else if c < 82 { if r.chance(1, 2) { queue_next.push(A::Observe); } A::Store(Op::Commit) }
                        else if c < 86 { queue_next.push(A::Observe); A::Store(Op::Reopen) }
                        else if c < 90 { queue_next.push(A::Observe); A::Store(Op::Crash) }
                        else if c < 92 { A::Store(Op::Vacuum) }
                        else if c < 95 { queue_next.push(A::Observe); A::Store(Op::Doctor(r.below(16) as u8)) }
                        else if c < 98 { A::Drain } else { A::Observe }
                    }
                }
            }
        };
        // ---------- run it ----------
        let t_op = std::time::Instant::now();
        let act_dbg = if std::env::var("MV_TIMING").is_ok() { format!("{:?}", act) } else { String::new() };
        match act {
            A::Put(plan) => {
                let put_no = puts.len();
                let fresh = d.next_tag; d.next_tag += 1000;
                let text = put_text(put_no, fresh, &plan, r);
                let bytes = text.clone().into_bytes();
                d.tags.entry(*blake3::hash(&bytes).as_bytes()).or_insert(fresh);
                let (_, _, _, wal_seq_before) = memvid_core::verif_hooks::wal_stats(d.mem());
                let next_before = d.mem().next_frame_id();
                let cards_before = d.mem().memories().card_count() as u64;
                let qlen_before = d.mem().enrichment_queue_len();
                let mut o = PutOptions::default();
                o.timestamp = Some(1_700_000_000 + step as i64);
                o.uri = plan.uri.map(uri_string);
                o.extract_triplets = plan.triplets; o.instant_index = plan.instant; o.enable_embedding = plan.embed; o.auto_tag = plan.auto_tag; o.extract_dates = plan.auto_tag;
                let res = d.mem().put_bytes_with_options(&bytes, o);
                let seq = match res { Ok(s) => s, Err(e) => { viol.get_or_insert(format!("op-failed: put {} failed: {}", put_no, e)); break; } };
                // keep `dirty` set, so that cards added after an automatic checkpoint reach the file with the next commit
                let _ = d.mem().memories_mut();
                let next_after = d.mem().next_frame_id();
                if next_after <= next_before {
                    viol.get_or_insert(format!("put-not-applied: put #{} returned sequence {} but next_frame_id() stayed {} (frames {}, wal {:?})", put_no, seq, next_after, d.mem().frame_count(), memvid_core::verif_hooks::wal_stats(d.mem())));
                    ops.push(T::C("DPut", vec![opt_n(plan.uri.map(|u| u as u64)), T::N(fresh as u128), T::N(0), T::none(), T::C("mkDF", vec![T::B(false), T::B(false), T::N(0)])]));
                    outs.push(dout(T::Tup(vec![T::C("Ok", vec![T::N(seq as u128)]), T::N(d.mem().frame_count() as u128), T::N(next_after as u128)]), dobs(d.mem()), vec![], vec![], vec![]));
                    break;
                }
                let nchunks = next_after - next_before - 1;
                let (_, pending, _, seq_now) = memvid_core::verif_hooks::wal_stats(d.mem());
                let grew = seq_now - wal_seq_before; let appended = 1 + nchunks;
                let auto = if (grew > 0 && pending == 0) || grew > appended { autos += 1; T::some(T::N(grew.saturating_sub(appended) as u128)) } else { T::none() };
                let ncards = d.mem().memories().card_count() as u64 - cards_before;
                let queued = d.mem().enrichment_queue_len() > qlen_before;
                if nchunks > 0 { chunked += 1; }
                cards_total += ncards;
                let derives = ncards > 0 || queued;
                if derives { if seq != next_before { in_class_puts += 1; } else { aligned_puts += 1; } }
                puts.push(PutRec { uri: plan.uri, next_before, seq, asked_queue: plan.instant && plan.embed });
                let fl = T::C("mkDF", vec![T::B(plan.instant), T::B(plan.instant && plan.embed), T::N(ncards as u128)]);
                ops.push(T::C("DPut", vec![opt_n(plan.uri.map(|u| u as u64)), T::N(fresh as u128), T::N(nchunks as u128), auto, fl]));
                let sout = T::Tup(vec![T::C("Ok", vec![T::N(seq as u128)]), T::N(d.mem().frame_count() as u128), T::N(next_after as u128)]);
                outs.push(dout(sout, dobs(d.mem()), vec![], vec![], vec![]));
            }
            A::Store(op) => {
                let obs = d.step(&op);
                if let Some(e) = d.open_error.clone() { viol.get_or_insert(format!("open-failed: {:?}: {}", op, e)); ops.push(T::C("DStore", vec![obs.op_term])); outs.push(dout(obs.out_term, T::Tup(vec![T::N(0), T::N(0), T::none()]), vec![], vec![], vec![])); break; }
                if !obs.ok && matches!(op, Op::Commit | Op::Put { .. } | Op::Vacuum) { viol.get_or_insert(format!("op-failed: {:?} returned an error", op)); }
                if obs.auto_committed { autos += 1; }
                match op { Op::Doctor(_) => tags.push("doctor".into()), Op::Crash => tags.push("crash".into()), Op::Reopen => tags.push("reopen".into()), Op::Vacuum => tags.push("vacuum".into()), Op::Update { .. } => tags.push("update".into()), Op::Delete { .. } => tags.push("delete".into()), _ => {} }
                ops.push(T::C("DStore", vec![obs.op_term]));
                outs.push(dout(obs.out_term, dobs(d.mem()), vec![], vec![], vec![]));
            }
            A::Drain => {
                let sout = sout_ok0(d.mem());
                let mut res = vec![];
                let mut guard = 0;
                while let Some(t) = d.mem().next_enrichment_task() {
                    let tr = d.mem().process_enrichment_task(&t);
                    let found = tr.error.as_deref() != Some("Frame not found");
                    res.push(T::Tup(vec![T::N(t.frame_id as u128), T::B(found)]));
                    let real: Vec<u64> = puts.iter().map(|p| p.next_before).collect();
                    if let Some(v) = queue_entry_violation(t.frame_id, &puts, &real) { all_viol.push(v); }
                    d.mem().complete_enrichment_task(t.frame_id);
                    guard += 1; if guard > 10_000 { viol.get_or_insert("queue-not-draining: complete_enrichment_task does not remove the first task".into()); break; }
                }
                drained_total += res.len();
                ops.push(T::C("DDrain", vec![]));
                outs.push(dout(sout, dobs(d.mem()), vec![], vec![], res));
            }
            A::Observe => {
                let sout = sout_ok0(d.mem());
                let cards: Vec<(u64, u64)> = d.mem().memories().cards().iter().map(|c| (c.id, c.source_frame_id)).collect();
                let mut stamps: Vec<(u64, Vec<u64>)> = vec![];
                for f in d.mem().memories().enrichment_manifest().enriched_frames() {
                    if let Some(rec) = d.mem().memories().enrichment_manifest().get_record(f) { for s in &rec.stamps { stamps.push((rec.frame_id, s.card_ids.clone())); } }
                }
                stamps.sort_by_key(|(f, ids)| (ids.first().cloned().unwrap_or(u64::MAX), *f));
                ops.push(T::C("DObserve", vec![]));
                outs.push(dout(sout, dobs(d.mem()), cards.iter().map(|(a, b)| pair(*a, *b)).collect(), stamps.iter().map(|(f, ids)| T::Tup(vec![T::N(*f as u128), T::L(ids.iter().map(|i| T::N(*i as u128)).collect())])).collect(), vec![]));
                // ---------- property oracle ----------
                let pending = memvid_core::verif_hooks::wal_stats(d.mem()).1;
                all_viol.extend(oracle(&mut d, &puts, pending == 0));
            }
        }
        if std::env::var("MV_TIMING").is_ok() { eprintln!("TIMING {:>6} ms {}", t_op.elapsed().as_millis(), &act_dbg[..act_dbg.len().min(70)]); }
        if viol.as_deref().map(|v| v.starts_with("op-failed") || v.starts_with("open-failed")).unwrap_or(false) { break; }
    }
    // a violation outside the known class is reported in preference to the known one
    if viol.is_none() {
        viol = all_viol.iter().find(|v| !v.starts_with(KNOWN)).cloned().or_else(|| all_viol.first().cloned());
    }
    if in_class_puts > 0 { tags.push("put_seq_differs_from_id".into()); }
    if aligned_puts > 0 { tags.push("put_seq_equals_id".into()); }
    if autos > 0 { tags.push("autocheckpoint".into()); }
    if chunked > 0 { tags.push("chunked".into()); }
    if drained_total > 0 { tags.push("drained_queue".into()); }
    tags.push(match profile { Profile::Mixed => "mixed", Profile::Witness => "witness", Profile::Minimal => "minimal", Profile::Align => "align", Profile::AutoCheckpoint => "big_docs" }.into());
    tags.sort(); tags.dedup();
    Hist { ops, outs, viol, tags, nontrivial: cards_total > 0 }
}

const KNOWN: &str = "derived-id-is-wal-seq";

/// a put is in the class of the known finding iff its log sequence number differs from
/// next_frame_id() read before it (Coq: Derived.known_class)
fn in_class(p: &PutRec) -> bool { p.seq != p.next_before }

/// class tag of a wrong id: the known class iff the id is the sequence number of an in-class put
fn tag_for(got: u64, owner: Option<&PutRec>, puts: &[PutRec]) -> &'static str {
    match owner {
        Some(p) => if in_class(p) && got == p.seq { KNOWN } else { "derived-id-wrong" },
        None => if puts.iter().any(|p| in_class(p) && p.seq == got) { KNOWN } else { "derived-id-wrong" },
    }
}

/// the property, evaluated on the implementation only; returns every violation found
fn oracle(d: &mut Driver, puts: &[PutRec], check_text: bool) -> Vec<String> {
    let mut out = vec![];
    // the id each put's document actually has: found BY URI among the committed frames (the lowest id
    // carrying the URI: a later update re-uses it); for a document not committed yet, next_frame_id() read before the put
    let n = d.mem().frame_count() as u64;
    let uris: Vec<Option<String>> = (0..n).map(|i| d.mem().frame_by_id(i).ok().and_then(|f| f.uri)).collect();
    let mut real: Vec<u64> = vec![];
    for p in puts {
        let want = match p.uri { Some(u) => uri_string(u), None => format!("mv2://frames/{}", p.next_before) };
        let id = uris.iter().position(|u| u.as_deref() == Some(want.as_str())).map(|i| i as u64);
        if let Some(i) = id { if i != p.next_before { out.push(format!("id-prediction: next_frame_id() was {} before the put, its document got id {}", p.next_before, i)); } }
        real.push(id.unwrap_or(p.next_before));
    }
    let cards = d.mem().memories().cards().to_vec();
    let mut owner_of_card: std::collections::HashMap<u64, usize> = Default::default();
    for c in &cards {
        let owner = decode_entity(&c.entity).map(|(p, _)| p).filter(|p| *p < puts.len());
        let mut id_ok = true;
        if let Some(p) = owner {
            owner_of_card.insert(c.id, p);
            if c.source_frame_id != real[p] {
                id_ok = false;
                out.push(format!("{}: card {} ({}:{}={:?}) extracted by put #{} (returned sequence {}, next_frame_id() before it {}) carries source_frame_id {}, the document is frame {}", tag_for(c.source_frame_id, Some(&puts[p]), puts), c.id, c.entity, c.slot, c.value, p, puts[p].seq, puts[p].next_before, c.source_frame_id, real[p]));
            }
        }
        // text clause (only when every document has been committed)
        if check_text {
            let txt = d.mem().frame_text_by_id(c.source_frame_id);
            let ok = match &txt { Ok(t) => value_in_text(&c.slot, &c.value, t), Err(_) => false };
            if !ok {
                // a consequence of the wrong id when the id is wrong; a violation of its own otherwise
                let cls = if !id_ok { tag_for(c.source_frame_id, owner.map(|p| &puts[p]), puts) }
                          else if owner.is_none() && tag_for(c.source_frame_id, None, puts) == KNOWN { KNOWN }
                          else { "card-value-not-in-frame-text" };
                out.push(format!("{}: the text of frame {} ({}) does not contain the value {:?} of card {}", cls, c.source_frame_id, match &txt { Ok(t) => format!("{:?}", &t[..t.len().min(60)]), Err(e) => format!("error: {}", e) }, c.value, c.id));
            }
        }
    }
    // enrichment records
    for f in d.mem().memories().enrichment_manifest().enriched_frames() {
        let rec = d.mem().memories().enrichment_manifest().get_record(f).cloned();
        if let Some(rec) = rec {
            for s in &rec.stamps { for cid in &s.card_ids {
                if let Some(p) = owner_of_card.get(cid) { if rec.frame_id != real[*p] {
                    out.push(format!("{}: enrichment record of frame {} lists card {} which was extracted from frame {}", tag_for(rec.frame_id, Some(&puts[*p]), puts), rec.frame_id, cid, real[*p]));
                } }
            } }
        }
    }
    // queue: only the first task is readable without draining (drains are checked where they happen)
    if let Some(t) = d.mem().next_enrichment_task() { if let Some(v) = queue_entry_violation(t.frame_id, puts, &real) { out.push(v); } }
    out
}

fn queue_entry_violation(fid: u64, puts: &[PutRec], real: &[u64]) -> Option<String> {
    let asked: Vec<u64> = puts.iter().zip(real.iter()).filter(|(p, _)| p.asked_queue).map(|(_, r)| *r).collect();
    if asked.contains(&fid) { return None; }
    let by_seq = puts.iter().any(|p| p.asked_queue && in_class(p) && p.seq == fid);
    Some(format!("{}: enrichment queue entry {} is not the frame id of any put that asked for enrichment ({:?})", if by_seq { KNOWN } else { "derived-id-wrong" }, fid, asked))
}

pub fn run(seed: u64, n: usize, w: &mut dyn std::io::Write) {
    if std::env::var("C26_SIDE_EXPERIMENT").is_ok() { explore(); }
    // every history gets its own generator state, derived in order from the run's single one;
    // histories then run on a few threads (each on its own temporary memory) and are emitted in order
    let mut master = Rng::new(seed ^ 0xC26);
    let seeds: Vec<u64> = (0..n).map(|_| master.next()).collect();
    let results: Vec<std::sync::Mutex<Option<Hist>>> = (0..n).map(|_| std::sync::Mutex::new(None)).collect();
    let next = std::sync::atomic::AtomicUsize::new(0);
    let workers = std::env::var("C26_THREADS").ok().and_then(|v| v.parse().ok()).unwrap_or(4usize).max(1);
    std::thread::scope(|sc| {
        for _ in 0..workers.min(n.max(1)) {
            sc.spawn(|| loop {
                let i = next.fetch_add(1, std::sync::atomic::Ordering::SeqCst);
                if i >= n { break; }
                if let Some(only) = std::env::var("C26_ONLY").ok().and_then(|v| v.parse::<usize>().ok()) { if i != only { *results[i].lock().unwrap() = Some(Hist { ops: vec![], outs: vec![], viol: None, tags: vec!["skipped".into()], nontrivial: false }); continue; } }
                let mut r = Rng(seeds[i]);
                let profile = match i { 0 => Profile::Witness, 1 => Profile::Minimal, _ => match i % 5 { 0 | 3 => Profile::Align, 1 => Profile::AutoCheckpoint, _ => Profile::Mixed } };
                let nops = match profile { Profile::AutoCheckpoint => r.range(12, 20), _ => r.range(5, 20) } as usize;
                let h = run_history(&mut r, profile, nops);
                *results[i].lock().unwrap() = Some(h);
            });
        }
    });
    for cell in results {
        let h = cell.into_inner().unwrap().expect("history");
        let input = T::L(h.ops.clone());
        let output = T::L(h.outs.clone());
        let key = blake3::hash(input.coq().as_bytes()).to_hex()[..16].to_string();
        emit(w, "hist", &Case { input, output, violation: h.viol, nontrivial: h.nontrivial, tags: h.tags, key });
    }
}

/// side experiment (not part of the check): cards extracted by a put that ended with an automatic
/// checkpoint are added AFTER that commit with `dirty` already cleared
pub fn explore() {
    let dir = tempfile::tempdir().unwrap();
    let path = dir.path().join("m.mv2");
    let mut mem = Memvid::create(&path).unwrap();
    let mut r = Rng::new(7);
    for i in 0..40usize {
        let plan = PutPlan { sentences: vec![0, 1], filler: 6000, uri: None, triplets: true, instant: true, embed: false, auto_tag: false };
        let text = put_text(i, 1000 * (i as u64 + 1), &plan, &mut r);
        let before = memvid_core::verif_hooks::wal_stats(&mem);
        let mut o = PutOptions::default(); o.auto_tag = false; o.extract_dates = false;
        mem.put_bytes_with_options(text.as_bytes(), o).unwrap();
        let after = memvid_core::verif_hooks::wal_stats(&mem);
        if after.1 < before.1 {
            println!("put {} ended with an automatic checkpoint; cards in memory {}", i, mem.memories().card_count());
            mem.commit().unwrap();
            println!("explicit commit() done; cards in memory {}", mem.memories().card_count());
            drop(mem);
            let mem2 = Memvid::open(&path).unwrap();
            println!("after close + reopen: cards {} (frames {})", mem2.memories().card_count(), mem2.frame_count());
            return;
        }
    }
    println!("no automatic checkpoint reached");
}
