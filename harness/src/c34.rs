//! C34 chunk planning: build_chunk_manifest / plan_text_chunks against the Coq model,
//! partition oracle (unstructured) and coverage oracle (structured) on the implementation.
use crate::term::*;
use memvid_core::normalize_text;
use memvid_core::structure::{detect_structure, ElementData};
use memvid_core::verif_hooks;

const NL: char = '\n';
const TERMS: &[char] = &['.', '!', '?'];
/// characters that look like boundaries but are not (raw text): ideographic full stop,
/// ellipsis, fullwidth '!', zero width space, BOM, information separators, Mongolian vowel sep.
const NEAR: &[char] = &['\u{3002}', '\u{2026}', '\u{FF01}', '\u{200B}', '\u{FEFF}', '\u{1C}', '\u{1F}', '\u{180E}', ':', ';', ','];
const WS: &[char] = &[' ', ' ', ' ', ' ', '\t', '\r', '\u{A0}', '\u{2003}', '\u{3000}', '\u{85}', '\u{2028}', '\u{2029}', '\u{0B}', '\u{0C}', '\u{1680}', '\u{202F}', '\u{205F}', '\u{2009}', '\u{2000}', '\u{200A}'];
const OTHER: &[char] = &['a', 'b', 'e', 't', 'x', 'Z', '0', '7', '-', '\u{e9}', '\u{6f22}', '\u{1F600}', '\u{301}', '|', '#'];

/// a text as a Coq term: hex of its UTF-8 bytes, `(cat [hex "..."; hex "..."])` when long
/// (one very long string literal overflows coqc's stack)
fn text_t(s: &str) -> T {
    let b = s.as_bytes();
    if b.len() <= 2000 { return T::H(b.to_vec()); }
    T::C("cat", vec![T::L(b.chunks(2000).map(|c| T::H(c.to_vec())).collect())])
}
/// a normalized text (no control characters but '\n') as plain string literals
fn text_s(s: &str) -> T {
    let mut pieces: Vec<T> = vec![]; let mut cur = String::new();
    for c in s.chars() { cur.push(c); if cur.len() >= 1500 { pieces.push(T::S(std::mem::take(&mut cur))); } }
    if !cur.is_empty() || pieces.is_empty() { pieces.push(T::S(cur)); }
    T::C("cats", vec![T::L(pieces)])
}
/// (character count, polynomial hash of the code points) -- `digest` in Corr/C34.v
fn digest_t(s: &str) -> T {
    let mut h: u64 = 0; let mut n = 0u128;
    for c in s.chars() { h = h.wrapping_mul(1000003).wrapping_add(c as u64 + 1); n += 1; }
    T::Tup(vec![T::N(n), T::N(h as u128)])
}

fn ranges_t(r: &[(usize, usize)]) -> T { T::L(r.iter().map(|(a, b)| T::Tup(vec![T::N(*a as u128), T::N(*b as u128)])).collect()) }
fn chunks_t(c: &[String]) -> T { T::L(c.iter().map(|s| digest_t(s)).collect()) }
fn ok(t: T) -> T { T::C("Ok", vec![t]) }
fn panic_t() -> T { T::C("Panic", vec![T::N(0)]) }
fn key_of(parts: &[&[u8]]) -> String { let mut h = blake3::Hasher::new(); for p in parts { h.update(p); h.update(&[0xff]); } h.finalize().to_hex()[..16].to_string() }

/// The partition clauses of the property, checked directly on what the implementation returned.
fn partition_violation(text: &str, ranges: &[(usize, usize)], chunks: &[String]) -> Option<String> {
    let chars: Vec<char> = text.chars().collect();
    let n = chars.len();
    if ranges.is_empty() { return Some("partition-empty: a plan with no ranges".into()); }
    if ranges[0].0 != 0 { return Some(format!("partition-start: first range starts at {} not 0", ranges[0].0)); }
    if ranges[ranges.len() - 1].1 != n { return Some(format!("partition-end: last range ends at {} but the text has {} characters", ranges[ranges.len() - 1].1, n)); }
    for (i, (a, b)) in ranges.iter().enumerate() {
        if a >= b { return Some(format!("partition-empty-range: range {} is ({}, {})", i, a, b)); }
        if i + 1 < ranges.len() && *b != ranges[i + 1].0 { return Some(format!("partition-gap: range {} ends at {} but range {} starts at {}", i, b, i + 1, ranges[i + 1].0)); }
    }
    if chunks.len() != ranges.len() { return Some(format!("partition-count: {} chunk texts for {} ranges", chunks.len(), ranges.len())); }
    for (i, c) in chunks.iter().enumerate() {
        if c.is_empty() { return Some(format!("partition-empty-chunk: chunk text {} is empty", i)); }
        let (a, b) = ranges[i];
        if b <= n { let want: String = chars[a..b].iter().collect(); if *c != want { return Some(format!("partition-slice: chunk text {} is not the characters {}..{} of the text", i, a, b)); } }
    }
    if chunks.concat() != text { return Some("partition-concat: the chunk texts do not concatenate to the text".into()); }
    None
}

// ------------------------------------------------------------------ raw texts for build_chunk_manifest
fn class_text(r: &mut Rng, len: usize, w_nl: u64, w_term: u64, w_ws: u64, w_near: u64, multibyte: bool) -> String {
    let mut s = String::new();
    for _ in 0..len {
        let k = r.below(1000);
        let c = if k < w_nl { NL }
            else if k < w_nl + w_term { *r.pick(TERMS) }
            else if k < w_nl + w_term + w_ws { if multibyte { *r.pick(WS) } else { ' ' } }
            else if k < w_nl + w_term + w_ws + w_near { *r.pick(NEAR) }
            else if multibyte { *r.pick(OTHER) } else { *r.pick(&OTHER[..9]) };
        s.push(c);
    }
    s
}

fn gen_manifest_case(r: &mut Rng) -> (String, usize, Vec<String>) {
    let mut tags = vec![];
    let size = r.below(10);
    let (len, cc) = match size {
        0..=2 => { let l = r.below(60) as usize; (l, r.range(1, 12) as usize) }
        3..=6 => { let l = r.range(40, 400) as usize; (l, r.range(1, 90) as usize) }
        // slack = cc/5 > 32 only from cc = 165
        _ => { let cc = r.range(150, 420) as usize; (r.range(cc as u64, 4 * cc as u64 + 200) as usize, cc) }
    };
    tags.push(match size { 0..=2 => "small", 3..=6 => "medium", _ => "large" }.to_string());
    let slack = std::cmp::max(cc / 5, 32);
    let style = r.below(12);
    let multibyte = r.chance(1, 2);
    let mut text = match style {
        0 => { tags.push("mixed".into()); let (a, b, c, d) = (r.below(30), r.below(80), r.below(200), r.below(40)); class_text(r, len, a, b, c, d, multibyte) }
        1 => { tags.push("no-newline".into()); let (b, c) = (r.below(60), r.below(200)); class_text(r, len, 0, b, c, 20, multibyte) }
        2 => { tags.push("ws-only".into()); let c = r.range(5, 200); class_text(r, len, 0, 0, c, 30, multibyte) }
        3 => { tags.push("no-boundary".into()); class_text(r, len, 0, 0, 0, 60, multibyte) }
        4 => { tags.push("term-dense".into()); let b = r.range(300, 900); class_text(r, len, 0, b, 50, 0, multibyte) }
        5 => { tags.push("nl-dense".into()); let a = r.range(30, 120); class_text(r, len, a, 40, 150, 0, multibyte) }
        6 => { tags.push("sparse".into()); let (a, b, c) = (r.below(4), r.below(6), r.below(8)); class_text(r, len, a, b, c, 10, multibyte) }
        7 => { tags.push("prose".into());
               let mut s = String::new();
               while s.chars().count() < len {
                   let wl = r.range(1, 9); for _ in 0..wl { s.push(*r.pick(&OTHER[..5])); }
                   match r.below(12) { 0 => s.push_str(". "), 1 => s.push_str("! "), 2 => s.push('\n'), 3 => s.push_str("? "), _ => s.push(' ') }
               }
               s.chars().take(len).collect() }
        _ => {
            // planted: filler without boundaries, 1-3 marks at the edges of the first window
            tags.push("planted".into());
            let l = std::cmp::max(len, cc + slack + 3);
            let mut v: Vec<char> = (0..l).map(|_| *r.pick(&OTHER[..6])).collect();
            let edges = [0usize, 1, cc.saturating_sub(2), cc.saturating_sub(1), cc, cc + 1, cc + slack - 2, cc + slack - 1, cc + slack, cc + slack + 1];
            for _ in 0..r.range(1, 3) {
                let p = *r.pick(&edges);
                if p < v.len() {
                    v[p] = match r.below(4) { 0 => NL, 1 => *r.pick(TERMS), 2 => *r.pick(WS), _ => *r.pick(NEAR) };
                }
            }
            v.into_iter().collect()
        }
    };
    if style < 8 && r.chance(1, 5) && cc + slack < text.chars().count() {
        // also plant one mark at an edge of the first window
        let mut v: Vec<char> = text.chars().collect();
        let p = *r.pick(&[cc - 1, cc, cc + slack - 1, cc + slack]);
        if p < v.len() { v[p] = match r.below(3) { 0 => NL, 1 => '.', _ => ' ' }; tags.push("edge-mark".into()); }
        text = v.into_iter().collect();
    }
    let n = text.chars().count();
    let cc = match r.below(24) { 0 => 0, 1 => n, 2 => n + 1, 3 => n.saturating_sub(1), 4 => usize::MAX, 5 => 1, _ => cc };
    (text, cc, tags)
}

// ------------------------------------------------------------------ raw texts for plan_text_chunks
fn word(r: &mut Rng, multibyte: bool) -> String {
    let l = match r.below(20) { 0 => r.range(10, 30), _ => r.range(1, 9) };
    (0..l).map(|_| if multibyte && r.chance(1, 6) { *r.pick(&['\u{e9}', '\u{6f22}', '\u{1F600}', '\u{fb01}', '\u{FF01}', '\u{3002}']) } else { (b'a' + r.below(26) as u8) as char }).collect()
}

fn gen_prose(r: &mut Rng, target: usize, tags: &mut Vec<String>) -> String {
    let multibyte = r.chance(1, 3);
    if multibyte { tags.push("multibyte".into()); }
    let nl_mode = r.below(5); // 0 none, 1 rare, 2 paragraphs, 3 every ~20 chars, 4 crlf
    tags.push(format!("nl{}", nl_mode));
    let term_mode = r.below(6); // 0 none, 1 rare (beyond slack), else normal
    tags.push(format!("term{}", term_mode.min(2)));
    let mut s = String::new();
    let mut since_nl = 0usize;
    while s.chars().count() < target {
        if r.chance(1, 60) {
            // a whitespace-free run, sometimes longer than chunk + slack
            let l = if r.chance(1, 4) { r.range(1300, 1700) } else { r.range(40, 300) };
            for _ in 0..l { s.push((b'a' + r.below(26) as u8) as char); }
            tags.push("longrun".into());
        }
        let w = word(r, multibyte);
        since_nl += w.chars().count() + 1;
        s.push_str(&w);
        let t = match term_mode { 0 => false, 1 => r.chance(1, 400), _ => r.chance(1, 9) };
        if t { s.push(*r.pick(TERMS)); }
        let nl = match nl_mode { 0 => false, 1 => r.chance(1, 150), 2 => t && r.chance(1, 4), 3 => since_nl > 20, _ => r.chance(1, 30) };
        if nl {
            since_nl = 0;
            s.push_str(match (nl_mode, r.below(4)) { (4, _) => "\r\n", (_, 0) => "\n\n", (_, 1) => " \n", _ => "\n" });
        } else {
            s.push_str(match r.below(30) { 0 => "  ", 1 => "\t", 2 => "\u{A0}", 3 => " \u{2003}", _ => " " });
        }
    }
    s
}

/// ASCII words, single spaces: the normalizer returns it unchanged, so the normalized
/// length is exactly `len`.
fn exact_text(r: &mut Rng, len: usize) -> String {
    let mut s = String::new();
    let terms = r.chance(1, 2); // without terminals a 2400..2640 character text gives exactly two chunks
    while s.len() < len {
        let l = r.range(1, 9);
        for _ in 0..l { s.push((b'a' + r.below(26) as u8) as char); }
        if terms && r.chance(1, 10) { s.push('.'); }
        s.push(' ');
    }
    s.truncate(len);
    if s.ends_with(' ') { s.pop(); s.push('x'); }
    s
}

// ------------------------------------------------------------------ structured documents
#[derive(Clone, Copy, PartialEq)]
enum Defect { None, Some }

fn plain_word(r: &mut Rng) -> String { let l = r.range(2, 9); (0..l).map(|_| (b'a' + r.below(26) as u8) as char).collect() }
fn plain_line(r: &mut Rng, lo: u64, hi: u64) -> String {
    let n = r.range(lo, hi);
    let mut v: Vec<String> = (0..n).map(|_| plain_word(r)).collect();
    if r.chance(1, 3) { let i = r.below(v.len() as u64) as usize; v[i].push('.'); }
    let mut s = v.join(" ");
    // first letter upper case so that a line never looks like a list item / heading / rule
    s.replace_range(0..1, &s[0..1].to_uppercase());
    s
}

/// blocks separated by blank lines; `defect` allows the constructs the chunker is known to lose
/// or re-render (rules, stray pipe rows, unclosed fences, non-canonical tables/lists/fences)
fn gen_structured(r: &mut Rng, defect: Defect, tags: &mut Vec<String>) -> String {
    let mut blocks: Vec<String> = vec![];
    let mut total = 0usize;
    let want = r.range(2500, 7000) as usize;
    let mut have_struct = false;
    let d = |r: &mut Rng| defect == Defect::Some && r.chance(1, 3);
    while total < want || !have_struct {
        let kind = r.below(12);
        let b = match kind {
            0 => format!("{} {}", "#".repeat(r.range(1, 4) as usize), plain_line(r, 1, 5)),
            1..=3 => { let n = r.range(1, 4); (0..n).map(|_| plain_line(r, 4, 16)).collect::<Vec<_>>().join("\n") }
            4 => { // unordered list
                let marker = if d(r) { tags.push("d-list-marker".into()); *r.pick(&["*", "+"]) } else { "-" };
                let n = r.range(2, 8); (0..n).map(|_| format!("{} {}", marker, plain_line(r, 1, 8))).collect::<Vec<_>>().join("\n")
            }
            5 => { // ordered list
                let start = if r.chance(1, 3) { r.range(2, 40) } else { 1 };
                let same = d(r); if same { tags.push("d-list-number".into()); }
                let n = r.range(2, 8); (0..n).map(|i| format!("{}. {}", if same { start } else { start + i }, plain_line(r, 1, 8))).collect::<Vec<_>>().join("\n")
            }
            6..=8 => { // table
                have_struct = true;
                let cols = r.range(1, 5) as usize;
                let rows = match r.below(4) { 0 => r.range(0, 4), 1 => r.range(20, 150), _ => r.range(4, 40) };
                let compact = d(r); let sepstyle = if d(r) { r.range(1, 3) } else { 0 };
                if compact { tags.push("d-table-compact".into()); }
                if sepstyle > 0 { tags.push("d-table-sep".into()); }
                let fmt = |cells: Vec<String>| if compact { format!("|{}|", cells.join("|")) } else { format!("| {} |", cells.join(" | ")) };
                let mut lines = vec![fmt((0..cols).map(|_| plain_word(r)).collect())];
                lines.push(match sepstyle { 0 => format!("|{}|", vec!["---"; cols].join("|")), 1 => format!("| {} |", vec!["---"; cols].join(" | ")), 2 => format!("|{}|", vec![":---:"; cols].join("|")), _ => format!("|{}|", vec!["------"; cols].join("|")) });
                for _ in 0..rows {
                    let ncell = if r.chance(1, 12) { r.range(1, 6) as usize } else { cols };
                    lines.push(fmt((0..ncell).map(|_| if r.chance(1, 15) { format!("{} {}", plain_word(r), plain_word(r)) } else { plain_word(r) }).collect()));
                }
                tags.push(if lines.join("\n").chars().count() > 1200 { "table-split".into() } else { "table-whole".into() });
                lines.join("\n")
            }
            9 | 10 => { // code fence
                have_struct = true;
                let open = if d(r) { tags.push("d-fence-info".into()); r.pick(&["```rust,ignore", "``` python", "````", "```c++"]).to_string() } else { r.pick(&["```", "```rust", "```python", "```js"]).to_string() };
                let n = match r.below(4) { 0 => r.range(40, 200), _ => r.range(1, 25) };
                let mut lines = vec![open];
                for _ in 0..n { lines.push(match r.below(5) { 0 => format!("fn {}() {{", plain_word(r)), 1 => "}".to_string(), 2 => format!("let {} = {};", plain_word(r), r.below(1000)), 3 => format!("# {}", plain_word(r)), _ => format!("{}({}); // {}", plain_word(r), plain_word(r), plain_word(r)) }); }
                if d(r) && r.chance(1, 2) { tags.push("d-fence-unclosed".into()); have_struct = false; } else { lines.push("```".to_string()); }
                tags.push("code".into());
                lines.join("\n")
            }
            _ => {
                if d(r) { if r.chance(1, 2) { tags.push("d-rule".into()); r.pick(&["---", "***", "___", "-----"]).to_string() } else { tags.push("d-stray-row".into()); format!("| {} |", plain_line(r, 1, 5)) } }
                else { plain_line(r, 3, 10) }
            }
        };
        total += b.chars().count() + 1;
        blocks.push(b);
        if blocks.len() > 400 { break; }
    }
    blocks.join("\n\n")
}

fn is_rule(l: &str) -> bool { let t = l.trim_end(); t.len() >= 3 && (t.chars().all(|c| c == '-' || c == '*' || c == '_')) }
fn is_pipe_row(l: &str) -> bool { let t = l.trim(); t.len() >= 3 && t.starts_with('|') && t.ends_with('|') }
fn is_ulist(l: &str) -> Option<char> { let t = l.trim_start(); let mut c = t.chars(); let m = c.next()?; if (m == '-' || m == '*' || m == '+') && c.next().map_or(false, |x| x.is_whitespace()) && t[1..].trim().len() > 0 { Some(m) } else { None } }
fn is_olist(l: &str) -> bool { let t = l.trim_start(); let d = t.chars().take_while(|c| c.is_ascii_digit()).count(); d > 0 && t[d..].starts_with('.') && t[d + 1..].starts_with(|c: char| c.is_whitespace()) && t[d + 1..].trim().len() > 0 }

/// Coverage clause of the property on the implementation's plan for a structured text.
/// Returns the classes of every uncovered line, each with one example.
fn coverage_classes(normalized: &str, chunks: &[String]) -> Vec<(String, String)> {
    let doc = detect_structure(normalized);
    let mut out: Vec<(String, String)> = vec![];
    let mut off = 0usize;
    for line in normalized.split('\n') {
        let start = off; off += line.len() + 1;
        let t = line.trim();
        if t.is_empty() { continue; }
        if chunks.iter().any(|c| c.contains(t)) { continue; }
        // the element (by the detector's own byte offsets) the line belongs to
        let el = doc.elements.iter().find(|e| e.char_start <= start && start < std::cmp::max(e.char_end, e.char_start + 1));
        let class = match el.map(|e| &e.data) {
            Some(ElementData::Separator) => "separator-line-dropped",
            Some(ElementData::Table(tb)) => {
                let first_two: Vec<&str> = tb.raw_text.split('\n').take(2).collect();
                if first_two.len() == 2 && first_two[1].trim() == t { "table-separator-rerendered" }
                else if is_pipe_row(t) { "table-row-rerendered" } else { "structured-line-missing" }
            }
            Some(ElementData::CodeBlock(_)) => if t.starts_with("```") && start == el.unwrap().char_start { "fence-info-rerendered" } else { "structured-line-missing" },
            Some(ElementData::List(l)) => if l.ordered && is_olist(t) { "list-renumbered" } else if !l.ordered && matches!(is_ulist(t), Some('*') | Some('+')) { "list-marker-rerendered" } else { "structured-line-missing" },
            Some(_) => "structured-line-missing",
            None => if is_rule(t) { "separator-line-dropped" } else if is_pipe_row(t) { "stray-table-row-dropped" } else if t.starts_with("```") { "unclosed-fence-dropped" } else { "structured-line-missing" },
        };
        if !out.iter().any(|(c, _)| c == class) { out.push((class.to_string(), t.chars().take(80).collect())); }
    }
    out
}

const KNOWN_ORDER: &[&str] = &["stray-table-row-dropped", "unclosed-fence-dropped", "separator-line-dropped", "table-row-rerendered", "table-separator-rerendered", "fence-info-rerendered", "list-marker-rerendered", "list-renumbered"];

fn structured_violation(normalized: &str, chunks: &[String]) -> Option<String> {
    for (i, c) in chunks.iter().enumerate() { if c.trim().is_empty() { return Some(format!("structured-empty-chunk: chunk {} of the structured plan is empty", i)); } }
    let cl = coverage_classes(normalized, chunks);
    if cl.is_empty() { return None; }
    // an unexplained loss is reported before any known class
    if let Some((c, ex)) = cl.iter().find(|(c, _)| !KNOWN_ORDER.contains(&c.as_str())) { return Some(format!("{}: the line {:?} of the normalized text is in no chunk", c, ex)); }
    let all: Vec<&str> = cl.iter().map(|(c, _)| c.as_str()).collect();
    let (c, ex) = KNOWN_ORDER.iter().find_map(|k| cl.iter().find(|(c, _)| c == k)).unwrap();
    Some(format!("{}: the line {:?} of the normalized text is in no chunk (classes in this text: {})", c, ex, all.join(",")))
}

/// one minimal document per known class: padding + one construct
fn witness_docs() -> Vec<(&'static str, String)> {
    let pad: String = (0..60).map(|i| format!("Plain sentence number {} with a few more words in it.", i)).collect::<Vec<_>>().join("\n");
    let small_table = "| a | b |\n|---|---|\n| 1 | 2 |";
    let big = |hdr: &str, sep: &str, row: &dyn Fn(usize) -> String| { let mut v = vec![hdr.to_string(), sep.to_string()]; for i in 0..160 { v.push(row(i)); } v.join("\n") };
    vec![
        ("separator-line-dropped", format!("{}\n\n***\n\n{}\n\nTail line.", pad, small_table)),
        ("stray-table-row-dropped", format!("{}\n\n| important note without a separator row |\n\nMore text.\n\n{}", pad, small_table)),
        ("unclosed-fence-dropped", format!("{}\n\n{}\n\n```python\nprint(1)", pad, small_table)),
        ("table-row-rerendered", format!("{}\n\n{}", pad, big("| name | value |", "|---|---|", &|i| format!("|row{}|{}|", i, i * 7)))),
        ("table-separator-rerendered", format!("{}\n\n{}", pad, big("| name | value |", "|------|-------|", &|i| format!("| row{} | {} |", i, i * 7)))),
        ("fence-info-rerendered", format!("{}\n\n```rust,ignore\nfn main() {{}}\n```", pad)),
        ("list-marker-rerendered", format!("{}\n\n* first item\n* second item\n\n{}", pad, small_table)),
        ("list-renumbered", format!("{}\n\n1. first item\n1. second item\n\n{}", pad, small_table)),
    ]
}

/// documents built to sit exactly on the chunker's comparisons
fn engineered_docs(r: &mut Rng) -> Vec<(&'static str, String)> {
    let pad: String = (0..45).map(|i| format!("Padding sentence number {} with a few more words in it.", i)).collect::<Vec<_>>().join("\n");
    let small_table = "| a | b |\n|---|---|\n| 1 | 2 |";
    let mut out = vec![];
    // table raw_text of exactly 1200 / 1201 characters (whole vs split)
    for extra in [12usize, 13] {
        let mut v = vec!["| name | value |".to_string(), "|---|---|".to_string()];
        for _ in 0..82 { v.push("| abc | def |".to_string()); }
        v.push(format!("| abc{} | def |", "x".repeat(extra)));
        out.push(("eng-table-1200", format!("{}\n\n{}", pad, v.join("\n"))));
    }
    // rows_per_chunk: available = 1200 - (26 + 10) = 1164 = 97 * 12, every row estimates 12
    { let mut v = vec!["| name | value |".to_string(), "|---|---|".to_string()];
      for _ in 0..r.range(200, 230) { v.push("| abc | def |".to_string()); }
      out.push(("eng-rows-per-chunk", format!("{}\n\n{}", pad, v.join("\n")))); }
    // paragraph overflow: current (a + 9) + text = 1200 / 1201
    for b in [591usize, 592] {
        out.push(("eng-para-1200", format!("# H\n{}\n# K\n{}\n\n{}\n\n{}", exact_text(r, 600), exact_text(r, b), small_table, pad)));
    }
    // list overflow: current + list text = 1200 / 1201 ("- " + 7 = 9 characters of list)
    for a in [1191usize, 1192] {
        out.push(("eng-list-1200", format!("{}\n- abcdefg\n\n{}\n\n{}", exact_text(r, a), small_table, pad)));
    }
    // pending heading is dropped by a rule
    out.push(("eng-pending-rule", format!("# Title\n{}\n***\n{}\n- a\n- b\n{}\n\n{}\n\n{}", exact_text(r, 300), exact_text(r, 700), exact_text(r, 600), small_table, pad)));
    // pending heading is re-inserted after an overflow
    out.push(("eng-pending-keep", format!("# Title\n{}\n- a\n- b\n{}\n\n{}\n\n{}", exact_text(r, 700), exact_text(r, 600), small_table, pad)));
    out
}

fn manifest_case(text: &str, cc: usize, mut tags: Vec<String>, w: &mut dyn std::io::Write) {
    let nchars = text.chars().count();
    let got = std::panic::catch_unwind(|| verif_hooks::build_chunk_manifest(text, cc));
    let (out, viol, nontrivial) = match &got {
        Err(_) => (panic_t(), Some("manifest-panic: build_chunk_manifest panicked".to_string()), true),
        Ok(None) => {
            tags.push("none".into());
            let v = if cc > 0 && nchars > cc { Some(format!("manifest-none: no plan for {} characters with chunk size {}", nchars, cc)) } else { None };
            (ok(T::none()), v, false)
        }
        Ok(Some((ranges, chunks))) => {
            tags.push(format!("chunks{}", match ranges.len() { 0..=1 => "1", 2..=3 => "2-3", 4..=9 => "4-9", _ => "10+" }));
            let mut v = partition_violation(text, ranges, chunks);
            if v.is_none() { let slack = std::cmp::max(cc / 5, 32); if let Some((i, _)) = ranges.iter().enumerate().find(|(_, (a, b))| b - a > cc + slack) { v = Some(format!("partition-size: range {} is longer than chunk size + slack", i)); } }
            (ok(T::some(T::Tup(vec![ranges_t(ranges), chunks_t(chunks)]))), v, ranges.len() >= 2)
        }
    };
    // corpus texts hold no control characters but '\n': plain string literals parse 3x faster than hex
    let plain = tags.iter().any(|t| t == "corpus") && text.chars().all(|c| c == '\n' || (c >= ' ' && !('\u{7f}'..='\u{9f}').contains(&c)));
    let input = T::Tup(vec![if plain { text_s(text) } else { text_t(text) }, T::N(cc as u128)]);
    emit(w, "manifest", &Case { input, output: out, violation: viol, nontrivial, tags, key: key_of(&[text.as_bytes(), &cc.to_le_bytes()]) });
}

// ------------------------------------------------------------------ fixed threshold corpus
// Every size the planner compares against, met at the constant and constant +-1 measured in
// CHARACTERS and, separately, in BYTES, with 1-, 2-, 3- and 4-byte code points, so that a
// comparison made in the wrong unit changes the outcome of some case.  The corpus does not
// depend on the seed and is emitted before the generated cases.
#[derive(Clone, Copy, PartialEq)]
enum Unit { Chars, Bytes }
fn measure(s: &str, u: Unit) -> usize { match u { Unit::Chars => s.chars().count(), Unit::Bytes => s.len() } }

/// code points that NFKC leaves alone
const A1: &[char] = &['a', 'b', 'c', 'd', 'e', 'n', 'o', 's', 't', 'u'];
const A2: &[char] = &['\u{e9}', '\u{f1}', '\u{fc}', '\u{f6}', '\u{e0}', '\u{e7}', '\u{df}', '\u{f8}', '\u{3b1}', '\u{436}'];
const A3: &[char] = &['\u{6f22}', '\u{5b57}', '\u{6587}', '\u{672c}', '\u{65e5}', '\u{8a9e}', '\u{4e2d}', '\u{56fd}', '\u{3042}', '\u{30ab}'];
const A4: &[char] = &['\u{1F600}', '\u{1F680}', '\u{1F30D}', '\u{1F389}', '\u{1F4DA}', '\u{1F431}', '\u{20000}', '\u{1D11E}'];
const AMIX: &[char] = &['a', 'e', 't', '\u{e9}', '\u{fc}', '\u{6f22}', '\u{5b57}', '\u{1F600}', 'o', '\u{3042}'];
fn alphabets() -> Vec<(&'static str, &'static [char])> { vec![("b1", A1), ("b2", A2), ("b3", A3), ("b4", A4), ("mix", AMIX)] }

/// words over `alpha` with single ASCII separators, exactly `len` units long; unchanged by
/// normalize_text (no leading/trailing/double whitespace).  style 0: words and spaces, some
/// sentence ends; 1: lines (newline every ~40 characters); 2: no whitespace at all (CJK-like run
/// with ideographic full stops); 3: words and spaces, no terminals.
fn mb_text(r: &mut Rng, alpha: &[char], unit: Unit, len: usize, style: u64) -> String {
    if len == 0 { return String::new(); }
    let mut s = String::new(); let mut since_nl = 0usize;
    while measure(&s, unit) < len + 8 {
        let wl = r.range(1, 9);
        for _ in 0..wl { s.push(*r.pick(alpha)); }
        since_nl += wl as usize + 1;
        match style {
            0 => { if r.chance(1, 9) { s.push(*r.pick(TERMS)); } s.push(' '); }
            1 => { if r.chance(1, 9) { s.push('.'); } if since_nl > 40 { s.push('\n'); since_nl = 0; } else { s.push(' '); } }
            2 => { if r.chance(1, 9) { s.push('\u{3002}'); } }
            _ => { s.push(' '); }
        }
    }
    // cut back to at most len units, never ending in whitespace, then pad to exactly len
    while measure(&s, unit) > len { s.pop(); }
    while s.ends_with(' ') || s.ends_with('\n') { s.pop(); }
    let filler = alpha[0];
    loop {
        let m = measure(&s, unit);
        if m == len { break; }
        let step = if unit == Unit::Bytes { filler.len_utf8() } else { 1 };
        if m + step <= len { s.push(filler); } else { s.push('x'); }
    }
    s
}

/// a raw text that normalize_text maps back to `target`: doubled/tab whitespace, CRLF and blank
/// lines, full-width punctuation (NFKC folds it), surrounding blank space
fn denormalize(r: &mut Rng, target: &str) -> String {
    let mut s = String::from(*r.pick(&["", "  ", "\n\n", "\t\r\n "]));
    for c in target.chars() {
        match c {
            ' ' => s.push_str(*r.pick(&[" ", " ", "  ", "\t", " \t ", "\u{3000}", "\u{a0}"])),
            '\n' => s.push_str(*r.pick(&["\n", "\n\n", "\r\n", " \n", "\r\n\r\n", "\n \n", "\r"])),
            '!' => s.push(*r.pick(&['!', '\u{FF01}'])),
            '?' => s.push(*r.pick(&['?', '\u{FF1F}'])),
            '.' => s.push(*r.pick(&['.', '.', '\u{FF0E}'])),
            'a' => s.push(*r.pick(&['a', 'a', '\u{FF41}'])),
            _ => s.push(c),
        }
    }
    s.push_str(*r.pick(&["", " ", "\n", "\r\n\t"]));
    s
}

/// a markdown table whose raw text (header, separator, rows joined by '\n') measures exactly `target`
fn table_exact(alpha: &[char], sep: &str, unit: Unit, target: usize) -> String {
    let c = |i: usize, n: usize| -> String { (0..n).map(|k| alpha[(i + k) % alpha.len()]).collect() };
    let mut v = vec![format!("| {} | {} |", c(0, 2), c(1, 2)), sep.to_string()];
    let mut i = 0usize;
    loop {
        let row = format!("| {} | {} |", c(i, 3), c(i + 1, 3));
        let m = measure(&v.join("\n"), unit) + 1 + measure(&row, unit);
        // leave room for the shortest possible last row
        let last_min = 1 + measure(&format!("| {} | {} |", c(i + 1, 1), c(i + 2, 3)), unit);
        if m + last_min > target { break; }
        v.push(row); i += 1;
    }
    // last row: first cell stretched to land exactly on target
    let base = |cell: &str| { let mut w = v.clone(); w.push(format!("| {} | {} |", cell, c(i + 1, 3))); w.join("\n") };
    let mut cell = c(i, 1);
    loop {
        let m = measure(&base(&cell), unit);
        if m >= target { break; }
        let f = alpha[0]; let step = if unit == Unit::Bytes { f.len_utf8() } else { 1 };
        if m + step <= target { cell.push(f); } else { cell.push('x'); }
    }
    base(&cell)
}

fn threshold_corpus(w: &mut dyn std::io::Write) {
    let mut r = Rng::new(0xC34_C0DE);
    let r = &mut r;
    let units = [(Unit::Chars, "chars"), (Unit::Bytes, "bytes")];
    // ---- CHUNK_MIN_CHARS = 2400 : the "too short to chunk" gate of plan_text_chunks
    for (an, alpha) in alphabets() {
        for (unit, un) in units {
            if an == "b1" && unit == Unit::Bytes { continue; } // same as chars for ASCII
            for (k, len) in [2399usize, 2400, 2401].into_iter().enumerate() {
                let style = (k as u64 + if unit == Unit::Bytes { 1 } else { 0 }) % 4;
                let t = mb_text(r, alpha, unit, len, style);
                plan_case(&t, vec!["corpus".into(), format!("gate-{}-{}-{}", un, len, an), format!("style{}", style)], w);
                // the same normalized text reached from a non-normalized raw text
                let raw = denormalize(r, &t);
                let okn = normalize_text(&raw, usize::MAX).map(|n| n.text) == Some(t.clone());
                plan_case(&raw, vec!["corpus".into(), format!("gate-{}-{}-{}-raw", un, len, an), if okn { "denorm-exact".into() } else { "denorm-differs".into() }], w);
            }
        }
        if an == "b1" { continue; }
        // characters below 2400 <= bytes: must stay unplanned although it is "long" in bytes;
        // 1201..2399 characters would give two or more chunks if the gate let them through
        for (k, chars) in [1201usize, 1500, 1800, 2399].into_iter().enumerate() {
            if chars * alpha.iter().map(|c| c.len_utf8()).min().unwrap() < 2400 && an != "mix" { continue; }
            let t = mb_text(r, alpha, Unit::Chars, chars, k as u64 % 4);
            let straddles = t.len() >= 2400;
            plan_case(&t, vec!["corpus".into(), format!("gate-chars{}-below-bytes-{}-{}", chars, if straddles { "above" } else { "below" }, an)], w);
        }
    }
    // the demonstration class: ~1500 CJK characters in short lines separated by blank lines
    for alpha in [A3, A4, A2] {
        let lines: Vec<String> = (0..38).map(|_| { let n = r.range(30, 48); (0..n).map(|_| *r.pick(alpha)).collect::<String>() }).collect();
        let raw = lines.join("\n\n");
        plan_case(&raw, vec!["corpus".into(), format!("gate-blank-lines-{}b", alpha[0].len_utf8())], w);
        let raw2 = lines.join("\u{3002}\r\n\r\n");
        plan_case(&raw2, vec!["corpus".into(), format!("gate-crlf-lines-{}b", alpha[0].len_utf8())], w);
    }
    // structured path (table / list present) at the same gate
    for (an, alpha) in alphabets() {
        let tbl = format!("| {a}{b} | {b}{a} |\n|---|---|\n| {a} | {b} |\n| {b}{b} | {a}{a} |", a = alpha[0], b = alpha[1]);
        let lst = format!("- {a}{b}{a}\n- {b}{a}", a = alpha[0], b = alpha[1]);
        for (unit, un) in units {
            if an == "b1" && unit == Unit::Bytes { continue; }
            for len in [2399usize, 2400, 2401] {
                let head = if len == 2400 { format!("{}\n{}", lst, tbl) } else { tbl.clone() };
                let fill = len - measure(&head, unit) - 1;
                let t = format!("{}\n{}", head, mb_text(r, alpha, unit, fill, 1));
                let raw = if len == 2401 { denormalize(r, &t) } else { t.replace('\n', "\n\n") };
                plan_case(&raw, vec!["corpus".into(), format!("sgate-{}-{}-{}", un, len, an)], w);
            }
        }
        if an != "b1" {
            let t = format!("{}\n\n{}\n\n{}", lst, tbl, mb_text(r, alpha, Unit::Chars, 1500, 1));
            plan_case(&t, vec!["corpus".into(), format!("sgate-chars1500-{}", an)], w);
        }
    }
    // ---- chunk size: total_chars <= chunk_chars, the window target + slack, in both units
    for (an, alpha) in alphabets() {
        if an == "b1" { continue; }
        for cc in [8usize, 40, 200, 1200] {
            let slack = std::cmp::max(cc / 5, 32);
            for (unit, un) in units {
                for d in [0usize, 1, 2] {
                    // length cc-1, cc, cc+1 : None / None / Some
                    let t = mb_text(r, alpha, unit, cc + d - 1, (d as u64 + cc as u64) % 4);
                    manifest_case(&t, cc, vec!["corpus".into(), format!("size-{}-cc{}{:+}-{}", un, cc, d as i64 - 1, an)], w);
                }
                if cc == 1200 && an != "b3" { continue; }
                for d in [0usize, 1, 2] {
                    // the forward window ends exactly at / one before / one past the end of the text
                    let t = mb_text(r, alpha, unit, cc + slack + d - 1, 2);
                    manifest_case(&t, cc, vec!["corpus".into(), format!("window-{}-cc{}{:+}-{}", un, cc, d as i64 - 1, an)], w);
                    // a single boundary as the last character of the window
                    let mut v: Vec<char> = t.chars().collect();
                    if unit == Unit::Chars && v.len() > cc + slack - 1 { v[cc + slack - 1] = *r.pick(&['\n', '.', ' ']); let t2: String = v.into_iter().collect(); manifest_case(&t2, cc, vec!["corpus".into(), format!("window-mark-cc{}{:+}-{}", cc, d as i64 - 1, an)], w); }
                }
            }
        }
    }
    // ---- structural chunker, max_chars = 1200, in both units
    let pad: String = (0..45).map(|i| format!("Padding sentence number {} with a few more words in it.", i)).collect::<Vec<_>>().join("\n");
    let small_table = "| a | b |\n|---|---|\n| 1 | 2 |";
    for (an, alpha) in [("b2", A2), ("b3", A3), ("b4", A4), ("mix", AMIX)] {
        for (unit, un) in units {
            // table.char_count() <= max_chars : whole (raw text kept) vs split (re-rendered).
            // The separator is written "|----|----|" so that the two outcomes differ in text.
            for len in [1199usize, 1200, 1201] {
                if (an == "b2" || an == "b4") && len == 1199 { continue; }
                let t = table_exact(alpha, "|----|----|", unit, len);
                plan_case(&format!("{}\n\n{}", pad, t), vec!["corpus".into(), format!("stable-{}-{}-{}", un, len, an)], w);
            }
            if an == "b4" { continue; }
            // paragraph: current (a + 9) + text > max_chars
            for b in [591usize, 592] {
                let doc = format!("# H\n{}\n# K\n{}\n\n{}\n\n{}", mb_text(r, alpha, unit, 600, 3), mb_text(r, alpha, unit, b, 3), small_table, pad);
                plan_case(&doc, vec!["corpus".into(), format!("spara-{}-{}-{}", un, 609 + b, an)], w);
            }
            // list: current + list text > max_chars  (list text "- " + 7 units)
            for a in [1191usize, 1192] {
                let item = mb_text(r, alpha, unit, 7, 2);
                let doc = format!("{}\n- {}\n\n{}\n\n{}", mb_text(r, alpha, unit, a, 3), item, small_table, pad);
                plan_case(&doc, vec!["corpus".into(), format!("slist-{}-{}-{}", un, a + 9, an)], w);
            }
        }
        // rows per chunk: header and cell sizes counted in characters
        { let mut v = vec![format!("| {a}{b} | {b}{a} |", a = alpha[0], b = alpha[1]), "|---|---|".to_string()];
          for i in 0..210 { v.push(format!("| {a}{b}{a} | {b}{a}{b} |", a = alpha[i % alpha.len()], b = alpha[(i + 1) % alpha.len()])); }
          plan_case(&format!("{}\n\n{}", pad, v.join("\n")), vec!["corpus".into(), format!("srows-{}", an)], w); }
        // one code block only: a single structural chunk, nothing is planned
        { let code: Vec<String> = (0..70).map(|i| format!("let v{} = \"{}\";", i, mb_text(r, alpha, Unit::Chars, 24, 3))).collect();
          plan_case(&format!("```\n{}\n```", code.join("\n")), vec!["corpus".into(), format!("ssingle-{}", an)], w); }
    }
}

pub fn run(seed: u64, n: usize, w: &mut dyn std::io::Write) {
    threshold_corpus(w);
    let mut r = Rng::new(seed ^ 0xC34);
    // ---------------- stream "manifest"
    for _ in 0..n {
        let (text, cc, tags) = gen_manifest_case(&mut r);
        manifest_case(&text, cc, tags, w);
    }
    // ---------------- streams "plan" (unstructured or below threshold) and "structured"
    let n_plan = (n / 8).max(12);
    for k in 0..n_plan {
        let mut tags = vec![];
        let text = match k % 12 {
            0 => { tags.push("exact".into()); let l = [2400usize, 2399, 2401][(k / 12) % 3]; exact_text(&mut r, l) }
            6 => { tags.push("exact".into()); let l = *r.pick(&[2400usize, 2398, 2402, 1440, 2640, 2641, 3600, 2500]); exact_text(&mut r, l) }
            1 => { tags.push("short".into()); let t = r.range(0, 2390) as usize; gen_prose(&mut r, t, &mut tags) }
            2 => { tags.push("blank".into()); " \n\t \r\n".repeat(r.below(5) as usize) }
            3 => { tags.push("short-structured".into()); format!("| a | b |\n|---|---|\n| 1 | 2 |\n\n{}", exact_text(&mut r, 300)) }
            4 => { tags.push("near".into()); let t = r.range(2380, 2460) as usize; gen_prose(&mut r, t, &mut tags) }
            5 => { tags.push("big".into()); let t = r.range(5000, 11000) as usize; gen_prose(&mut r, t, &mut tags) }
            _ => { let t = r.range(2400, 5000) as usize; gen_prose(&mut r, t, &mut tags) }
        };
        tags.sort(); tags.dedup();
        plan_case(&text, tags, w);
    }
    let n_struct = (n / 10).max(12);
    for k in 0..n_struct {
        let mut tags = vec![];
        let text = gen_structured(&mut r, if k % 3 == 0 { Defect::Some } else { Defect::None }, &mut tags);
        tags.sort(); tags.dedup();
        plan_case(&text, tags, w);
    }
    for (class, text) in witness_docs() { plan_case(&text, vec![format!("witness-{}", class)], w); }
    for (tag, text) in engineered_docs(&mut r) { plan_case(&text, vec![tag.to_string()], w); }
}

fn plan_case(text: &str, mut tags: Vec<String>, w: &mut dyn std::io::Write) {
    let normalized: Option<String> = normalize_text(text, usize::MAX).map(|n| n.text);
    let nchars = normalized.as_ref().map_or(0, |s| s.chars().count());
    let has_structure = normalized.as_ref().map_or(false, |s| detect_structure(s).has_structure());
    let got = std::panic::catch_unwind(|| verif_hooks::plan_text_chunks(text));
    let key = key_of(&[text.as_bytes()]);
    let out = match &got {
        Err(_) => panic_t(),
        Ok(None) => ok(T::none()),
        Ok(Some((cc, ranges, chunks))) => ok(T::some(T::Tup(vec![T::N(*cc as u128), ranges_t(ranges), chunks_t(chunks)]))),
    };
    let above = nchars >= 2400;
    tags.push(if above { "above".into() } else { "below".into() });
    if has_structure && above {
        // structured half: the chunker model runs on detect_structure's output; the coverage
        // clause is checked on the implementation's plan
        let norm = normalized.clone().unwrap();
        let doc = detect_structure(&norm);
        // lines of the normalized text with their byte offsets
        let mut lines: Vec<(usize, &str)> = vec![]; let mut off = 0usize;
        for l in norm.split('\n') { lines.push((off, l)); off += l.len() + 1; }
        let mut owned = vec![false; lines.len()];
        let mut elems: Vec<T> = vec![]; let mut unmodelled = false; let mut rust_known = false;
        for e in &doc.elements {
            let mut src: Vec<String> = vec![];
            for (i, (o, l)) in lines.iter().enumerate() {
                if e.char_start <= *o && *o < std::cmp::max(e.char_end, e.char_start + 1) { owned[i] = true; if !l.trim().is_empty() { src.push(l.trim().to_string()); } }
            }
            let (kind, strs, rows): (u128, Vec<String>, Vec<(String, usize)>) = match &e.data {
                ElementData::Table(t) => (0, vec![t.raw_text.clone(), t.format_header()], t.data_rows().map(|row| (t.format_row(row), row.cells.iter().map(|c| c.text.chars().count()).sum::<usize>() + row.cells.len() * 3)).collect()),
                ElementData::CodeBlock(b) => (1, vec![b.format()], vec![]),
                ElementData::Heading(h) => (2, vec![h.format()], vec![]),
                ElementData::List(l) => (3, vec![l.format()], vec![]),
                ElementData::Paragraph { text } => (4, vec![text.clone()], vec![]),
                ElementData::Separator => (5, vec![], vec![]),
                _ => { unmodelled = true; (5, vec![], vec![]) }
            };
            // the theorem's `faithful`, re-computed here: every source line inside a kept string
            let kept: Vec<String> = match kind { 0 => if strs[0].chars().count() <= 1200 { vec![strs[0].clone()] } else { let mut k = vec![strs[1].clone()]; k.extend(rows.iter().map(|r| r.0.clone())); k }, 5 => vec![], _ => strs.clone() };
            if !src.iter().all(|l| kept.iter().any(|k| k.trim().contains(l.as_str()))) { rust_known = true; }
            let same = !strs.is_empty() && src == strs[0].split('\n').filter(|l| !l.is_empty()).map(|l| l.to_string()).collect::<Vec<_>>();
            let src_t = if same { T::none() } else { T::some(T::L(src.iter().map(|x| text_s(x)).collect())) };
            elems.push(T::Tup(vec![T::N(kind), T::L(strs.iter().map(|x| text_s(x)).collect()), T::L(rows.iter().map(|(x, n)| T::Tup(vec![text_s(x), T::N(*n as u128)])).collect()), src_t]));
        }
        let skipped: Vec<String> = lines.iter().enumerate().filter(|(i, (_, l))| !owned[*i] && !l.trim().is_empty()).map(|(_, (_, l))| l.trim().to_string()).collect();
        if !skipped.is_empty() { rust_known = true; }
        let mut viol = match &got {
            Err(_) => Some("structured-panic: plan_text_chunks panicked".to_string()),
            Ok(None) => { tags.push("single".into()); None } // a single structural chunk: nothing is planned
            Ok(Some((_, ranges, chunks))) => {
                if ranges.len() != chunks.len() { Some(format!("structured-count: {} ranges for {} chunks", ranges.len(), chunks.len())) }
                else { structured_violation(&norm, chunks) }
            }
        };
        if unmodelled { viol = Some("structured-unmodelled-element: detect_structure produced a BlockQuote/Raw element".to_string()); }
        // a lost line is filed under a known finding only inside the theorem's known class
        if let Some(v) = &viol { let tag = v.split(':').next().unwrap_or(""); if KNOWN_ORDER.contains(&tag) && !rust_known { viol = Some(format!("structured-line-missing: outside the known class, yet {}", v)); } }
        tags.push(if rust_known { "known-class".into() } else { "clean".into() });
        let sout = T::Tup(vec![T::B(rust_known), match &got { Ok(Some((_, _, chunks))) => T::some(T::L(chunks.iter().map(|c| digest_t(c)).collect())), _ => T::none() }]);
        let nontrivial = matches!(&got, Ok(Some(_)));
        emit(w, "structured", &Case { input: T::Tup(vec![T::L(elems), T::L(skipped.iter().map(|x| text_s(x)).collect())]), output: sout, violation: viol, nontrivial, tags, key });
        return;
    }
    let viol = match &got {
        Err(_) => Some("plan-panic: plan_text_chunks panicked".to_string()),
        Ok(None) => if above { Some(format!("plan-none: no plan for an unstructured text of {} characters", nchars)) } else { None },
        Ok(Some((_, ranges, chunks))) => if has_structure { None } else { partition_violation(normalized.as_ref().unwrap(), ranges, chunks) },
    };
    let nontrivial = matches!(&got, Ok(Some(_)));
    let input = T::Tup(vec![match &normalized { None => T::none(), Some(s) => T::some(text_s(s)) }, T::B(has_structure)]);
    emit(w, "plan", &Case { input, output: out, violation: viol, nontrivial, tags, key });
}
