(* The serde schema of types::Toc (src/types/manifest.rs, frame.rs, metadata.rs, common.rs,
   ticket.rs, clip.rs, replay/types.rs) written over Model/Bincode.v, the two legacy layouts
   of src/toc.rs, and Toc::{decode, verify_checksum}.
   Field order = declaration order (serde derive); `#[serde(default)]` has no effect on a
   non-self-describing format; `deserialize_with = deserialize_vec_bounded::<LIMIT>` is the
   SVec/SMap bound.  Covered: every field of Toc and of every type reachable from it, except
   `memory_binding: Option<MemoryBinding>`, which is covered for `None` only (Uuid and
   chrono::DateTime<Utc> have their own string codecs): its schema is SOpt SUnsupported. *)
From MV Require Import Base.Prelude Model.Bincode.
Local Open Scope N_scope.

Definition MAX_TOC_SEGMENTS : N := 1000000.
Definition MAX_TOC_FRAMES : N := 10000000.
Definition MAX_SEGMENT_CATALOG_ENTRIES : N := 1000000.
Definition MAX_TAGS : N := 1024.
Definition MAX_LABELS : N := 1024.
Definition MAX_CONTENT_DATES : N := 1024.
Definition MAX_EXTRA_METADATA_ENTRIES : N := 4096.

Definition SF32 := SU32.     (* f32 as its bit pattern *)
Definition SF64 := SU64.
Definition SUsize := SU64.
Definition arr32 := SFix 32.
Definition opt_str := SOpt SStr.

Definition s_segment_compression := SEnum 3.      (* None, Zstd, Lz4 *)
Definition s_vector_compression := SEnum 2.       (* None, Pq96 *)
Definition s_segment_kind := SEnum 5.             (* Lexical, Vector, Time, Temporal, Tantivy *)
Definition s_anchor_source := SEnum 4.            (* Explicit, FrameTimestamp, Metadata, IngestionClock *)
Definition s_frame_role := SEnum 3.               (* Document, DocumentChunk, ExtractedImage *)
Definition s_frame_status := SEnum 3.             (* Active, Superseded, Deleted *)
Definition s_enrichment_state := SEnum 2.         (* Searchable, Enriched *)

(* SegmentSpan { frame_start, frame_end, page_start, page_end, token_start, token_end } *)
Definition s_segment_span := STup [SU64; SU64; SU32; SU32; SU64; SU64].
(* SegmentCommon { segment_id, bytes_offset, bytes_length, checksum, build_sequence, codec_version, compression, span } *)
Definition common_fields := [SU64; SU64; SU64; arr32; SU64; SU16; s_segment_compression; SOpt s_segment_span].
Definition s_segment_common := STup common_fields.
(* the five descriptors serialize `common` flattened, then their own fields *)
Definition s_lex_segment_descriptor := STup (common_fields ++ [SU64]).
Definition s_vec_segment_descriptor := STup (common_fields ++ [SU64; SU32; s_vector_compression]).
Definition s_time_segment_descriptor := STup (common_fields ++ [SU64]).
Definition s_temporal_segment_descriptor := STup (common_fields ++ [SU64; SU64; SU32]).
Definition s_tantivy_segment_descriptor := STup (common_fields ++ [SStr]).
(* SegmentStats { doc_count, vector_count, time_entries, bytes_uncompressed, build_micros } *)
Definition s_segment_stats := STup [SU64; SU64; SU64; SU64; SU64].
(* IndexSegmentRef { kind, common, stats } *)
Definition s_index_segment_ref := STup [s_segment_kind; s_segment_common; s_segment_stats].
(* SegmentCatalog { next_segment_id, version, lex_enabled, lex_segments, vec_segments, time_segments,
                    temporal_segments, tantivy_segments, index_segments } *)
Definition cat_bound := Some MAX_SEGMENT_CATALOG_ENTRIES.
Definition s_segment_catalog :=
  STup [SU64; SU32; SBool; SVec cat_bound s_lex_segment_descriptor; SVec cat_bound s_vec_segment_descriptor;
        SVec cat_bound s_time_segment_descriptor; SVec cat_bound s_temporal_segment_descriptor;
        SVec cat_bound s_tantivy_segment_descriptor; SVec cat_bound s_index_segment_ref].

(* LexIndexManifest { doc_count, generation, bytes_offset, bytes_length, checksum } *)
Definition s_lex_index_manifest := STup [SU64; SU64; SU64; SU64; arr32].
(* LexSegmentManifest { path, bytes_offset, bytes_length, checksum } *)
Definition s_lex_segment_manifest := STup [SStr; SU64; SU64; arr32].
(* VecIndexManifest { vector_count, dimension, bytes_offset, bytes_length, checksum, compression_mode, model } *)
Definition s_vec_index_manifest := STup [SU64; SU32; SU64; SU64; arr32; s_vector_compression; opt_str].
(* ClipIndexManifest { bytes_offset, bytes_length, vector_count, dimension, checksum, model_name } *)
Definition s_clip_index_manifest := STup [SU64; SU64; SU64; SU32; arr32; SStr].
(* IndexManifests { lex, lex_segments, vec, clip } *)
Definition s_index_manifests :=
  STup [SOpt s_lex_index_manifest; SVec None s_lex_segment_manifest; SOpt s_vec_index_manifest; SOpt s_clip_index_manifest].

(* SegmentMeta { id, frame_range: (u64, u64), primary_checksum, compression, bytes_offset, bytes_length } *)
Definition s_segment_meta := STup [SU64; STup [SU64; SU64]; arr32; s_segment_compression; SU64; SU64].

(* TimeIndexManifest { bytes_offset, bytes_length, entry_count, checksum } *)
Definition s_time_index_manifest := STup [SU64; SU64; SU64; arr32].
(* TemporalTrackManifest { bytes_offset, bytes_length, entry_count, anchor_count, checksum, flags } *)
Definition s_temporal_track_manifest := STup [SU64; SU64; SU64; SU64; arr32; SU32].
(* MemoriesTrackManifest { bytes_offset, bytes_length, card_count, entity_count, checksum } *)
Definition s_memories_track_manifest := STup [SU64; SU64; SU64; SU64; arr32].
(* LogicMeshManifest { bytes_offset, bytes_length, node_count, edge_count, checksum } *)
Definition s_logic_mesh_manifest := STup [SU64; SU64; SU64; SU64; arr32].
(* SketchTrackManifest { bytes_offset, bytes_length, entry_count, entry_size, flags, checksum } *)
Definition s_sketch_track_manifest := STup [SU64; SU64; SU64; SU16; SU32; arr32].
(* TicketRef { issuer, seq_no, expires_in_secs, capacity_bytes, verified } *)
Definition s_ticket_ref := STup [SStr; SI64; SU64; SU64; SBool].
(* ReplayManifest { segment_offset, segment_size, session_count, total_actions, version } *)
Definition s_replay_manifest := STup [SU64; SU64; SU32; SU64; SU32].
(* EnrichmentTask { frame_id, created_at, chunks_done, chunks_total } *)
Definition s_enrichment_task := STup [SU64; SU64; SU32; SU32].
(* EnrichmentQueueManifest { tasks, updated_at } *)
Definition s_enrichment_queue := STup [SVec None s_enrichment_task; SU64].

(* DocGpsMetadata { latitude, longitude } *)
Definition s_gps := STup [SF64; SF64].
(* DocExifMetadata { make, model, lens, datetime, gps } *)
Definition s_exif := STup [opt_str; opt_str; opt_str; opt_str; SOpt s_gps].
(* AudioSegmentMetadata { start_seconds, end_seconds, label } *)
Definition s_audio_segment := STup [SF32; SF32; opt_str].
(* DocAudioMetadata { duration_secs, sample_rate_hz, channels, bitrate_kbps, codec, segments, tags } *)
Definition s_audio := STup [SOpt SF32; SOpt SU32; SOpt SU8; SOpt SU32; opt_str; SVec None s_audio_segment; SMap None SStr].
(* MediaManifest { kind, mime, bytes, filename, duration_ms, width, height, codec } *)
Definition s_media := STup [SStr; SStr; SU64; opt_str; SOpt SU64; SOpt SU32; SOpt SU32; opt_str].
(* DocMetadata { mime, bytes, hash, width, height, colors, caption, exif, audio, media } *)
Definition s_doc_metadata :=
  STup [opt_str; SOpt SU64; opt_str; SOpt SU32; SOpt SU32; SOpt (SVec None SStr); opt_str; SOpt s_exif; SOpt s_audio; SOpt s_media].
(* TextChunkRange { start, end } ; TextChunkManifest { chunk_chars, chunks } *)
Definition s_text_chunk_range := STup [SUsize; SUsize].
Definition s_text_chunk_manifest := STup [SUsize; SVec None s_text_chunk_range].

(* Frame, 30 fields in declaration order *)
Definition s_frame :=
  STup [SU64;                         (* id *)
        SI64;                         (* timestamp *)
        SOpt SI64;                    (* anchor_ts *)
        SOpt s_anchor_source;         (* anchor_source *)
        opt_str;                      (* kind *)
        opt_str;                      (* track *)
        SU64;                         (* payload_offset *)
        SU64;                         (* payload_length *)
        arr32;                        (* checksum *)
        opt_str;                      (* uri *)
        opt_str;                      (* title *)
        SCanon;                       (* canonical_encoding *)
        SOpt SU64;                    (* canonical_length *)
        SOpt s_doc_metadata;          (* metadata *)
        opt_str;                      (* search_text *)
        SVec (Some MAX_TAGS) SStr;    (* tags *)
        SVec (Some MAX_LABELS) SStr;  (* labels *)
        SMap (Some MAX_EXTRA_METADATA_ENTRIES) SStr;   (* extra_metadata *)
        SVec (Some MAX_CONTENT_DATES) SStr;            (* content_dates *)
        SOpt s_text_chunk_manifest;   (* chunk_manifest *)
        s_frame_role;                 (* role *)
        SOpt SU64;                    (* parent_id *)
        SOpt SU32;                    (* chunk_index *)
        SOpt SU32;                    (* chunk_count *)
        s_frame_status;               (* status *)
        SOpt SU64;                    (* supersedes *)
        SOpt SU64;                    (* superseded_by *)
        SOpt arr32;                   (* source_sha256 *)
        opt_str;                      (* source_path *)
        s_enrichment_state].          (* enrichment_state *)

Definition s_memory_binding := SOpt SUnsupported.

(* Toc, 16 fields *)
Definition toc_schema :=
  STup [SU64;                                           (*  0 toc_version *)
        SVec (Some MAX_TOC_SEGMENTS) s_segment_meta;    (*  1 segments *)
        SVec (Some MAX_TOC_FRAMES) s_frame;             (*  2 frames *)
        s_index_manifests;                              (*  3 indexes *)
        SOpt s_time_index_manifest;                     (*  4 time_index *)
        SOpt s_temporal_track_manifest;                 (*  5 temporal_track *)
        SOpt s_memories_track_manifest;                 (*  6 memories_track *)
        SOpt s_logic_mesh_manifest;                     (*  7 logic_mesh *)
        SOpt s_sketch_track_manifest;                   (*  8 sketch_track *)
        s_segment_catalog;                              (*  9 segment_catalog *)
        s_ticket_ref;                                   (* 10 ticket_ref *)
        s_memory_binding;                               (* 11 memory_binding *)
        SOpt s_replay_manifest;                         (* 12 replay_manifest *)
        s_enrichment_queue;                             (* 13 enrichment_queue *)
        arr32;                                          (* 14 merkle_root *)
        arr32].                                         (* 15 toc_checksum *)

(* LegacyTocV2 (13 fields: no sketch_track, replay_manifest, enrichment_queue; plain Vec fields) *)
Definition toc_v2_schema :=
  STup [SU64; SVec None s_segment_meta; SVec None s_frame; s_index_manifests; SOpt s_time_index_manifest;
        SOpt s_temporal_track_manifest; SOpt s_memories_track_manifest; SOpt s_logic_mesh_manifest;
        s_segment_catalog; s_ticket_ref; s_memory_binding; arr32; arr32].
(* LegacyTocV1 (11 fields: additionally no memories_track, logic_mesh) *)
Definition toc_v1_schema :=
  STup [SU64; SVec None s_segment_meta; SVec None s_frame; s_index_manifests; SOpt s_time_index_manifest;
        SOpt s_temporal_track_manifest; s_segment_catalog; s_ticket_ref; s_memory_binding; arr32; arr32].

Definition queue_default : value := VList [VList []; VN 0].   (* EnrichmentQueueManifest::default() *)

(* impl From<LegacyTocV2> for Toc / From<LegacyTocV1> for Toc *)
Definition from_v2 (v : value) : value :=
  match v with
  | VList [a0; a1; a2; a3; a4; a5; a6; a7; a8; a9; a10; a11; a12] =>
      VList [a0; a1; a2; a3; a4; a5; a6; a7; VNone; a8; a9; a10; VNone; queue_default; a11; a12]
  | _ => v
  end.
Definition from_v1 (v : value) : value :=
  match v with
  | VList [a0; a1; a2; a3; a4; a5; a6; a7; a8; a9; a10] =>
      VList [a0; a1; a2; a3; a4; a5; VNone; VNone; VNone; a6; a7; a8; VNone; queue_default; a9; a10]
  | _ => v
  end.
(* the LegacyTocV2 / V1 values verify_checksum builds from a Toc *)
Definition to_v2 (t : value) : value :=
  match t with
  | VList [a0; a1; a2; a3; a4; a5; a6; a7; _; a9; a10; a11; _; _; a14; a15] =>
      VList [a0; a1; a2; a3; a4; a5; a6; a7; a9; a10; a11; a14; a15]
  | _ => t
  end.
Definition to_v1 (t : value) : value :=
  match t with
  | VList [a0; a1; a2; a3; a4; a5; _; _; _; a9; a10; a11; _; _; a14; a15] =>
      VList [a0; a1; a2; a3; a4; a5; a9; a10; a11; a14; a15]
  | _ => t
  end.

(* Toc::decode: current layout first; on a *decode error* the V2 layout, then V1; a layout
   that decodes but leaves bytes over is an immediate "unexpected trailing bytes" *)
Definition toc_decode (bs : bytes) : outcome value :=
  match dec toc_schema bs with
  | Ok (v, []) => Ok v
  | Ok (_, _ :: _) => Err E_TRAILING
  | Panic p => Panic p
  | Err _ =>
      match dec toc_v2_schema bs with
      | Ok (v, []) => Ok (from_v2 v)
      | Ok (_, _ :: _) => Err E_TRAILING
      | Panic p => Panic p
      | Err _ =>
          match dec toc_v1_schema bs with
          | Ok (v, []) => Ok (from_v1 v)
          | Ok (_, _ :: _) => Err E_TRAILING
          | Panic p => Panic p
          | Err _ => Err E_DECODE
          end
      end
  end.

Definition toc_encode (t : value) : bytes := enc toc_schema t.

(* ---------- checksum ---------- *)
Definition zero32 : value := VStr (repeat 0 32).
Definition field (i : nat) (t : value) : value := match t with VList l => nth i l VNone | _ => VNone end.
Definition set_checksum (c : value) (t : value) : value :=
  match t with VList l => VList (firstn 15 l ++ [c]) | _ => t end.
Definition is_none (v : value) : bool := match v with VNone => true | _ => false end.

Section Checksum.
  Variable H : bytes -> bytes.     (* BLAKE3 *)

  (* Toc::verify_checksum: true = Ok(()), false = Err(ChecksumMismatch) *)
  Definition verify_checksum (t : value) : bool :=
    let stored := field 15 t in
    let z := set_checksum zero32 t in
    if value_eqb (VStr (H (enc toc_schema z))) stored then true
    else if is_none (field 12 t) && value_eqb (VStr (H (enc toc_v2_schema (to_v2 z)))) stored then true
    else if is_none (field 6 t) && is_none (field 12 t) && value_eqb (VStr (H (enc toc_v1_schema (to_v1 z)))) stored then true
    else false.

  (* what commit does before writing: zero the field, hash the encoding, store the digest *)
  Definition stamp (t : value) : value := set_checksum (VStr (H (enc toc_schema (set_checksum zero32 t)))) t.
End Checksum.
