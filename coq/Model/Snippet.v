(* Model of src/lex.rs: compute_snippet_slices and its helpers
   (sentence_start_before, sentence_end_after, prev_char_boundary, next_char_boundary,
   advance_boundary), of core::str::is_char_boundary and of `&content[a..b]`.

   Text.  A Rust `&str` is modelled by its UTF-8 bytes (`bytes = list N`); byte offsets
   are `N` (a `usize` can be far outside the text).  `is_char_boundary` is the std
   definition verbatim:  index == 0, or index == len, or index < len and the byte at
   index is not a continuation byte ((b as i8) >= -0x40, i.e. b < 128 or b >= 192).

   `s.char_indices()` is modelled by `char_indices`: the (offset, lead byte) pairs of all
   positions holding a non-continuation byte.  On well-formed UTF-8 (the invariant of
   `str`) these are exactly the offsets `char_indices` yields, and a char equals an ASCII
   char c iff its lead byte equals c (Proofs/SnippetProofs.v, `decode_indices_eq`, shows
   that the width-stepping decoder and this filter agree on well-formed input).  The
   code only ever compares chars with the ASCII chars '.', '!', '?', '\n' and takes
   `len_utf8`, which is a function of the lead byte.

   Machine arithmetic.  `end + window / 2` is a checked add (debug profile: overflow
   panics).  All other additions are bounded by content.len() + 20 (content.len() <=
   isize::MAX; see `loop_inv` in the proofs: every stored end is <= len) and are written
   unchecked.  `saturating_sub` is N.sub (truncated).  No other operation of the function
   can panic: every `content[..idx]`/`content[idx..]` is preceded by prev_char_boundary,
   `as_bytes()[pos]` is guarded by pos < len, `window -= 1` by window != 0. *)
From Coq Require Import Sorted.
From MV Require Import Base.Prelude.
Local Open Scope N_scope.

Definition USIZE_LIMIT : N := 2 ^ 64.

Definition len (t : bytes) : N := N.of_nat (length t).
Definition byte_at (t : bytes) (i : N) : N := nth (N.to_nat i) t 0.

(* u8::is_utf8_char_boundary: (self as i8) >= -0x40 *)
Definition is_lead (b : N) : bool := (b <? 128) || (192 <=? b).

(* str::is_char_boundary *)
Definition is_char_boundary (t : bytes) (idx : N) : bool :=
  if idx =? 0 then true
  else if len t <=? idx then idx =? len t
  else is_lead (byte_at t idx).

(* &content[a..b] : panics unless a <= b and both are char boundaries (which implies
   b <= len) *)
Definition str_slice (t : bytes) (a b : N) : outcome bytes :=
  if (a <=? b) && is_char_boundary t a && is_char_boundary t b
  then Ok (firstn (N.to_nat (b - a)) (skipn (N.to_nat a) t))
  else Panic 2.

(* char::len_utf8 as a function of the lead byte *)
Definition utf8_width (b : N) : N :=
  if b <? 128 then 1 else if b <? 224 then 2 else if b <? 240 then 3 else 4.

(* char_indices of the string whose bytes are bs, offsets counted from pos *)
Fixpoint char_indices_from (bs : bytes) (pos : N) : list (N * N) :=
  match bs with
  | [] => []
  | b :: r => if is_lead b then (pos, b) :: char_indices_from r (pos + 1)
              else char_indices_from r (pos + 1)
  end.
Definition char_indices (bs : bytes) : list (N * N) := char_indices_from bs 0.

(* What the std decoder does on well-formed input: a char starts at pos, its width is a function of
   its lead byte, the next char starts `width` bytes later.  `utf8_shape` is the structural part of
   UTF-8 validity (every lead byte is followed by exactly width-1 continuation bytes).  The proofs
   show decode_indices = char_indices_from on such input (decode_indices_eq); the model uses the
   simpler char_indices_from. *)
Definition is_cont (b : N) : bool := (128 <=? b) && (b <? 192).
Fixpoint decode_indices (fuel : nat) (bs : bytes) (pos : N) : list (N * N) :=
  match fuel with
  | O => []
  | S f =>
      match bs with
      | [] => []
      | b :: r => (pos, b) :: decode_indices f (skipn (N.to_nat (utf8_width b) - 1) r) (pos + utf8_width b)
      end
  end.
Fixpoint utf8_shape (fuel : nat) (bs : bytes) : bool :=
  match bs with
  | [] => true
  | b :: r =>
      match fuel with
      | O => false
      | S f =>
          let k := (N.to_nat (utf8_width b) - 1)%nat in
          is_lead b && Nat.leb k (length r) && forallb is_cont (firstn k r) && utf8_shape f (skipn k r)
      end
  end.

(* fn prev_char_boundary(content, mut idx):
     if idx > len { idx = len }  while idx > 0 && !is_char_boundary(idx) { idx -= 1 } *)
Fixpoint prev_cb_loop (t : bytes) (fuel : nat) (idx : N) : N :=
  match fuel with
  | O => idx
  | S f => if (0 <? idx) && negb (is_char_boundary t idx) then prev_cb_loop t f (idx - 1) else idx
  end.
Definition prev_char_boundary (t : bytes) (idx : N) : N :=
  let idx := if len t <? idx then len t else idx in
  prev_cb_loop t (N.to_nat idx) idx.

(* fn next_char_boundary(content, mut idx):
     if idx > len { idx = len }  while idx < len && !is_char_boundary(idx) { idx += 1 } *)
Fixpoint next_cb_loop (t : bytes) (fuel : nat) (idx : N) : N :=
  match fuel with
  | O => idx
  | S f => if (idx <? len t) && negb (is_char_boundary t idx) then next_cb_loop t f (idx + 1) else idx
  end.
Definition next_char_boundary (t : bytes) (idx : N) : N :=
  let idx := if len t <? idx then len t else idx in
  next_cb_loop t (N.to_nat (len t - idx)) idx.

(* matches!(ch, '.' | '!' | '?') and '\n' *)
Definition is_stop (ch : N) : bool := (ch =? 46) || (ch =? 33) || (ch =? 63).
Definition is_newline (ch : N) : bool := ch =? 10.
(* u8::is_ascii_whitespace: space, \t, \n, \x0C, \r *)
Definition is_ascii_whitespace (b : N) : bool :=
  (b =? 32) || (b =? 9) || (b =? 10) || (b =? 12) || (b =? 13).

(* for (pos, ch) in content[..idx].char_indices() { if stop-or-newline { candidate = Some(pos + ch.len_utf8()) } } *)
Fixpoint last_candidate (cs : list (N * N)) (candidate : option N) : option N :=
  match cs with
  | [] => candidate
  | (pos, ch) :: r =>
      last_candidate r (if is_stop ch || is_newline ch then Some (pos + utf8_width ch) else candidate)
  end.

(* while pos < len && bytes[pos].is_ascii_whitespace() { pos += 1 };  bs = bytes from pos on *)
Fixpoint skip_ws (bs : bytes) (pos : N) : N :=
  match bs with
  | [] => pos
  | b :: r => if is_ascii_whitespace b then skip_ws r (pos + 1) else pos
  end.

Definition sentence_start_before (t : bytes) (idx : N) : option N :=
  if idx =? 0 then Some 0
  else
    let idx := N.min idx (len t) in
    let idx := prev_char_boundary t idx in
    match last_candidate (char_indices (firstn (N.to_nat idx) t)) None with
    | None => None
    | Some pos =>
        let pos := next_char_boundary t pos in
        let pos := skip_ws (skipn (N.to_nat pos) t) pos in
        Some (prev_char_boundary t pos)
    end.

(* for (offset, ch) in content[idx..].char_indices() { global = idx + offset; ... } *)
Fixpoint first_end (t : bytes) (idx : N) (cs : list (N * N)) : option N :=
  match cs with
  | [] => None
  | (offset, ch) :: r =>
      let global := idx + offset in
      if is_stop ch then Some (next_char_boundary t (global + utf8_width ch))
      else if is_newline ch then Some global
      else first_end t idx r
  end.

Definition sentence_end_after (t : bytes) (idx : N) : option N :=
  if len t <=? idx then Some (len t)
  else
    let idx := prev_char_boundary t idx in
    first_end t idx (char_indices (skipn (N.to_nat idx) t)).

(* fn advance_boundary(content, start, mut window) *)
Fixpoint advance_loop (t : bytes) (start : N) (cs : list (N * N)) (window last : N) : N :=
  match cs with
  | [] => N.max (len t) last
  | (offset, _) :: r =>
      if window =? 0 then start + offset
      else advance_loop t start r (window - 1) (start + offset)
  end.
Definition advance_boundary (t : bytes) (start window : N) : N :=
  if len t <=? start then len t
  else advance_loop t start (char_indices (skipn (N.to_nat start) t)) window (len t).

(* end + window / 2 in the debug profile *)
Definition add_chk (a b : N) : outcome N :=
  if a + b <? USIZE_LIMIT then Ok (a + b) else Panic 1.

Notation slice_t := (N * N)%type (only parsing).

(* snippet bounds of one occurrence, up to and including the two *_char_boundary calls *)
Definition occurrence_bounds (t : bytes) (window : N) (occ : N * N) : outcome (N * N) :=
  let '(start, end_) := occ in
  match add_chk end_ (window / 2) with
  | Panic s => Panic s
  | Err k => Err k
  | Ok ew =>
      let snippet_start := start - window / 2 in          (* saturating_sub *)
      let snippet_end := N.min ew (len t) in
      let snippet_start := match sentence_start_before t snippet_start with
                           | Some adj => adj | None => snippet_start end in
      let snippet_end := match sentence_end_after t snippet_end with
                         | Some adj => adj | None => snippet_end end in
      Ok (prev_char_boundary t snippet_start, next_char_boundary t snippet_end)
  end.

(* the `for &(start, end) in occurrences` loop; `merged` is kept reversed (head = last) *)
Fixpoint merge_loop (t : bytes) (window max_snippets : N) (occs : list (N * N))
         (merged_rev : list slice_t) : outcome (list slice_t) :=
  match occs with
  | [] => Ok merged_rev
  | occ :: rest =>
      match occurrence_bounds t window occ with
      | Panic s => Panic s
      | Err k => Err k
      | Ok (snippet_start, snippet_end) =>
          if snippet_end <=? snippet_start then merge_loop t window max_snippets rest merged_rev
          else
            let push :=
              let m2 := (N.min snippet_start (len t), N.min snippet_end (len t)) :: merged_rev in
              if max_snippets <=? N.of_nat (length m2) then Ok m2
              else merge_loop t window max_snippets rest m2 in
            match merged_rev with
            | (last0, last1) :: m' =>
                if snippet_start <=? last1 + 20
                then merge_loop t window max_snippets rest ((last0, N.max last1 snippet_end) :: m')
                else push
            | [] => push
            end
      end
  end.

Definition compute_snippet_slices (t : bytes) (occs : list (N * N)) (window max_snippets : N)
  : outcome (list slice_t) :=
  match t with
  | [] => Ok []
  | _ :: _ =>
      match occs with
      | [] => Ok [(0, advance_boundary t 0 window)]
      | _ :: _ =>
          match merge_loop t window max_snippets occs [] with
          | Panic s => Panic s
          | Err k => Err k
          | Ok [] => Ok [(0, advance_boundary t 0 window)]
          | Ok m => Ok (rev m)
          end
      end
  end.

(* ------------------------------------------------------------------------------------
   The property, as a predicate on (text, max, result). *)
Definition slice_valid (t : bytes) (s : slice_t) : Prop :=
  fst s < snd s /\ snd s <= len t /\
  is_char_boundary t (fst s) = true /\ is_char_boundary t (snd s) = true /\
  exists bs, str_slice t (fst s) (snd s) = Ok bs /\ bs <> [].

(* strictly increasing and non-overlapping: for every i < j, start_i < start_j and end_i <= start_j *)
Definition before (x y : slice_t) : Prop := fst x < fst y /\ snd x <= fst y.
Definition increasing (l : list slice_t) : Prop := StronglySorted before l.

Definition slices_ok (t : bytes) (max_snippets : N) (r : outcome (list slice_t)) : Prop :=
  match r with
  | Ok sl => Forall (slice_valid t) sl /\ increasing sl /\ N.of_nat (length sl) <= max_snippets
  | _ => False
  end.

(* boolean version of the same predicate (used by the correspondence runner and the
   refutation witnesses; equivalence proved in the proofs file) *)
Definition slice_validb (t : bytes) (s : slice_t) : bool :=
  (fst s <? snd s) && (snd s <=? len t) && is_char_boundary t (fst s) && is_char_boundary t (snd s) &&
  match str_slice t (fst s) (snd s) with Ok (_ :: _) => true | _ => false end.
Fixpoint increasingb (l : list slice_t) : bool :=
  match l with
  | [] => true
  | x :: r => forallb (fun y => (fst x <? fst y) && (snd x <=? fst y)) r && increasingb r
  end.
Definition slices_okb (t : bytes) (max_snippets : N) (r : outcome (list slice_t)) : bool :=
  match r with
  | Ok sl => forallb (slice_validb t) sl && increasingb sl && (N.of_nat (length sl) <=? max_snippets)
  | _ => false
  end.

(* ------------------------------------------------------------------------------------
   Argument classes outside which the property holds (each is a known finding). *)
Definition nonempty_text (t : bytes) : bool := match t with [] => false | _ => true end.
Definition end_overflows (window : N) (occ : N * N) : bool := USIZE_LIMIT <=? snd occ + window / 2.

Definition known_max_zero (t : bytes) (occs : list (N * N)) (window max_snippets : N) : bool :=
  nonempty_text t && (max_snippets =? 0).
Definition known_window_zero (t : bytes) (occs : list (N * N)) (window max_snippets : N) : bool :=
  nonempty_text t && (window =? 0).
Definition known_end_overflow (t : bytes) (occs : list (N * N)) (window max_snippets : N) : bool :=
  nonempty_text t && existsb (end_overflows window) occs.
Definition known_class t occs window max_snippets : bool :=
  known_max_zero t occs window max_snippets || known_window_zero t occs window max_snippets ||
  known_end_overflow t occs window max_snippets.

(* the guard = complement of the known classes *)
Definition guard (t : bytes) (occs : list (N * N)) (window max_snippets : N) : bool :=
  negb (nonempty_text t) ||
  ((1 <=? max_snippets) && (1 <=? window) && forallb (fun o => negb (end_overflows window o)) occs).

(* ------------------------------------------------------------------------------------
   Call sites.  memvid/search/tantivy.rs and fallback.rs:
     snippet_window = request.snippet_chars.max(80); max = request.top_k.max(1);
   lex.rs LexIndex::search: build_snippets(content, occurrences, 160, 3).
   Occurrences come from `haystack[start..].find(needle)` loops: end = position + needle.len()
   <= haystack.len() <= isize::MAX (model below). *)
Definition ISIZE_LIMIT : N := 2 ^ 63.

(* str::find on bytes: least offset at which needle is a prefix *)
Fixpoint is_prefix (needle hay : bytes) : bool :=
  match needle, hay with
  | [], _ => true
  | _ :: _, [] => false
  | a :: n', b :: h' => (a =? b) && is_prefix n' h'
  end.
Fixpoint find_from (needle hay : bytes) (pos : N) : option N :=
  if is_prefix needle hay then Some pos
  else match hay with
       | [] => None
       | _ :: h' => find_from needle h' (pos + 1)
       end.

(* let mut start = 0; while let Some(pos) = hay[start..].find(needle) {
     absolute = start + pos; end = absolute + needle.len(); push((absolute, end)); start = end } *)
Fixpoint token_occurrences_loop (fuel : nat) (hay needle : bytes) (start : N) : list (N * N) :=
  match fuel with
  | O => []
  | S f =>
      match find_from needle (skipn (N.to_nat start) hay) 0 with
      | None => []
      | Some pos =>
          let absolute := start + pos in
          let end_ := absolute + len needle in
          (absolute, end_) :: token_occurrences_loop f hay needle end_
      end
  end.
(* needle non-empty: every iteration advances start by >= 1, so len hay + 1 iterations suffice *)
Definition token_occurrences (hay needle : bytes) : list (N * N) :=
  match needle with
  | [] => []
  | _ => token_occurrences_loop (S (length hay)) hay needle 0
  end.
(* collect_token_occurrences before `sort_unstable(); dedup()` (needles already trimmed) *)
Definition collect_token_occurrences_unsorted (hay : bytes) (tokens : list bytes) : list (N * N) :=
  flat_map (token_occurrences hay) tokens.
