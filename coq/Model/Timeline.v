(* M-Timeline: Memvid::timeline at the level of the frame table.
   Follows src/memvid/timeline.rs (build_timeline), the time-index part of
   rebuild_indexes in src/memvid/mutation.rs, and src/io/time_index.rs
   (append_track / read_track) at the level of entry lists.

   A frame is (id, timestamp, role, status); role 0 Document, 1 DocumentChunk,
   2 ExtractedImage; status 0 Active, 1 Superseded, 2 Deleted (as Model/Store.v).
   A time-index entry is (timestamp, frame_id): the Rust sort key
   `(entry.timestamp, entry.frame_id)` is the entry itself, compared
   lexicographically (i64 then u64).

   Two models of build_timeline are given:
     build_timeline        the code AS IT IS (extracted images appended after the index)
     build_timeline_fixed  the code with the one-line repair (merged list sorted)
   Definitions only; proofs are in Proofs/TimelineSort.v and Proofs/TimelineProofs.v. *)
From MV Require Import Base.Prelude.

(* ------------------------------------------------------------------ sorting *)
(* slice::sort_by_key is a stable sort; on a key that is the whole element every sort
   gives the same list (Proofs/TimelineSort.v: sorted_perm_unique), so insertion sort
   is a faithful model. *)
Fixpoint insert_by {A} (leb : A -> A -> bool) (x : A) (l : list A) : list A :=
  match l with
  | [] => [x]
  | y :: r => if leb x y then x :: l else y :: insert_by leb x r
  end.
Definition isort {A} (leb : A -> A -> bool) (l : list A) : list A :=
  fold_right (insert_by leb) [] l.

(* every adjacent pair in order *)
Fixpoint sortedb {A} (leb : A -> A -> bool) (l : list A) : bool :=
  match l with
  | [] => true
  | x :: r => match r with
              | [] => true
              | y :: _ => leb x y && sortedb leb r
              end
  end.

(* Iterator::take(k) with k a machine integer: structural on the list, so that
   k = u64::MAX costs nothing under vm_compute *)
Fixpoint take_N {A} (l : list A) (k : N) : list A :=
  match l with
  | [] => []
  | x :: r => if (k =? 0)%N then [] else x :: take_N r (k - 1)%N
  end.

Fixpoint upd_nth {A} (n : nat) (g : A -> A) (l : list A) : list A :=
  match l, n with
  | [], _ => []
  | x :: r, O => g x :: r
  | x :: r, S n' => x :: upd_nth n' g r
  end.

(* ------------------------------------------------------------------ frames, entries *)
Record tframe := mkTF { tf_id : N; tf_ts : Z; tf_role : N; tf_status : N }.

Definition tentry := (Z * N)%type.          (* TimeIndexEntry { timestamp, frame_id } *)
Definition entry_of (f : tframe) : tentry := (tf_ts f, tf_id f).

(* Ord on (i64, u64) tuples *)
Definition entry_leb (a b : tentry) : bool :=
  (fst a <? fst b)%Z || ((fst a =? fst b)%Z && (snd a <=? snd b)%N).

Definition active (f : tframe) : bool := (tf_status f =? 0)%N.
Definition is_document (f : tframe) : bool := (tf_role f =? 0)%N.
Definition is_image (f : tframe) : bool := (tf_role f =? 2)%N.

Definition sort_entries : list tentry -> list tentry := isort entry_leb.

(* ------------------------------------------------------------------ io/time_index.rs *)
(* append_track: `entries.sort_by_key(|e| (e.timestamp, e.frame_id))`, then written in
   that order *)
Definition append_track (entries : list tentry) : list tentry := sort_entries entries.

(* read_track: the entries in file order; InvalidTimeIndex "entries not sorted" when
   some entry is strictly below its predecessor (equal neighbours are accepted) *)
Definition ERR_NOT_SORTED : N := 1%N.
Definition read_track (track : list tentry) : outcome (list tentry) :=
  if sortedb entry_leb track then Ok track else Err ERR_NOT_SORTED.

(* ------------------------------------------------------------------ rebuild_indexes *)
(* time_entries = toc.frames.iter().filter(Active && role == Document).map(entry) *)
Definition indexed_frame (f : tframe) : bool := active f && is_document f.
Definition time_entries (frames : list tframe) : list tentry :=
  map entry_of (filter indexed_frame frames).
Definition rebuild_time_index (frames : list tframe) : list tentry :=
  append_track (time_entries frames).

(* ------------------------------------------------------------------ build_timeline *)
Record tquery := mkQ { q_limit : option N; q_since : option Z; q_until : option Z; q_reverse : bool }.

Definition mem_id (id : N) (ids : list N) : bool := existsb (N.eqb id) ids.

(* `for frame in &toc.frames { if Active && role == ExtractedImage && !indexed_ids.contains(id) { push } }` *)
Definition extra_image (indexed : list tentry) (f : tframe) : bool :=
  active f && is_image f && negb (mem_id (tf_id f) (map snd indexed)).
Definition extra_images (frames : list tframe) (indexed : list tentry) : list tentry :=
  map entry_of (filter (extra_image indexed) frames).

(* entries.retain(|e| since.is_none_or(|s| e.timestamp >= s) && until.is_none_or(|u| e.timestamp <= u)) *)
Definition in_range (since until : option Z) (e : tentry) : bool :=
  (match since with None => true | Some s => (s <=? fst e)%Z end) &&
  (match until with None => true | Some u => (fst e <=? u)%Z end).

(* the loop body after take(limit): frame looked up BY INDEX entry.frame_id; skipped when
   out of range or not Active; the output carries frame.id and frame.timestamp *)
Definition resolve (frames : list tframe) (e : tentry) : list (N * Z) :=
  match nth_error frames (N.to_nat (snd e)) with
  | None => []
  | Some f => if active f then [(tf_id f, tf_ts f)] else []
  end.

(* everything after the entry list is assembled (unchanged by the repair) *)
Definition finish (frames : list tframe) (q : tquery) (entries : list tentry) : list (N * Z) :=
  let kept := filter (in_range (q_since q) (q_until q)) entries in
  let ordered := if q_reverse q then rev kept else kept in
  let limit := match q_limit q with
               | None => N.of_nat (length ordered)
               | Some k => k           (* NonZeroU64 -> usize, 64-bit target *)
               end in
  flat_map (resolve frames) (take_N ordered limit).

Definition bind_o {A B} (o : outcome A) (k : A -> outcome B) : outcome B :=
  match o with Ok a => k a | Err e => Err e | Panic s => Panic s end.

(* AS IT IS: index = Some track when toc.time_index is present *)
Definition build_timeline (frames : list tframe) (index : option (list tentry)) (q : tquery)
  : outcome (list (N * Z)) :=
  bind_o (match index with
          | Some track =>
              bind_o (read_track track) (fun indexed =>
              Ok (indexed ++ extra_images frames indexed))
          | None => Ok (map entry_of (filter active frames))
          end)
         (fun entries => Ok (finish frames q entries)).

(* REPAIRED: `indexed.sort_by_key(|e| (e.timestamp, e.frame_id));` after the loop that
   pushes the extracted images *)
Definition build_timeline_fixed (frames : list tframe) (index : option (list tentry)) (q : tquery)
  : outcome (list (N * Z)) :=
  bind_o (match index with
          | Some track =>
              bind_o (read_track track) (fun indexed =>
              Ok (sort_entries (indexed ++ extra_images frames indexed)))
          | None => Ok (map entry_of (filter active frames))
          end)
         (fun entries => Ok (finish frames q entries)).

(* ------------------------------------------------------------------ the specification *)
(* which frames are timeline entries, read from the code: Active frames of role Document
   (rebuild_indexes) and of role ExtractedImage (build_timeline); chunks never *)
Definition eligible (f : tframe) : bool := active f && (is_document f || is_image f).

Definition timeline_all (frames : list tframe) : list tentry :=
  sort_entries (map entry_of (filter eligible frames)).

Definition swap_entry (e : tentry) : N * Z := (snd e, fst e).

Definition timeline_spec (frames : list tframe) (q : tquery) : list (N * Z) :=
  let kept := filter (in_range (q_since q) (q_until q)) (timeline_all frames) in
  let ordered := if q_reverse q then rev kept else kept in
  map swap_entry (match q_limit q with
                  | None => ordered
                  | Some k => firstn (N.to_nat k) ordered
                  end).

(* the known finding F-C15-1: the list build_timeline assembles (sorted index followed by
   the extracted images in id order) is not in (timestamp, id) order *)
Definition merged_as_is (frames : list tframe) : list tentry :=
  rebuild_time_index frames ++ extra_images frames (rebuild_time_index frames).
Definition known_class (frames : list tframe) : bool := negb (sortedb entry_leb (merged_as_is frames)).

(* ------------------------------------------------------------------ the write path, table level *)
(* pending log records (apply_records): an insert carries timestamp, role and the frame it
   supersedes; a tombstone its target *)
Inductive trec := RInsert (ts : Z) (role : N) (supersedes : option N) | RTomb (target : N).

Definition set_status (f : tframe) (st : N) : tframe := mkTF (tf_id f) (tf_ts f) (tf_role f) st.

Definition apply_rec (frames : list tframe) (r : trec) : list tframe :=
  match r with
  | RInsert ts role sup =>
      let id := N.of_nat (length frames) in            (* frame_id = toc.frames.len() *)
      let frames1 := match sup with
                     | Some p => upd_nth (N.to_nat p) (fun g => set_status g 1) frames
                     | None => frames
                     end in
      frames1 ++ [mkTF id ts role 0]
  | RTomb t => upd_nth (N.to_nat t) (fun g => set_status g 2) frames
  end.

Record tstate := mkTS { ts_frames : list tframe; ts_index : option (list tentry); ts_pending : list trec }.

(* rebuild_indexes: early return on an empty table without lex/vec engines; otherwise the
   time index is rewritten from the table *)
Definition rebuild_indexes (engines : bool) (frames : list tframe) (index : option (list tentry))
  : option (list tentry) :=
  if (match frames with [] => true | _ => false end) && negb engines then index
  else Some (rebuild_time_index frames).

(* commit_from_records / recover_wal: apply the pending records; the delta is non-empty
   exactly when a frame record was applied, and then rebuild_indexes runs *)
Definition apply_pending (engines : bool) (s : tstate) : tstate :=
  match ts_pending s with
  | [] => s
  | recs => let fr := fold_left apply_rec recs (ts_frames s) in
            mkTS fr (rebuild_indexes engines fr (ts_index s)) []
  end.

Inductive top :=
| TPut (ts : Z) (role : N) (nchunks : N)          (* acknowledged put; chunk frames share the timestamp *)
| TUpdate (target : N) (ts : option Z) (role : N) (* update_frame: timestamp defaults to the old one *)
| TDelete (target : N)
| TCommit
| TReopen                                         (* drop (commits when dirty) + open (replays) *)
| TDoctor (force : bool).                         (* close + doctor(rebuild_time_index = force) + open *)

Definition push_pending (s : tstate) (recs : list trec) : tstate :=
  mkTS (ts_frames s) (ts_index s) (ts_pending s ++ recs).

Definition tstep (engines : bool) (s : tstate) (op : top) : tstate :=
  match op with
  | TPut ts role n =>
      push_pending s (RInsert ts role None :: repeat (RInsert ts 1 None) (N.to_nat n))
  | TUpdate t ots role =>
      match nth_error (ts_frames s) (N.to_nat t) with
      | Some old => if active old
                    then push_pending s [RInsert (match ots with Some x => x | None => tf_ts old end) role (Some t)]
                    else s
      | None => s
      end
  | TDelete t =>
      match nth_error (ts_frames s) (N.to_nat t) with
      | Some old => if active old then push_pending s [RTomb t] else s
      | None => s
      end
  | TCommit | TReopen => apply_pending engines s
  | TDoctor force =>
      let s1 := apply_pending engines s in
      let needs_time := match ts_index s1, ts_frames s1 with
                        | None, _ :: _ => true       (* "time index missing for non-empty memory" *)
                        | _, _ => false
                        end in
      if force || needs_time
      then mkTS (ts_frames s1) (rebuild_indexes engines (ts_frames s1) (ts_index s1)) []
      else s1
  end.

Definition tstate0 : tstate := mkTS [] None [].
Definition trun (engines : bool) (ops : list top) : tstate := fold_left (tstep engines) ops tstate0.
