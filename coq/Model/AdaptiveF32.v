(* binary32 instance of the score operations of Model/Adaptive.v, on Flocq's IEEE 754 model
   (round to nearest even, as Rust's f32 arithmetic on every supported target).
   Definitions only.  Every definition here evaluates under vm_compute. *)
From Coq Require Import ZArith.
From Flocq Require Import IEEE754.BinarySingleNaN IEEE754.Binary IEEE754.Bits.
From MV Require Import Base.Prelude Model.Adaptive.

Definition f32 : Type := binary32.

Definition f32_of_bits (b : N) : f32 := b32_of_bits (Z.of_N b).
Definition f32_is_nan (x : f32) : bool := is_nan 24 128 x.
Definition f32_is_finite (x : f32) : bool := is_finite 24 128 x.

(* bit pattern; every NaN is printed as the canonical quiet NaN 0x7FC00000 *)
Definition f32_bits (x : f32) : N :=
  if f32_is_nan x then 2143289344%N else Z.to_N (bits_of_b32 x).

(* `a < b`: false when either side is NaN *)
Definition f32_ltb (a b : f32) : bool :=
  match b32_compare a b with Some Lt => true | _ => false end.
(* `a <= b` *)
Definition f32_leb (a b : f32) : bool :=
  match b32_compare a b with Some Lt | Some Eq => true | _ => false end.

(* f32::max / f32::min: "if one of the arguments is NaN, then the other argument is returned";
   for (+0, -0) std leaves the choice open -- this model keeps the accumulator. *)
Definition f32_max (a b : f32) : f32 :=
  if f32_is_nan a then b else if f32_is_nan b then a else if f32_ltb a b then b else a.
Definition f32_min (a b : f32) : f32 :=
  if f32_is_nan a then b else if f32_is_nan b then a else if f32_ltb b a then b else a.

(* `i as f32`: nearest-even conversion of an integer *)
Definition f32_of_nat (i : nat) : f32 :=
  binary_normalize 24 128 (eq_refl _) (eq_refl _) mode_NE (Z.of_nat i) 0 false.

Definition F32_EPSILON : f32 := b32_of_bits 872415232.     (* 0x34000000 = 2^-23 *)
Definition F32_ONE : f32 := b32_of_bits 1065353216.        (* 0x3F800000 *)
Definition F32_ZERO : f32 := b32_of_bits 0.
Definition F32_005 : f32 := b32_of_bits 1028443341.        (* 0x3D4CCCCD = 0.05f32 *)
Definition F32_INF : f32 := b32_of_bits 2139095040.        (* 0x7F800000 *)
Definition F32_NEG_INF : f32 := b32_of_bits 4286578688.    (* 0xFF800000 *)

Definition f32ops : fops f32 :=
  mk_fops f32 f32_ltb
          (b32_plus mode_NE) (b32_minus mode_NE) (b32_mult mode_NE) (b32_div mode_NE)
          (b32_sqrt mode_NE) b32_abs f32_of_nat f32_max f32_min
          F32_EPSILON F32_ONE F32_ZERO F32_005 F32_INF F32_NEG_INF.

(* finite (neither NaN nor infinite) score lists: the domain of the normalize clause *)
Definition all_finite (scores : list f32) : bool := forallb f32_is_finite scores.

(* the known class F-C37-1: max_score - min_score is not a finite number.  For finite scores this
   happens exactly when the subtraction overflows to +inf. *)
Definition range_overflows (scores : list f32) : bool :=
  match scores with
  | [] => false
  | _ => negb (f32_is_finite (score_range f32ops scores))
  end.
