(* The f32 score expression of QuerySketch::score_entry (src/types/sketch_track.rs),
   bit-exact, on a small model of binary32 arithmetic restricted to what the expression
   needs: finite NON-NEGATIVE values in the normal range, round to nearest even, no fused
   operations (Rust never contracts a*b+c).  Definitions only; Coq standard library only.

     let term_score = term_overlap as f32 / max_terms as f32;
     let sim_score = 1.0 - (hamming as f32 / 64.0);
     let len_diff = (query_len_bucket - entry_len_bucket).abs();
     let len_score = 1.0 / (1.0 + len_diff * 0.1);
     let score = 0.5 * term_score + 0.4 * sim_score + 0.1 * len_score;        (left to right)

   Every operand is an integer below 2^24 (exact in f32), a constant, or a result in
   [2^-10, 2^5], so neither subnormals nor overflow nor NaN occur; hamming <= 64 makes the
   subtraction non-negative; both length buckets are exact, so |a - b| is computed on the
   integers.  The correspondence run compares the resulting bit patterns with the
   implementation's on every generated candidate. *)
From MV Require Import Base.Prelude.
Local Open Scope N_scope.

(* value = pf_m * 2^pf_e, with pf_m = 0 (zero) or 2^23 <= pf_m < 2^24 *)
Record pf := mkPf { pf_m : N; pf_e : Z }.

(* round the exact value M * 2^E to 24 significant bits, ties to even *)
Definition round24 (M : N) (E : Z) : pf :=
  if M =? 0 then mkPf 0 0
  else
    let n := N.size M in
    if n <=? 24 then mkPf (N.shiftl M (24 - n)) (E - Z.of_N (24 - n))
    else
      let s := n - 24 in
      let q := N.shiftr M s in
      let r := M mod 2 ^ s in
      let half := 2 ^ (s - 1) in
      let q' := if (half <? r) || ((r =? half) && N.odd q) then q + 1 else q in
      if q' =? 2 ^ 24 then mkPf (2 ^ 23) (E + Z.of_N s + 1) else mkPf q' (E + Z.of_N s).

Definition pf_of_N (n : N) : pf := round24 n 0.                     (* `n as f32` *)
Definition pf_mul (a b : pf) : pf := round24 (pf_m a * pf_m b) (pf_e a + pf_e b).

Definition aligned (a b : pf) : N * N * Z :=
  let e := Z.min (pf_e a) (pf_e b) in
  (N.shiftl (pf_m a) (Z.to_N (pf_e a - e)), N.shiftl (pf_m b) (Z.to_N (pf_e b - e)), e).

Definition pf_add (a b : pf) : pf :=
  if pf_m a =? 0 then b else if pf_m b =? 0 then a
  else let '(x, y, e) := aligned a b in round24 (x + y) e.

(* a - b for a >= b *)
Definition pf_sub (a b : pf) : pf :=
  if pf_m b =? 0 then a
  else let '(x, y, e) := aligned a b in round24 (x - y) e.

(* a / b for b > 0: 27 extra quotient bits and a sticky bit *)
Definition pf_div (a b : pf) : pf :=
  if pf_m a =? 0 then mkPf 0 0
  else
    let num := N.shiftl (pf_m a) 27 in
    let q := num / pf_m b in
    let r := num mod pf_m b in
    round24 (2 * q + (if r =? 0 then 0 else 1)) (pf_e a - pf_e b - 28).

(* a positive normal bit pattern *)
Definition pf_of_bits (b : N) : pf := mkPf (2 ^ 23 + b mod 2 ^ 23) (Z.of_N (b / 2 ^ 23) - 150).
Definition pf_bits (p : pf) : N :=
  if pf_m p =? 0 then 0 else Z.to_N (pf_e p + 150) * 2 ^ 23 + (pf_m p - 2 ^ 23).

Definition SK_ONE : pf := pf_of_bits 1065353216.      (* 0x3F800000 = 1.0 *)
Definition SK_64 : pf := pf_of_bits 1115684864.       (* 0x42800000 = 64.0 *)
Definition SK_W_TERM : pf := pf_of_bits 1056964608.   (* 0x3F000000 = 0.5 *)
Definition SK_W_SIM : pf := pf_of_bits 1053609165.    (* 0x3ECCCCCD = 0.4f32 *)
Definition SK_W_LEN : pf := pf_of_bits 1036831949.    (* 0x3DCCCCCD = 0.1f32 *)

Definition score_f32 (overlap max_terms hamming qbucket ehint : N) : pf :=
  let term_score := pf_div (pf_of_N overlap) (pf_of_N max_terms) in
  let sim_score := pf_sub SK_ONE (pf_div (pf_of_N hamming) SK_64) in
  let len_diff := pf_of_N (if qbucket <? ehint then ehint - qbucket else qbucket - ehint) in
  let len_score := pf_div SK_ONE (pf_add SK_ONE (pf_mul len_diff SK_W_LEN)) in
  pf_add (pf_add (pf_mul SK_W_TERM term_score) (pf_mul SK_W_SIM sim_score)) (pf_mul SK_W_LEN len_score).

(* the score as its bit pattern (finite, non-negative: bit patterns order like the values) *)
Definition score_bits (overlap max_terms hamming qbucket ehint : N) : N :=
  pf_bits (score_f32 overlap max_terms hamming qbucket ehint).
