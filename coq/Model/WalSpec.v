(* Abstract specification of the embedded log (what C05 states): the state is the list
   of records appended since the last checkpoint, the last sequence number and the
   checkpoint sequence.  An append may be refused (too large / empty / too small / full)
   and then changes nothing; everything else is deterministic. *)
From MV Require Import Base.Prelude Model.Wal.
Local Open Scope N_scope.

Record astate := mkA { a_pending : list wrec; a_seq : N; a_ck : N }.

Definition bytes_of (l : list wrec) : N := fold_right (fun r a => rec_size r + a) 0 l.

Inductive spec_step (size : N) : astate -> wop -> wout -> astate -> Prop :=
| SAppendOk a len fill :
    0 < len ->
    spec_step size a (WAppend len fill) (OSeq (Ok (a_seq a + 1)))
              (mkA (a_pending a ++ [mkRec (a_seq a + 1) (payload_of len fill)]) (a_seq a + 1) (a_ck a))
| SAppendRefused a len fill k :
    (k = 1 \/ k = 2 \/ k = 3 \/ k = 6) ->
    (k = 6 <-> len = 0) -> (k = 3 -> U32_MAX < len) -> (k = 1 -> size < EH + len) ->
    spec_step size a (WAppend len fill) (OSeq (Err k)) a
| SCheckpoint a :
    spec_step size a WCheckpoint (OSeq (Ok (a_seq a))) (mkA [] (a_seq a) (a_seq a))
| SPending a :
    spec_step size a WPending (ORecs (Ok (a_pending a))) a
| SRecordsAfter a n l :
    Forall (fun r => n < r_seq r) l ->
    filter (fun r => a_ck a <? r_seq r) l = filter (fun r => n <? r_seq r) (a_pending a) ->
    spec_step size a (WRecordsAfter n) (ORecs (Ok l)) a
| SStats a :
    spec_step size a WStats (OStats (bytes_of (a_pending a)) (a_seq a)) a
| SReopen a :
    spec_step size a WReopen (OOpen (Ok 0)) a
| SShould a b :
    spec_step size a WShould (OBool b) a.

Inductive spec_run (size : N) : astate -> list wop -> list wout -> Prop :=
| SRnil a : spec_run size a [] []
| SRcons a op o a' ops outs :
    spec_step size a op o a' -> spec_run size a' ops outs -> spec_run size a (op :: ops) (o :: outs).
