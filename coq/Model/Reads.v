(* M-Reads (C08): the read side of the store.  Extends the frame-table model (Model/Store.v) with
   - the ten option fields update_frame inherits (src/memvid/mutation.rs update_frame),
   - the carried embedding and the payload-reuse path of update_frame,
   - the three index sets a commit maintains: lex_docs (documents of the Tantivy engine), vec_docs
     (entries of the vector index), time_index (entries of the time index track): apply_records'
     mark_frame_deleted / mark_frame_superseded / remove_frame_from_indexes, then rebuild_indexes with
     the active-only filters of rebuild_tantivy_engine / build_vec_artifact and the time-index filter,
   - the read paths: frame_by_uri (frame.rs), timeline (timeline.rs), search around the engine oracle
     (search/mod.rs + search/tantivy.rs), search_vec / vec_search_with_embedding / search_adaptive
     (search/api.rs), ask (ask.rs) as a function of its retrieval calls.
   Engines (Tantivy ranking, L2 ranking, adaptive cut-off, query evaluation, RRF fusion) are Section
   variables whose only assumed property is that they return members of what they were given. *)
From MV Require Import Base.Prelude Model.Store.
Local Open Scope N_scope.

(* ---------- the option fields of PutOptions that update_frame inherits ---------- *)
(* None / [] = "not specified".  Values are abstract tags. *)
Record fields := mkFields {
  o_ts : option N; o_track : option N; o_kind : option N; o_uri : option N; o_title : option N;
  o_meta : option N; o_stext : option N; o_tags : list N; o_labels : list N; o_extra : list N }.

Definition or_else {A} (a b : option A) : option A := match a with Some _ => a | None => b end.
Definition or_list {A} (a b : list A) : list A := match a with [] => b | _ => a end.

(* update_frame, lines "if options.X.is_none() { options.X = existing.X.clone() }" (six options),
   timestamp (existing.timestamp is not optional: old o_ts is always Some), and
   "if options.X.is_empty() { options.X = existing.X.clone() }" for tags / labels / extra_metadata *)
Definition inherit (opts old : fields) : fields :=
  mkFields (or_else (o_ts opts) (o_ts old)) (or_else (o_track opts) (o_track old)) (or_else (o_kind opts) (o_kind old))
           (or_else (o_uri opts) (o_uri old)) (or_else (o_title opts) (o_title old)) (or_else (o_meta opts) (o_meta old))
           (or_else (o_stext opts) (o_stext old)) (or_list (o_tags opts) (o_tags old)) (or_list (o_labels opts) (o_labels old))
           (or_list (o_extra opts) (o_extra old)).

Definition empty_fields : fields := mkFields None None None None None None None [] [] [].

(* what the log entry of a frame carries besides the table columns of Model/Store.v *)
Record fattr := mkAttr { a_fields : fields; a_text : bool (* index text contains the probe word *); a_emb : option N }.
Definition attr0 : fattr := mkAttr empty_fields false None.

(* ---------- the store with its index sets ---------- *)
Record rstore := mkR {
  base : store;
  attrs : list fattr;          (* one per committed frame, by id *)
  pattrs : list fattr;         (* one per pending insert record, in log order *)
  lex : list N;                (* document ids in the Tantivy engine *)
  tdirty : bool;               (* tantivy_dirty *)
  vec : list (N * N);          (* vector index: frame id, embedding tag *)
  vec_on : bool;               (* vec_enabled (in memory) *)
  vec_disk : bool;             (* vec manifest persisted by the last commit *)
  tix : list N }.              (* time index track *)

Definition rstore0 : rstore := mkR store0 [] [] [] false [] false false [].

Definition is_active (frames : list frame) (i : N) : bool :=
  match get frames i with Some f => f_status f =? 0 | None => false end.
Definition has_role (frames : list frame) (r : N) (i : N) : bool :=
  match get frames i with Some f => f_role f =? r | None => false end.
Definition mem (i : N) (l : list N) : bool := existsb (N.eqb i) l.
Definition attr_of (al : list fattr) (i : N) : fattr := nth (N.to_nat i) al attr0.

(* frames a record marks deleted / superseded: mark_frame_deleted / mark_frame_superseded call
   remove_frame_from_indexes(target) *)
Definition removed_of (e : entry) : list N :=
  match e with
  | ETomb t => [t]
  | EInsert _ _ _ _ (Some p) _ _ => [p]
  | _ => []
  end.
Definition removed_targets (recs : list (N * entry)) : list N := flat_map (fun se => removed_of (snd se)) recs.
Definition frame_record (e : entry) : bool := match e with ELex => false | _ => true end.
(* IngestionDelta::is_empty is false: some frame was inserted or tombstoned *)
Definition delta_nonempty (recs : list (N * entry)) : bool := existsb (fun se => frame_record (snd se)) recs.

Fixpoint ids_from (start : N) (n : nat) : list N :=
  match n with O => [] | S k => start :: ids_from (start + 1) k end.

(* rebuild_tantivy_engine: active frames with (probe-word) index text, in id order *)
Definition lex_full (frames : list frame) (al : list fattr) : list N :=
  filter (fun i => is_active frames i && a_text (attr_of al i)) (ids_from 0 (length frames)).

(* time index of rebuild_indexes: status == Active && role == Document *)
Definition tix_full (frames : list frame) : list N :=
  filter (fun i => is_active frames i && has_role frames 0 i) (ids_from 0 (length frames)).

(* commit_from_records / recover_wal on the index sets.  `r` is the state just before the commit:
   base r still holds the pending records. *)
Definition sync (r : rstore) (extra : N) : rstore :=
  let b := base r in
  let recs := pending b in
  let frames' := view b in                                (* apply_records *)
  let n0 := len (committed b) in
  let attrs' := attrs r ++ pattrs r in
  let inserted := ids_from n0 (length frames' - length (committed b)) in
  if negb (delta_nonempty recs) then
    (* delta empty: rebuild_indexes is not called; a dirty engine is flushed as it is *)
    mkR (do_commit b extra) attrs' [] (lex r) false (vec r) (vec_on r) (vec_on r) (tix r)
  else
    let removed := removed_targets recs in
    (* apply_records: engine.add_frame for every insert, engine.delete_frame / vec_index.remove for every target *)
    let lex1 := filter (fun i => negb (mem i removed)) (lex r ++ inserted) in
    let tdirty1 := true in                                 (* set by add_frame / delete_frame above *)
    let vec1 := filter (fun ie => negb (mem (fst ie) removed)) (vec r) in
    (* rebuild_indexes, lex part: three branches *)
    let lex2 :=
      if tdirty1 then lex_full frames' attrs'
      else match inserted with
           | _ :: _ => lex1 ++ filter (fun i => is_active frames' i && a_text (attr_of attrs' i)) inserted
           | [] => lex_full frames' attrs'
           end in
    (* build_vec_artifact: old entries filtered by frame_is_active, then delta.inserted_embeddings unfiltered *)
    let new_docs := flat_map (fun i => match a_emb (attr_of attrs' i) with Some e => [(i, e)] | None => [] end) inserted in
    let vec2 := if vec_on r then filter (fun ie => is_active frames' (fst ie)) vec1 ++ new_docs else [] in
    mkR (do_commit b extra) attrs' [] lex2 false vec2 (vec_on r) (vec_on r) (tix_full frames').

Definition with_auto (r : rstore) (auto : option N) : rstore :=
  match auto with Some extra => sync r extra | None => r end.

Definition set_base (r : rstore) (b : store) : rstore :=
  mkR b (attrs r) (pattrs r) (lex r) (tdirty r) (vec r) (vec_on r) (vec_disk r) (tix r).

Fixpoint assocN (m : list (N * N)) (k : N) : option N :=
  match m with [] => None | (a, b) :: r => if a =? k then Some b else assocN r k end.

(* instant_index: put_internal adds a temporary document whose id is the LOG SEQUENCE NUMBER *)
Definition instant_add (r : rstore) (instant : bool) (sq : N) : list N * bool :=
  if instant then (lex r ++ [sq], true) else (lex r, tdirty r).

(* some pending insert record carries an embedding *)
Definition has_pemb (pa : list fattr) : bool :=
  existsb (fun a => match a_emb a with Some _ => true | None => false end) pa.

Inductive rop :=
| RPut (uk : option N) (tag nchunks : N) (auto : option N) (created : fields) (text : bool) (emb : option N) (instant : bool)
| RUpdate (target : N) (newtag : option N) (auto : option N) (opts : fields) (text : bool) (emb : option N) (instant : bool)
| RDelete (target : N) (auto : option N)
| RCommit (extra : N)
| RReopen (extra : N)
| RCrash (extra : N)
| RRead (uris : list N).

(* the operation of Model/Store.v an rop performs on the frame table *)
Definition sop_of (op : rop) : option sop :=
  match op with
  | RPut uk tag nchunks auto _ _ _ _ => Some (OPut uk tag nchunks 0 auto)
  | RUpdate target newtag auto opts _ _ _ => Some (OUpdate target newtag (o_uri opts) auto)
  | RDelete target auto => Some (ODelete target auto)
  | RCommit extra => Some (OCommit extra)
  | RReopen extra => Some (OReopen extra)
  | RCrash extra => Some (OCrash extra)
  | RRead _ => None
  end.

(* observation at a read point: time index, vector index ids, engine documents, frame_by_uri *)
Definition frame_by_uri (frames : list frame) (u : uri) : option frame :=
  match find (fun f => uri_eqb (f_uri f) u && (f_status f =? 0)) (rev frames) with
  | Some f => Some f
  | None => find (fun f => uri_eqb (f_uri f) u) (rev frames)
  end.

Definition rstep (r : rstore) (op : rop) : rstore * sout :=
  let b := base r in
  match op with
  | RPut uk tag nchunks auto created text emb instant =>
      let '(b1, o1) := sstep b (OPut uk tag nchunks 0 None) in
      let sq := seqno b + 1 in
      let '(lx, td) := instant_add r instant sq in
      let chunk_attrs := repeat (mkAttr empty_fields text None) (N.to_nat nchunks) in
      let von := match emb with Some _ => true | None => vec_on r end in       (* enable_vec *)
      let r1 := mkR b1 (attrs r) (pattrs r ++ mkAttr created text emb :: chunk_attrs) lx td (vec r) von (vec_disk r) (tix r) in
      let r2 := with_auto r1 auto in
      (r2, observe (base r2) (fst (fst o1)))
  | RUpdate target newtag auto opts text emb instant =>
      let '(b1, o1) := sstep b (OUpdate target newtag (o_uri opts) None) in
      match fst (fst o1) with
      | Ok _ =>
          let old := attr_of (attrs r) target in
          (* effective_embedding: explicit, else the one carried over from the vector index *)
          let eff := match emb with
                     | Some e => Some e
                     | None => if vec_on r then assocN (vec r) target else None
                     end in
          let von := match eff with Some _ => true | None => vec_on r end in
          let sq := seqno b + 1 in
          let '(lx, td) := instant_add r instant sq in
          let r1 := mkR b1 (attrs r) (pattrs r ++ [mkAttr (inherit opts (a_fields old)) text eff]) lx td (vec r) von (vec_disk r) (tix r) in
          let r2 := with_auto r1 auto in
          (r2, observe (base r2) (fst (fst o1)))
      | _ => (r, o1)
      end
  | RDelete target auto =>
      let '(b1, o1) := sstep b (ODelete target None) in
      match fst (fst o1) with
      | Ok _ => let r2 := with_auto (set_base r b1) auto in (r2, observe (base r2) (fst (fst o1)))
      | _ => (r, o1)
      end
  | RCommit extra =>
      let r1 := match pending b, dirty b with
                | [], false => set_base r (bump b extra)
                | _, _ => sync r extra
                end in
      (r1, observe (base r1) (Ok 0))
  | RReopen extra =>
      let r1 := if dirty b then sync r extra else set_base r (bump b extra) in
      let r2 := match pending (base r1) with [] => r1 | _ => sync r1 0 end in
      (r2, observe (base r2) (Ok 0))
  | RCrash extra =>
      (* the process state is lost: vec_enabled is what the last commit persisted -- or the replay
         itself enables it: commit_from_records calls enable_vec when the replayed delta carries
         embeddings (repo commit 8099cac) *)
      let r0 := mkR b (attrs r) (pattrs r) (lex r) (tdirty r) (vec r) (vec_disk r || has_pemb (pattrs r)) (vec_disk r) (tix r) in
      let r1 := match pending b with
                | [] => set_base r0 (mkStore (committed b) [] (seqno b + extra) 0 false)
                | _ => sync r0 extra
                end in
      (r1, observe (base r1) (Ok 0))
  | RRead _ => (r, observe b (Ok 0))
  end.

Fixpoint rrun (r : rstore) (ops : list rop) : rstore * list (rstore * sout) :=
  match ops with
  | [] => (r, [])
  | op :: rest => let '(r1, o) := rstep r op in
                  let '(r2, os) := rrun r1 rest in (r2, (r1, o) :: os)
  end.

(* ---------- read paths ---------- *)
Definition opt_eqb (a b : option N) : bool :=
  match a, b with Some x, Some y => x =? y | None, None => true | _, _ => false end.

(* timeline.rs build_timeline: entries of the time index plus active ExtractedImage frames not in it;
   since/until filter (keep), reverse, limit; then per entry: frame lookup, skipped unless Active;
   child_frames = active frames whose parent is the entry *)
Definition timeline (frames : list frame) (tx : list N) (keep : N -> bool) (reverse : bool) (limit : nat)
  : list (N * list N) :=
  let extra := filter (fun f => (f_status f =? 0) && (f_role f =? 2) && negb (mem (f_id f) tx)) frames in
  let entries := filter keep (tx ++ map f_id extra) in
  let entries := if reverse then rev entries else entries in
  flat_map (fun e => match get frames e with
                     | Some f => if f_status f =? 0
                                 then [(f_id f, map f_id (filter (fun c => (f_status c =? 0) && opt_eqb (f_parent c) (Some (f_id f))) frames))]
                                 else []
                     | None => []
                     end) (firstn limit entries).

Section Engines.
  Variable query : Type.
  (* Tantivy: search_documents over the engine's documents *)
  Variable engine_search : list N -> query -> list N.
  (* uri / scope filter, parsed.evaluate, non-empty snippet slices, ACL filter: per-hit decisions *)
  Variable post_hit : frame -> query -> bool.
  (* VecIndex::search: ranking of the index entries by distance, truncated *)
  Variable vec_rank : list (N * N) -> query -> nat -> list N.
  (* find_adaptive_cutoff *)
  Variable cutoff : list N -> nat.
  (* ask: fusion (RRF), promotions, diversification, ACL: a selection / reordering of the candidates *)
  Variable fuse : list N -> list N.

  (* search/mod.rs + try_tantivy_search: engine hits, frame lookup (stale ids skipped), per-hit filters;
     the hit carries the engine's document id *)
  Definition search (frames : list frame) (lx : list N) (q : query) : list N :=
    flat_map (fun i => match get frames i with
                       | Some f => if post_hit f q then [i] else []
                       | None => []
                       end) (engine_search lx q).

  Definition search_vec (vx : list (N * N)) (q : query) (limit : nat) : list N := vec_rank vx q limit.

  (* vec_search_with_embedding: top_k * 2 candidates, frame lookup, scope filter / content read, top_k hits *)
  Definition vec_search_with_embedding (frames : list frame) (vx : list (N * N)) (q : query) (top_k : nat) : list N :=
    firstn top_k (flat_map (fun i => match get frames i with
                                     | Some f => if post_hit f q then [i] else []
                                     | None => []
                                     end) (vec_rank vx q (top_k * 2))).

  Definition search_adaptive (frames : list frame) (vx : list (N * N)) (q : query) (max_results : nat) : list N :=
    let hits := vec_search_with_embedding frames vx q max_results in
    firstn (cutoff hits) hits.

  (* ask: primary / disjunctive / fallback / expanded / correction searches, the timeline fallback
     (entries and their child frames), the vector candidates; then fusion and re-ranking *)
  Definition ask (frames : list frame) (lx : list N) (vx : list (N * N)) (tx : list N)
             (qs : list query) (vq : query) (top_k : nat) : list N :=
    let lexical := flat_map (search frames lx) qs in
    let tl := flat_map (fun e => fst e :: snd e) (timeline frames tx (fun _ => true) false top_k) in
    let vecs := vec_search_with_embedding frames vx vq top_k ++ search_adaptive frames vx vq top_k in
    fuse (lexical ++ tl ++ vecs).
End Engines.

(* ---------- intended semantics used for the chunked-document finding ---------- *)
(* a frame is live when it is Active and, if it is a DocumentChunk, its document is Active too *)
Definition live (frames : list frame) (i : N) : bool :=
  match get frames i with
  | Some f => (f_status f =? 0) &&
              (if f_role f =? 1 then match f_parent f with Some p => is_active frames p | None => true end else true)
  | None => false
  end.
