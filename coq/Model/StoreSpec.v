(* Reference model of the frame table for C01/C06: every ACKNOWLEDGED put / update /
   delete is applied to the table immediately; commit, reopen, crash+replay, automatic
   checkpoints and log growth are invisible.  This is the "reference model applying the
   same acknowledged calls" of the property text. *)
From MV Require Import Base.Prelude Model.Store.
Local Open Scope N_scope.

Definition chunk_uri (uk : option N) (i : nat) : option uri :=
  match uk with Some x => Some (UChunk x (N.of_nat i + 1)) | None => None end.

Definition new_frame (frames : list frame) (u : option uri) (tag role : N) (manifest : bool)
           (supersedes parent : option N) : frame :=
  let id := len frames in
  mkFrame id (match u with Some x => x | None => UDefault id end) tag role 0 supersedes None parent manifest.

(* chunk frames i, i+1, ... of a document whose frame id is pid *)
Fixpoint ref_chunks (frames : list frame) (pid : N) (uk : option N) (tag0 : N) (i n : nat) : list frame :=
  match n with
  | O => frames
  | S k => ref_chunks (frames ++ [new_frame frames (chunk_uri uk i) (tag0 + N.of_nat i + 1) 1 false None (Some pid)])
                      pid uk tag0 (S i) k
  end.

Definition ref_put (frames : list frame) (uk : option N) (tag nchunks role : N) : list frame :=
  let u := match uk with Some k => Some (UExp k) | None => None end in
  ref_chunks (frames ++ [new_frame frames u tag role (0 <? nchunks) None None]) (len frames) uk tag 0 (N.to_nat nchunks).

Definition ref_update (frames : list frame) (target : N) (newtag uk : option N) : list frame :=
  match get frames target with
  | None => frames
  | Some old =>
      let u := match uk with Some k => UExp k | None => f_uri old end in
      let t := match newtag with Some x => x | None => f_tag old end in
      let id := len frames in
      update_nth (N.to_nat target) (fun g => set_status g 1 (Some id)) frames
        ++ [mkFrame id u t (f_role old) 0 (Some target) None None false]
  end.

Definition ref_delete (frames : list frame) (target : N) : list frame :=
  update_nth (N.to_nat target) (fun g => set_status g 2 None) frames.

Definition acked (o : sout) : bool := match fst (fst o) with Ok _ => true | _ => false end.

Definition ref_step (frames : list frame) (x : sop * sout) : list frame :=
  let '(op, o) := x in
  if negb (acked o) then frames
  else match op with
       | OPut uk tag nchunks role _ => ref_put frames uk tag nchunks role
       | OUpdate target newtag uk _ => ref_update frames target newtag uk
       | ODelete target _ => ref_delete frames target
       | _ => frames
       end.

Definition ref_run (frames : list frame) (xs : list (sop * sout)) : list frame := fold_left ref_step xs frames.

(* the op alphabet of the theorem: a put never asks for the internal DocumentChunk role *)
Definition op_ok (op : sop) : bool :=
  match op with OPut _ _ _ role _ => negb (role =? 1) | _ => true end.

(* identity of a frame: what must never change once assigned *)
Definition same_identity (a b : frame) : Prop :=
  f_id a = f_id b /\ f_uri a = f_uri b /\ f_tag a = f_tag b /\ f_role a = f_role b /\
  f_supersedes a = f_supersedes b /\ f_manifest a = f_manifest b.

Definition Dense (frames : list frame) : Prop :=
  forall i f, nth_error frames i = Some f -> f_id f = N.of_nat i.
