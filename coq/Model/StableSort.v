(* Stable sorting by a boolean comparison `le` (read: "not greater").
   Rust's `slice::sort_by(cmp)` is a stable sort; it is modelled by `isort`
   (what std does for slices of at most 20 elements) and, for longer slices, by any
   stable merge strategy: `msort` below.  Proofs/StableSortProofs.v shows that for a
   total preorder the output is determined by "sorted + stable" alone, so the model does
   not depend on which algorithm std uses (`msort fuel l = isort l` for every fuel).
   Shared by C13 (vector hits by distance), reusable by C15 / C27. *)
From MV Require Import Base.Prelude.

Section StableSort.
  Context {A : Type}.
  Variable le : A -> A -> bool.

  (* insert x before the first element that is strictly greater than x *)
  Fixpoint insert (x : A) (l : list A) : list A :=
    match l with
    | [] => [x]
    | y :: r => if le x y then x :: l else y :: insert x r
    end.

  (* right fold: each element is inserted in front of its equals coming later *)
  Fixpoint isort (l : list A) : list A :=
    match l with
    | [] => []
    | x :: r => insert x (isort r)
    end.

  (* stable merge: on a tie the element of the left run goes first *)
  Fixpoint merge (l1 l2 : list A) {struct l1} : list A :=
    let fix merge_aux (l2 : list A) : list A :=
      match l1, l2 with
      | [], _ => l2
      | _, [] => l1
      | a1 :: l1', a2 :: l2' =>
          if le a1 a2 then a1 :: merge l1' l2 else a2 :: merge_aux l2'
      end
    in merge_aux l2.

  (* top-down merge sort that falls back to insertion sort when the fuel is used up
     (std: small-sort by insertion for short runs, merge above) *)
  Fixpoint msort (fuel : nat) (l : list A) : list A :=
    match fuel with
    | O => isort l
    | S f =>
        match l with
        | [] => []
        | [x] => [x]
        | _ => let h := Nat.div2 (length l) in
               merge (msort f (firstn h l)) (msort f (skipn h l))
        end
    end.

  (* the two directions of the comparison agree: a tie *)
  Definition tie (x y : A) : bool := le x y && le y x.
End StableSort.
