(* M-Persist (C28): what the index sets of Model/Reads.v look like ON DISK and what a handle
   holds after it was opened from the disk.  Model/Reads.v (C08) carries the in-memory sets
   (Tantivy documents, vector index, time index) across a reopen unchanged, i.e. it assumes that
   persisting and loading is the identity; here the file image is explicit and every open
   (read-write, read-only, after doctor) builds the handle from the image only:
     src/memvid/mutation.rs   commit_from_records (rebuild_indexes iff the delta is not empty, else
                              flush_tantivy when the engine is dirty; persist_sketch_track),
                              rebuild_indexes (time index from the table, the three Tantivy
                              branches, flush_tantivy -> update_embedded_lex_snapshot = "write the
                              engine's documents as embedded segments + doc_count", build_vec_artifact),
                              apply_records (a sketch entry for every inserted frame with non-blank
                              index text), put_internal (instant_index: a temporary Tantivy document
                              whose id is next_frame_id(), read before the append; commit 79654f0)
     src/memvid/lifecycle.rs  open_locked / open_read_only_snapshot (load_lex_index_from_manifest,
                              init_tantivy, load_vec_index_from_manifest, load_sketch_track,
                              recover_wal), lex_doc_count
     src/memvid/search/api.rs init_tantivy (segments trusted when the catalog lists them, else
                              rebuilt from the frame table when doc counts differ)
     src/memvid/search/mod.rs the sketch pre-filter of Memvid::search
     src/memvid/doctor.rs     apply_pending_rebuilds (lex / time / vec; vec as repaired by 83a83e8) + the Finalize commit
     src/types/sketch_track.rs write_sketch_track / read_sketch_track at frame-id level
                              (byte level: Model/Sketch.v, C39)
   The store, its frame table and the in-memory sets are those of Model/Store.v / Model/Reads.v. *)
From MV Require Import Base.Prelude Model.Store Model.Reads.
Local Open Scope N_scope.

(* ---------- the sketch track at frame-id level ---------- *)
(* an entry = (SketchEntry.frame_id, the frame whose index text the entry was generated from);
   live entries are (i, i); the file stores the entries in insertion order WITHOUT ids and
   read_sketch_track numbers them `for frame_id in 0..entry_count` (finding F-C39-1) *)
Definition sktrack := list (N * N).

(* SketchTrack::insert: replaces the entry of the same frame id, else appends *)
Fixpoint sk_insert (l : sktrack) (e : N * N) : sktrack :=
  match l with
  | [] => [e]
  | x :: r => if fst x =? fst e then e :: r else x :: sk_insert r e
  end.

Definition sk_written (t : sktrack) : list N := map snd t.
Definition sk_read (w : list N) : sktrack := combine (ids_from 0 (length w)) w.

(* apply_records: `for record in records { .. Insert => { frame_id = toc.frames.len(); .. if text
   non-blank { sketch_track.insert(generate_sketch(frame_id, text)) } } }`; bits = one flag per
   inserted frame, in log order *)
Definition sk_apply (t : sktrack) (n0 : N) (bits : list bool) : sktrack :=
  fold_left (fun (t : sktrack) (ib : N * bool) => if snd ib then sk_insert t (fst ib, fst ib) else t)
            (combine (ids_from n0 (length bits)) bits) t.

(* ids 0,1,2,.. in insertion order: exactly the tracks that survive write + read *)
Definition sk_dense (t : sktrack) : bool := list_eqb N.eqb (map fst t) (ids_from 0 (length t)).

(* ---------- the file image of the index sets ---------- *)
Record disk := mkDisk {
  k_segs : bool;            (* toc.segment_catalog.tantivy_segments is not empty *)
  k_lex : list N;           (* documents of the embedded Tantivy segments *)
  k_count : N;              (* doc_count of the lex storage manifest *)
  k_vec : list (N * N);     (* encoded vector index under toc.indexes.vec *)
  k_vec_on : bool;          (* toc.indexes.vec.is_some() *)
  k_tix : list N;           (* time index track under toc.time_index *)
  k_sk : list N }.          (* sketch track *)

Definition disk0 : disk := mkDisk false [] 0 [] false [] [].

(* update_embedded_lex_snapshot: the engine's documents become the embedded segments *)
Definition flush (d : disk) (lx : list N) : disk :=
  mkDisk true lx (N.of_nat (length lx)) (k_vec d) (k_vec_on d) (k_tix d) (k_sk d).

(* init_tantivy on a freshly opened file *)
Definition init_tantivy (d : disk) (frames : list frame) (al : list fattr) : list N * bool :=
  if k_segs d then (k_lex d, false)                                   (* "Trust existing Tantivy segments" *)
  else if (0 <? k_count d) && (k_count d =? N.of_nat (length (k_lex d))) then (k_lex d, false)
  else (lex_full frames al, true).                                    (* expected_docs != Some(actual_docs): rebuild *)

(* what a handle answers from *)
Record hview := mkHV {
  v_frames : list frame; v_lex : list N; v_vec : list (N * N); v_vec_on : bool; v_tix : list N; v_sk : sktrack }.

Definition same_idx (a b : hview) : Prop :=
  v_frames a = v_frames b /\ v_lex a = v_lex b /\ v_vec a = v_vec b /\ v_vec_on a = v_vec_on b /\ v_tix a = v_tix b.

(* ---------- the machine: Model/Reads.v's store + temporary documents + sketch track + file image ---------- *)
Record pstore := mkP {
  live : rstore;          (* table, log, in-memory sets (instant_index handled by `temps`) *)
  temps : list N;         (* ids of the temporary Tantivy documents of instant-indexed puts *)
  sk : sktrack;           (* Memvid.sketch_track *)
  psk : list bool;        (* per pending insert record: will apply_records give it a sketch entry *)
  dk : disk }.

Definition pstore0 : pstore := mkP rstore0 [] [] [] disk0.

Definition view_of (p : pstore) : hview :=
  mkHV (committed (base (live p))) (lex (live p) ++ temps p) (vec (live p)) (vec_on (live p)) (tix (live p)) (sk p).

(* commit_from_records on the file image; r = state before, r' = sync r *)
Definition persist_sync (d : disk) (r r' : rstore) (sk' : sktrack) : disk :=
  if delta_nonempty (pending (base r))
  then (* rebuild_indexes: time index, Tantivy rebuild + flush_tantivy, vec artifact; then the sketch track *)
       mkDisk true (lex r') (N.of_nat (length (lex r'))) (vec r') (vec_disk r') (tix r') (sk_written sk')
  else (* flush_tantivy only when the engine is dirty; TOC rewritten (vec placeholder manifest); sketch track *)
       let d1 := if tdirty r then flush d (lex r') else d in
       mkDisk (k_segs d1) (k_lex d1) (k_count d1) (k_vec d1) (vec_disk r') (k_tix d1) (sk_written sk').

Definition psync (p : pstore) (extra : N) : pstore :=
  let r := live p in
  let r' := sync r extra in
  let sk' := sk_apply (sk p) (len (committed (base r))) (psk p) in
  mkP r' (if delta_nonempty (pending (base r)) then [] else temps p) sk' [] (persist_sync (dk p) r r' sk').

(* Memvid::open up to recover_wal: the handle is built from the file; a rebuilt engine is flushed by
   recover_wal's `tantivy_index_pending()` branch when nothing is pending *)
Definition popen (p : pstore) : pstore :=
  let r := live p in
  let d := dk p in
  let '(lx, rebuilt) := init_tantivy d (committed (base r)) (attrs r) in
  let d' := match pending (base r) with [] => if rebuilt then flush d lx else d | _ => d end in
  (* vec_enabled = manifest present; the replay of pending records that carry embeddings enables it
     (commit_from_records, repo commit 8099cac) -- there are none when nothing is pending *)
  mkP (mkR (base r) (attrs r) (pattrs r) lx false (k_vec d) (k_vec_on d || has_pemb (pattrs r)) (k_vec_on d) (k_tix d))
      [] (sk_read (k_sk d)) (psk p) d'.

(* Memvid::open_read_only: the same loads, no log replay, nothing written *)
Definition open_ro (d : disk) (frames : list frame) (al : list fattr) : hview :=
  mkHV frames (fst (init_tantivy d frames al)) (k_vec d) (k_vec_on d) (k_tix d) (sk_read (k_sk d)).

(* Memvid::doctor on the closed, fully committed file: try_open (loads), apply_pending_rebuilds ->
   rebuild_indexes(&[], &[]) (time index from the table; Tantivy: no new frames = full rebuild path;
   vec: build_vec_artifact re-encodes the LOADED index filtered by frame_is_active -- since 83a83e8
   also under rebuild_vec_index, which loads the index (ensure_vec_index) before it drops the
   manifest and sets vec_enabled), then the Finalize commit persists the LOADED sketch track *)
Definition doctor (d : disk) (frames : list frame) (al : list fattr) (lexf timef vecf : bool) : disk :=
  if lexf || timef || vecf then
    let lx := lex_full frames al in
    let von := vecf || k_vec_on d in                    (* `if vec { mem.vec_enabled = true; .. }` *)
    mkDisk true lx (N.of_nat (length lx))
           (if von then filter (fun ie => is_active frames (fst ie)) (k_vec d) else [])
           von (tix_full frames) (sk_written (sk_read (k_sk d)))
  else d.

(* the code before 83a83e8 (finding F-C14-1, repaired): rebuild_vec_index dropped manifest AND index
   before rebuild_indexes, whose build_vec_artifact could then only produce an empty index *)
Definition doctor_unfixed (d : disk) (frames : list frame) (al : list fattr) (lexf timef vecf : bool) : disk :=
  if lexf || timef || vecf then
    let lx := lex_full frames al in
    let von := vecf || k_vec_on d in
    mkDisk true lx (N.of_nat (length lx))
           (if vecf then [] else if von then filter (fun ie => is_active frames (fst ie)) (k_vec d) else [])
           von (tix_full frames) (sk_written (sk_read (k_sk d)))
  else d.

(* ---------- operations ---------- *)
Definition strip (op : rop) : rop :=
  match op with
  | RPut uk tag n auto c t e _ => RPut uk tag n auto c t e false
  | RUpdate t nt auto o tx e _ => RUpdate t nt auto o tx e false
  | _ => op
  end.
Definition no_auto (op : rop) : rop :=
  match op with
  | RPut uk tag n _ c t e i => RPut uk tag n None c t e i
  | RUpdate t nt _ o tx e i => RUpdate t nt None o tx e i
  | RDelete t _ => RDelete t None
  | _ => op
  end.
Definition auto_of (op : rop) : option N :=
  match op with RPut _ _ _ a _ _ _ _ => a | RUpdate _ _ a _ _ _ _ => a | RDelete _ a => a | _ => None end.
(* instant_index && search text non-blank *)
Definition instant_of (op : rop) : bool :=
  match op with RPut _ _ _ _ _ t _ i => i && t | RUpdate _ _ _ _ t _ i => i && t | _ => false end.
Definition is_mut (op : rop) : bool :=
  match op with RPut _ _ _ _ _ _ _ _ | RUpdate _ _ _ _ _ _ _ | RDelete _ _ => true | _ => false end.

Inductive pop :=
| PMut (op : rop) (bits : list bool)   (* RPut / RUpdate / RDelete of Model/Reads.v; bits: sketch flags of the frames it inserts *)
| PCommit (extra : N)
| PReopen (extra : N)                  (* drop (commits when dirty) + Memvid::open *)
| PCrash (extra : N).                  (* exit without commit + Memvid::open (replay) *)

Definition rop_of (x : pop) : rop :=
  match x with PMut op _ => if is_mut op then strip op else RRead [] | PCommit e => RCommit e | PReopen e => RReopen e | PCrash e => RCrash e end.

Definition acked (o : sout) : bool := match fst (fst o) with Ok _ => true | _ => false end.

Definition set_live (p : pstore) (r : rstore) : pstore := mkP r (temps p) (sk p) (psk p) (dk p).

Definition pstep (p : pstore) (x : pop) : pstore * sout :=
  let r := live p in
  let b := base r in
  match x with
  | PMut op bits =>
      if is_mut op then
        let '(r1, o1) := rstep r (no_auto (strip op)) in
        if acked o1 then
          (* put_internal: frame id read before the append; the temporary document before the checkpoint *)
          let tmp := if instant_of op then temps p ++ [next_frame_id b] else temps p in
          let p1 := mkP r1 tmp (sk p) (psk p ++ bits) (dk p) in
          match auto_of op with
          | Some extra => let p2 := psync p1 extra in (p2, observe (base (live p2)) (fst (fst o1)))
          | None => (p1, o1)
          end
        else (p, o1)
      else (p, observe b (Ok 0))
  | PCommit extra =>
      let p1 := match pending b, dirty b with
                | [], false => set_live p (set_base r (bump b extra))
                | _, _ => psync p extra
                end in
      (p1, observe (base (live p1)) (Ok 0))
  | PReopen extra =>
      let p1 := if dirty b then psync p extra else set_live p (set_base r (bump b extra)) in
      let p2 := popen p1 in
      let p3 := match pending (base (live p2)) with [] => p2 | _ => psync p2 0 end in
      (p3, observe (base (live p3)) (Ok 0))
  | PCrash extra =>
      let p2 := popen p in
      let r2 := live p2 in
      let p3 := match pending b with
                | [] => set_live p2 (set_base r2 (mkStore (committed b) [] (seqno b + extra) 0 false))
                | _ => psync p2 extra
                end in
      (p3, observe (base (live p3)) (Ok 0))
  end.

Fixpoint prun (p : pstore) (ops : list pop) : pstore * list (pstore * sout) :=
  match ops with
  | [] => (p, [])
  | x :: rest => let '(p1, o) := pstep p x in
                 let '(p2, os) := prun p1 rest in (p2, (p1, o) :: os)
  end.

(* the four handles of a fully committed memory *)
Definition handle_live (p : pstore) : hview := view_of p.
Definition handle_rw (p : pstore) (extra : N) : hview := view_of (fst (pstep p (PReopen extra))).
Definition handle_ro (p : pstore) : hview := open_ro (dk p) (committed (base (live p))) (attrs (live p)).
Definition handle_doctor (p : pstore) (lexf timef vecf : bool) : hview :=
  open_ro (doctor (dk p) (committed (base (live p))) (attrs (live p)) lexf timef vecf)
          (committed (base (live p))) (attrs (live p)).

(* ---------- the read paths of a handle ---------- *)
Section Answers.
  Variable query : Type.
  (* Tantivy search_documents over the engine's documents, with the optional frame filter *)
  Variable engine_search : list N -> option (list N) -> query -> list N.
  (* uri / scope filter, parsed.evaluate on the frame's own search text, non-empty snippet slices *)
  Variable post_hit : frame -> query -> bool.
  (* QuerySketch::score_entry is Some: the sketch generated from that frame's text passes the query's
     term-filter and Hamming tests (simhash and the 16-byte filter survive the track round trip, C39) *)
  Variable sk_pass : N -> query -> bool.
  Variable has_text : query -> bool.
  Variable vec_rank : list (N * N) -> query -> nat -> list N.

  (* find_sketch_candidates: the sort by score and truncate(max(10 top_k, 500)) do not change the
     candidate SET of a track with at most 500 entries *)
  Definition sk_cands (t : sktrack) (q : query) : list N := map fst (filter (fun e => sk_pass (snd e) q) t).

  Definition is_nil {A} (l : list A) : bool := match l with [] => true | _ => false end.

  (* search/mod.rs without date range / as-of: the sketch pre-filter, then try_tantivy_search *)
  Definition psearch (v : hview) (no_sketch : bool) (q : query) : list N :=
    let filt := if negb (is_nil (v_sk v)) && has_text q && negb no_sketch
                then match sk_cands (v_sk v) q with [] => None | l => Some l end
                else None in
    flat_map (fun i => match get (v_frames v) i with
                       | Some f => if post_hit f q then [i] else []
                       | None => []                        (* "skipping search hit with stale frame_id" *)
                       end) (engine_search (v_lex v) filt q).

  Definition pvec (v : hview) (q : query) (limit : nat) : option (list N) :=
    if v_vec_on v then Some (vec_rank (v_vec v) q limit) else None.      (* None = VecNotEnabled *)

  Definition ptimeline (v : hview) (keep : N -> bool) (reverse : bool) (limit : nat) : list (N * list N) :=
    timeline (v_frames v) (v_tix v) keep reverse limit.
End Answers.

(* ---------- the class of finding F-C39-1 inside this property ---------- *)
(* the pre-filter is used and the sketch ids are not 0,1,2,.. *)
Definition known_class (p : pstore) (no_sketch : bool) : bool := negb no_sketch && negb (sk_dense (sk p)).
