(* C20 detection table: which check, if any, stands between a changed byte of a committed,
   closed file and a reader.  Executable definitions only.

   The checks are modelled line by line from
     src/memvid/lifecycle.rs : read_toc (length + commit-footer hash), load_memories_track /
                               load_logic_mesh (manifest checksum), the deferred
                               Toc::verify_checksum at the end of open_locked
     src/memvid/frame.rs     : validate_frame_bounds, read_frame_payload_bytes (with the frame-checksum
                               comparison of /repo 55d5bb8), frame_canonical_bytes (non-chunked frame)
     src/memvid/maintenance.rs : Memvid::verify, check by check (incl. FramePayloadChecksums)
   and reuse Model/Footer.v (footer codec, hash_matches), Model/TimeIndex.v (read_track),
   Model/Wal.v (scan_records / record image).  BLAKE3 and zstd are Section variables. *)
From MV Require Import Base.Prelude Model.Footer Model.TimeIndex Model.Wal Model.Bincode Model.Toc.
Local Open Scope N_scope.

(* ------------------------------------------------------------------ region classes *)
Inductive rclass :=
| HdrMagic | HdrFooterOff | HdrWalOff | HdrWalSize | HdrCkptPos | HdrWalSeq | HdrTocSum | HdrLegacy | HdrPad
| LogSeq | LogLen | LogReserved | LogDigest | LogPayload | LogSentinel | LogSlack
| PayPlain | PayZstd | TimeIdx | Tantivy | VecIdx | Sketch | Memories | Mesh
| TocBytes | FootMagic | FootLen | FootHash | FootGen | Unref | PastFooter | PayInactive
| PayChunk.    (* stored payload of an active DocumentChunk frame whose parent document has a chunk manifest *)

Definition all_classes : list rclass :=
  [HdrMagic; HdrFooterOff; HdrWalOff; HdrWalSize; HdrCkptPos; HdrWalSeq; HdrTocSum; HdrLegacy; HdrPad;
   LogSeq; LogLen; LogReserved; LogDigest; LogPayload; LogSentinel; LogSlack;
   PayPlain; PayZstd; TimeIdx; Tantivy; VecIdx; Sketch; Memories; Mesh;
   TocBytes; FootMagic; FootLen; FootHash; FootGen; Unref; PastFooter; PayInactive; PayChunk].

(* the codes used by harness/src/c20.rs *)
Definition class_of_code (n : N) : option rclass := nth_error all_classes (N.to_nat n).

(* what stands between a changed byte of the class and a reader *)
Inductive guard :=
| GHash (check : N)      (* a BLAKE3 comparison: 1 = commit-footer hash over the TOC bytes (read_toc / footer scan),
                            2 = log record digest over the record payload, 3 = track manifest checksum,
                            4 = frame.checksum over the stored payload bytes *)
| GStructural            (* only format checks of the decoder (magic, lengths, order, enum tags): partial *)
| GValue                 (* a fixed value is demanded (magic / version / spec bytes) *)
| GRecovered             (* the value is cross-checked and re-derived from the commit footer *)
| GNotRead               (* no read path looks at these bytes *)
| GNone.                 (* read and used, compared with nothing *)

Definition guard_of (c : rclass) : guard :=
  match c with
  | HdrMagic => GValue
  | HdrFooterOff => GRecovered          (* read_toc fails -> recover_toc finds the footer by scanning *)
  | HdrWalOff | HdrWalSize => GStructural   (* >= 4096 / non-zero; then the log scan and validate_frame_bounds: partial *)
  | HdrCkptPos => GNotRead              (* only reduced mod size into checkpoint_head, which no read uses *)
  | HdrWalSeq => GNone                  (* decides which log records are replayed *)
  | HdrTocSum => GNotRead               (* compared with nothing on the path that opens successfully *)
  | HdrLegacy | HdrPad => GNotRead
  | LogSeq => GNone                     (* the record digest covers the payload only *)
  | LogLen => GHash 2                   (* a different length selects a different payload slice *)
  | LogReserved => GNotRead
  | LogDigest | LogPayload => GHash 2
  | LogSentinel => GStructural          (* a non-zero header there is parsed as a record *)
  | LogSlack => GNotRead
  | PayPlain | PayZstd => GHash 4       (* since 55d5bb8: frame.checksum over the stored bytes, on every read and in verify(deep) *)
  | PayInactive => GHash 4              (* on a read of that frame; verify(deep) loops over active frames only *)
  | PayChunk => GHash 4                 (* as PayPlain/PayZstd; but search's resolve_chunk_context swallows the error (table) *)
  | TimeIdx => GStructural              (* magic, count*16 = length, order; manifest checksum never compared *)
  | Tantivy => GStructural              (* Tantivy's own footers; descriptor checksum never compared *)
  | VecIdx => GStructural               (* bincode decode; manifest checksum never compared *)
  | Sketch => GStructural
  | Memories | Mesh => GHash 3
  | TocBytes => GHash 1
  | FootMagic | FootLen | FootHash => GHash 1
  | FootGen => GNotRead                 (* not covered by the hash; only reported as generation *)
  | Unref => GNotRead
  | PastFooter => GStructural
  end.

(* ------------------------------------------------------------------ verdicts and the table *)
Inductive verdict := VError | VSame | VDiff.
Definition verdict_of_code (n : N) : verdict := if n =? 0 then VError else if n =? 1 then VSame else VDiff.
Definition verdict_code (v : verdict) : N := match v with VError => 0 | VSame => 1 | VDiff => 2 end.
Definition verdict_eqb (a b : verdict) : bool := verdict_code a =? verdict_code b.

Inductive fkind := Flip | Zero | Trunc.
Definition fkind_of_code (n : N) : fkind := if n =? 0 then Flip else if n =? 1 then Zero else Trunc.

(* an observation: (verdict of open + all reads, verdict of open_read_only + all reads,
   verify(deep): 0 Passed, 1 Failed, 2 verify itself returned an error) *)
Definition obs := (verdict * verdict * N)%type.

Definition E3 : obs := (VError, VError, 2).
Definition S3 : obs := (VSame, VSame, 0).

(* the classes on which the faithful model has no check: a change there can be served *)
Definition known_class (c : rclass) : bool :=
  match c with
  | PayChunk | TimeIdx | Tantivy | VecIdx | LogSeq | HdrWalSeq | HdrWalSize | HdrWalOff | TocBytes => true
  | _ => false
  end.

(* what a flip / zeroing inside the class may produce (the first entry is the typical one).
   Truncation at any point before the end of the footer removes the footer: every open fails. *)
Definition table (c : rclass) (k : fkind) : list obs :=
  match k with
  | Trunc => match c with
             | PastFooter => [S3; E3]
             | FootMagic => [E3; (VSame, VError, 2)]   (* cut exactly at the footer start: TOC decoded from the hint *)
             | _ => [E3]
             end
  | _ =>
    match c with
    | HdrMagic => [E3]
    | HdrFooterOff => [S3]
    | HdrWalOff => [E3; (VError, VError, 0); (VError, VError, 1); (VDiff, VDiff, 0); (VDiff, VDiff, 1)]
    | HdrWalSize => [(VError, VError, 0); E3; S3; (VError, VError, 1); (VDiff, VDiff, 0); (VDiff, VDiff, 1)]
    | HdrCkptPos | HdrTocSum | HdrLegacy | HdrPad => [S3]
    | HdrWalSeq => [S3; (VDiff, VSame, 1); (VSame, VSame, 1); (VError, VSame, 1)]
    | LogSeq => [(VDiff, VSame, 1); S3; (VSame, VSame, 1); (VError, VSame, 1); E3]
    | LogLen | LogDigest | LogPayload => [E3]
    | LogReserved | LogSlack => [S3]
    | LogSentinel => [E3; S3]
    | PayPlain | PayZstd => [(VError, VError, 1)]              (* the frame's reads fail, verify: FramePayloadChecksums Failed *)
    | PayInactive => [(VError, VError, 0)]                      (* a read of that frame fails; not in verify's loop *)
    | PayChunk => [(VDiff, VDiff, 1); (VError, VError, 1)]      (* payload reads fail, verify Failed; search hits on the document's
                                                                   chunks silently fall back to frame.search_text: different hit text *)
    | Unref | FootGen => [S3]
    | TimeIdx => [(VDiff, VDiff, 0); (VError, VError, 1); S3; (VDiff, VDiff, 1); (VError, VError, 0)]
    | Tantivy => [S3; (VDiff, VDiff, 0); (VError, VError, 0); E3; (VDiff, VDiff, 1); (VError, VError, 1)]
    | VecIdx => [(VDiff, VDiff, 0); S3; (VError, VError, 0); E3; (VDiff, VDiff, 1); (VError, VError, 1)]
    | Sketch => [S3; E3]
    | Memories | Mesh => [E3]
    | TocBytes => [E3; (VDiff, VError, 2); (VSame, VError, 2)]   (* the two others: hinted recovery + re-stamp *)
    | FootMagic | FootLen | FootHash => [(VSame, VError, 2); E3]
    | PastFooter => [S3]
    end
  end.

Definition obs_eqb (a b : obs) : bool :=
  let '(a1, a2, a3) := a in let '(b1, b2, b3) := b in verdict_eqb a1 b1 && verdict_eqb a2 b2 && (a3 =? b3).
Definition allowed (c : rclass) (k : fkind) (o : obs) : bool := existsb (obs_eqb o) (table c k).

Definition silent (o : obs) : bool :=
  let '(a, b, _) := o in verdict_eqb a VDiff || verdict_eqb b VDiff.
Definition passed_but_differs (o : obs) : bool := let '(_, _, v) := o in silent o && (v =? 0).

(* ------------------------------------------------------------------ hash guards *)
Section Guards.
  Variable H : bytes -> bytes.

  (* a guarded region: the reader recomputes H over the content and compares with the stored digest *)
  Definition guard_check (content digest : bytes) : bool := bytes_eqb (H content) digest.

  (* ---- read_toc (lifecycle.rs), up to and including the footer-hash comparison.
     Returns the validated TOC bytes; verify_toc_prefix and Toc::decode are applied to them. *)
  Definition MAX_INDEX_BYTES : N := 536870912.
  Definition E_TOC_BEYOND : N := 1.   (* "footer offset beyond file length" *)
  Definition E_TOC_LIMIT : N := 2.    (* "toc region exceeds safety limit" *)
  Definition E_TOC_SMALL : N := 3.    (* "region too small to contain footer" *)
  Definition E_TOC_FOOTER : N := 4.   (* "failed to decode commit footer" *)
  Definition E_TOC_LEN : N := 5.      (* "toc length mismatch" *)
  Definition E_TOC_HASH : N := 6.     (* "commit footer toc hash mismatch" *)

  Definition read_toc (file : bytes) (footer_offset : N) : outcome bytes :=
    let len := N.of_nat (length file) in
    if len <? footer_offset then Err E_TOC_BEYOND
    else
      let total_size := len - footer_offset in
      if MAX_INDEX_BYTES <? total_size then Err E_TOC_LIMIT
      else if total_size <? N.of_nat FOOTER_SIZE then Err E_TOC_SMALL
      else
        let buf := skipn (N.to_nat footer_offset) file in
        let footer_start := (length buf - FOOTER_SIZE)%nat in
        match footer_decode (skipn footer_start buf) with
        | None => Err E_TOC_FOOTER
        | Some footer =>
            let toc_bytes := firstn footer_start buf in
            if negb (N.of_nat (length toc_bytes) =? toc_len footer) then Err E_TOC_LEN
            else if negb (hash_matches H footer toc_bytes) then Err E_TOC_HASH
            else Ok toc_bytes
        end.

  (* ---- load_memories_track / load_logic_mesh: read bytes_length bytes at bytes_offset,
     compare BLAKE3 with the manifest checksum, then deserialize *)
  Definition E_TRACK_LIMIT : N := 1.
  Definition E_TRACK_IO : N := 9.
  Definition E_TRACK_SUM : N := 2.
  Definition load_track (file : bytes) (off len : N) (checksum : bytes) : outcome bytes :=
    if MAX_INDEX_BYTES <? len then Err E_TRACK_LIMIT
    else
      let buf := slice file (N.to_nat off) (N.to_nat len) in
      if negb (Nat.eqb (length buf) (N.to_nat len)) then Err E_TRACK_IO      (* read_exact *)
      else if negb (guard_check buf checksum) then Err E_TRACK_SUM
      else Ok buf.

  (* ---- frames *)
  Record frame := mkFrame {
    f_off : N; f_len : N; f_zstd : bool; f_canon_len : option N; f_checksum : bytes;
    f_active : bool }.                                  (* status == FrameStatus::Active *)

  Definition MAX_FRAME_BYTES : N := 268435456.
  Definition E_FR_MAX : N := 1.       (* "payload length exceeds maximum" *)
  Definition E_FR_WALOVF : N := 2.    (* "wal region overflow" *)
  Definition E_FR_WAL : N := 3.       (* "payload overlaps wal region" *)
  Definition E_FR_RANGE : N := 4.     (* "payload range overflow" *)
  Definition E_FR_DATA : N := 5.      (* "payload extends past data region" *)
  Definition E_FR_FILE : N := 6.      (* "payload extends past file length" *)
  Definition E_FR_DECODE : N := 7.    (* "failed to decode canonical payload" *)
  Definition E_FR_CANON : N := 8.     (* "canonical length mismatch" *)
  Definition E_FR_SUM : N := 10.      (* "payload checksum mismatch" (since 55d5bb8) *)

  (* validate_frame_bounds; ctx = (wal_offset, wal_size, data_end) of the handle *)
  Definition validate_frame_bounds (ctx : N * N * N) (file_len : N) (fr : frame) : outcome unit :=
    let '(wal_offset, wal_size, data_end) := ctx in
    if f_len fr =? 0 then Ok tt
    else if MAX_FRAME_BYTES <? f_len fr then Err E_FR_MAX
    else if 2 ^ 64 <=? wal_offset + wal_size then Err E_FR_WALOVF
    else if f_off fr <? wal_offset + wal_size then Err E_FR_WAL
    else if 2 ^ 64 <=? f_off fr + f_len fr then Err E_FR_RANGE
    else if data_end <? f_off fr + f_len fr then Err E_FR_DATA
    else if file_len <? f_off fr + f_len fr then Err E_FR_FILE
    else Ok tt.

  (* read_frame_payload_bytes as of 55d5bb8: bounds, read_exact of payload_length bytes at
     payload_offset, then `!buf.is_empty() && blake3(buf) != frame.checksum` -> InvalidFrame.
     frame.checksum is the digest of the STORED bytes (for a zstd frame: of the compressed bytes),
     so the comparison happens before any decoding. *)
  Definition read_frame_payload_bytes (ctx : N * N * N) (file : bytes) (fr : frame) : outcome bytes :=
    match validate_frame_bounds ctx (N.of_nat (length file)) fr with
    | Err e => Err e
    | Panic s => Panic s
    | Ok _ =>
        let buf := slice file (N.to_nat (f_off fr)) (N.to_nat (f_len fr)) in
        if negb (Nat.eqb (length buf) 0) && negb (guard_check buf (f_checksum fr)) then Err E_FR_SUM
        else Ok buf
    end.

  (* Reads through one handle.  read_frame_payload_bytes takes the handle (&mut self) but consults only
     header fields, data_end and the file: no memo, no cache of earlier verdicts.  The model makes that
     explicit: a handle carries the history of payload reads made through it, and the answer ignores it. *)
  Definition handle_read (ctx : N * N * N) (file : bytes) (hist : list frame) (fr : frame) : list frame * outcome bytes :=
    (fr :: hist, read_frame_payload_bytes ctx file fr).
  Fixpoint run_reads (ctx : N * N * N) (file : bytes) (hist : list frame) (sched : list frame) : list (outcome bytes) :=
    match sched with
    | [] => []
    | fr :: r => let '(h', a) := handle_read ctx file hist fr in a :: run_reads ctx file h' r
    end.

  (* the same function before 55d5bb8 (no comparison): kept to state what the fix closed *)
  Definition read_frame_payload_bytes_unchecked (ctx : N * N * N) (file : bytes) (fr : frame) : outcome bytes :=
    match validate_frame_bounds ctx (N.of_nat (length file)) fr with
    | Err e => Err e
    | Panic s => Panic s
    | Ok _ => Ok (slice file (N.to_nat (f_off fr)) (N.to_nat (f_len fr)))
    end.

  Variable unzstd : bytes -> option bytes.       (* zstd::decode_all *)

  Definition decode_canonical (fr : frame) (raw : bytes) : outcome bytes :=
    if f_zstd fr then match unzstd raw with Some d => Ok d | None => Err E_FR_DECODE end else Ok raw.

  Definition check_canon_len (fr : frame) (decoded : bytes) : outcome bytes :=
    match f_canon_len fr with
    | Some expected => if N.of_nat (length decoded) =? expected then Ok decoded else Err E_FR_CANON
    | None => Ok decoded
    end.

  Definition decode_and_check (fr : frame) (raw : outcome bytes) : outcome bytes :=
    match raw with
    | Ok r => match decode_canonical fr r with
              | Ok decoded => check_canon_len fr decoded
              | e => e
              end
    | e => e
    end.

  (* frame_canonical_bytes for a frame without chunk manifest (a chunked document is the
     concatenation of its chunk frames' results) *)
  Definition frame_canonical_bytes (ctx : N * N * N) (file : bytes) (fr : frame) : outcome bytes :=
    decode_and_check fr (read_frame_payload_bytes ctx file fr).
  Definition frame_canonical_bytes_unchecked (ctx : N * N * N) (file : bytes) (fr : frame) : outcome bytes :=
    decode_and_check fr (read_frame_payload_bytes_unchecked ctx file fr).

  (* ---- Memvid::verify, check by check.  What it consults of the read-only handle: *)
  Record vstate := mkV {
    v_time : option (outcome (list entry) * N);   (* read_track result, manifest.entry_count; None = no manifest *)
    v_lex : option bool;                          (* lex enabled? ensure_lex_index succeeded *)
    v_vec : option bool;                          (* vec enabled? ensure_vec_index succeeded *)
    v_pending : outcome (list wrec);              (* wal.pending_records() *)
    v_payloads : bool;                            (* read_frame_payload_bytes is Ok for every ACTIVE frame with payload_length > 0 *)
    v_stats_frames : outcome N;                   (* stats().frame_count *)
    v_toc_frames : N }.

  Inductive vstatus := Passed | Failed | Skipped.
  Definition is_failed (s : vstatus) : bool := match s with Failed => true | _ => false end.

  Fixpoint ts_sorted (l : list entry) : bool :=      (* entries.windows(2).all(|p| p[0].ts <= p[1].ts) *)
    match l with
    | a :: ((b :: _) as r) => (fst a <=? fst b)%Z && ts_sorted r
    | _ => true
    end.

  Definition verify_checks (deep : bool) (s : vstate) : list vstatus :=
    (match v_time s with
     | Some (Ok entries, count) =>
         (if count =? N.of_nat (length entries) then Passed else Failed) ::
         (if deep then [if ts_sorted entries then Passed else Failed] else [])
     | Some (_, _) => [Failed]
     | None => [Skipped]
     end) ++
    [match v_lex s with Some true => Passed | Some false => Failed | None => Skipped end;
     match v_vec s with Some true => Passed | Some false => Failed | None => Skipped end;
     match v_pending s with Ok [] => Passed | _ => Failed end] ++
    (if deep then [if v_payloads s then Passed else Failed] else []) ++          (* FramePayloadChecksums (55d5bb8) *)
    [match v_stats_frames s with Ok n => if n =? v_toc_frames s then Passed else Failed | _ => Failed end].

  Definition verify_overall (deep : bool) (s : vstate) : vstatus :=
    if existsb is_failed (verify_checks deep s) then Failed else Passed.

  (* verify before 55d5bb8 = the same checks without FramePayloadChecksums *)
  Definition without_payload_check (s : vstate) : vstate :=
    mkV (v_time s) (v_lex s) (v_vec s) (v_pending s) true (v_stats_frames s) (v_toc_frames s).
  Definition verify_overall_unchecked (deep : bool) (s : vstate) : vstatus := verify_overall deep (without_payload_check s).

  (* where verify gets its state from: the log region, the index area and (deep, since 55d5bb8) the
     stored bytes of the active non-empty frames; the lex / vec decoders are oracles *)
  Record layout := mkLayout {
    l_wal_off : N; l_wal_size : N; l_ckpt_seq : N;
    l_time : option (N * N * N);                 (* offset, length, entry_count *)
    l_lex : option (N * N); l_vec : option (N * N);
    l_ctx : N * N * N;                           (* wal_offset, wal_size, data_end of the handle *)
    l_frame_list : list frame }.
  Variable lex_ok vec_ok : bytes -> bool.

  Definition pending_of (region : bytes) (size ckpt : N) : outcome (list wrec) :=
    match scan_records H region size with
    | Ok (entries, _) => Ok (filter (fun e => ckpt <? r_seq e) entries)
    | Err e => Err e
    | Panic s => Panic s
    end.

  Definition checked_frame (fr : frame) : bool := f_active fr && negb (f_len fr =? 0).
  Definition payload_reads (ctx : N * N * N) (file : bytes) (fr : frame) : bool :=
    match read_frame_payload_bytes ctx file fr with Ok _ => true | _ => false end.

  Definition vstate_of (file : bytes) (l : layout) : vstate :=
    mkV (match l_time l with
         | Some (off, len, count) => Some (read_track file (N.to_nat off) len, count)
         | None => None
         end)
        (match l_lex l with Some (off, len) => Some (lex_ok (slice file (N.to_nat off) (N.to_nat len))) | None => None end)
        (match l_vec l with Some (off, len) => Some (vec_ok (slice file (N.to_nat off) (N.to_nat len))) | None => None end)
        (pending_of (slice file (N.to_nat (l_wal_off l)) (N.to_nat (l_wal_size l))) (l_wal_size l) (l_ckpt_seq l))
        (forallb (payload_reads (l_ctx l) file) (filter checked_frame (l_frame_list l)))
        (Ok (N.of_nat (length (l_frame_list l)))) (N.of_nat (length (l_frame_list l))).

  (* every byte range verify looks at lies outside [lo, hi) *)
  Definition range_outside (lo hi : N) (r : N * N) : bool := (fst r + snd r <=? lo) || (hi <=? fst r).
  Definition layout_outside (l : layout) (lo hi : N) : bool :=
    range_outside lo hi (l_wal_off l, l_wal_size l) &&
    match l_time l with Some (off, _, _) => hi <=? off | None => true end &&      (* read_track reads forward from off *)
    match l_lex l with Some r => range_outside lo hi r | None => true end &&
    match l_vec l with Some r => range_outside lo hi r | None => true end &&
    forallb (fun fr => range_outside lo hi (f_off fr, f_len fr)) (filter checked_frame (l_frame_list l)).
End Guards.

(* ---- the end of open_locked.  `checksum_result = toc.verify_checksum()` is taken right after
   the TOC was obtained (from read_toc, or from recover_toc, whose hinted branch decodes the
   bytes between header.footer_offset and the last 56 bytes WITHOUT comparing any hash); the
   indexes are then loaded from that TOC, and only at the very end
   `if checksum_result.is_err() { memvid.toc.verify_checksum()?; ... }`.  In between,
   recover_wal -> flush_tantivy -> rewrite_toc_footer re-stamps memvid.toc when the embedded
   lexical index could not be opened / was rebuilt (tantivy_index_pending).
   `restamped` = Some t2 when that happened (t2 = the TOC as rewritten, before stamping). *)
Definition open_final_check (H : bytes -> bytes) (t : value) (restamped : option value) : bool :=
  if verify_checksum H t then true
  else match restamped with
       | Some t2 => verify_checksum H (stamp H t2)
       | None => verify_checksum H t
       end.

(* replace the bytes [off, off + |patch|) of a file *)
Definition patch_at (file : bytes) (off : nat) (patch : bytes) : bytes :=
  firstn off file ++ patch ++ skipn (off + length patch) file.
