(* Model of src/simd.rs: l2_distance_squared_simd, l2_distance_simd (feature `simd`,
   wide::f32x8) and the scalar fallback (cfg not(feature = "simd")).

   The kernel is written once, over an arbitrary carrier F with operations
   fzero/fadd/fsub/fmul/fsqrt, and instantiated twice:
     - Model/SimdL2F32.v : F = IEEE binary32 (Flocq), round to nearest even -- the code;
     - Properties/C38.v  : F = Z (or any commutative ring)                   -- exact arithmetic.
   What the Rust does, line by line:
     len = a.len(); chunks = len / 8; remainder = len % 8;
     sum = f32x8::ZERO                                  (eight lanes of +0.0)
     for i in 0..chunks: offset = i*8; a_chunk/b_chunk = lanes offset..offset+7;
                         diff = a_chunk - b_chunk; sum += diff * diff
                         (wide 1.1.1: lane-wise sub, mul, add -- no fused multiply-add;
                          without AVX the f32x8 is two f32x4, same lane-wise results)
     total = sum_array.iter().sum()                     (<f32 as Sum>::sum: fold from the
                                                         neutral element `sum_init`, which is
                                                         -0.0 in the pinned std, lanes 0..7 in order)
     offset = chunks*8; for i in 0..remainder: diff = a[offset+i]-b[offset+i]; total += diff*diff
     l2_distance_simd = total.sqrt()
   debug_assert_eq!(a.len(), b.len()) is a panic in the debug profile (the harness build). *)
From MV Require Import Base.Prelude.

Section Kernel.
  Variable F : Type.
  Variable fzero : F.                 (* +0.0: f32x8::ZERO lanes (also the default of nth, never reached) *)
  Variable sum_init : F.              (* neutral element std's `impl Sum for f32` folds from *)
  Variables fadd fsub fmul : F -> F -> F.
  Variable fsqrt : F -> F.

  (* lane-wise binary operation on two 8-lane vectors *)
  Definition zipw (f : F -> F -> F) (x y : list F) : list F :=
    map (fun p => f (fst p) (snd p)) (combine x y).

  (* f32x8::new([v[offset], v[offset+1], ..., v[offset+7]]) *)
  Definition load8 (v : list F) (offset : nat) : list F :=
    map (fun k => nth (offset + k) v fzero) (seq 0 8).

  Definition ZERO8 : list F := repeat fzero 8.

  (* one iteration of `for i in 0..chunks` *)
  Definition chunk_step (a b : list F) (sum : list F) (i : nat) : list F :=
    let offset := i * 8 in
    let a_chunk := load8 a offset in
    let b_chunk := load8 b offset in
    let diff := zipw fsub a_chunk b_chunk in
    zipw fadd sum (zipw fmul diff diff).

  (* one iteration of `for i in 0..remainder` *)
  Definition rem_step (a b : list F) (offset : nat) (total : F) (i : nat) : F :=
    let diff := fsub (nth (offset + i) a fzero) (nth (offset + i) b fzero) in
    fadd total (fmul diff diff).

  Definition l2sq_body (a b : list F) : F :=
    let len := length a in
    let chunks := len / 8 in
    let remainder := len mod 8 in
    let sum := fold_left (chunk_step a b) (seq 0 chunks) ZERO8 in
    let total := fold_left fadd sum sum_init in          (* sum_array.iter().sum() *)
    let offset := chunks * 8 in
    fold_left (rem_step a b offset) (seq 0 remainder) total.

  Definition l2_distance_squared_simd (a b : list F) : outcome F :=
    if negb (Nat.eqb (length a) (length b)) then Panic 1   (* debug_assert_eq! *)
    else Ok (l2sq_body a b).

  Definition l2_distance_simd (a b : list F) : outcome F :=
    match l2_distance_squared_simd a b with
    | Ok t => Ok (fsqrt t)
    | Err k => Err k
    | Panic s => Panic s
    end.

  (* ---- the scalar definition (the cfg(not(feature = "simd")) fallback):
          a.iter().zip(b.iter()).map(|(x, y)| { let diff = x - y; diff * diff }).sum() ---- *)
  Definition sqdiff (x y : F) : F := let diff := fsub x y in fmul diff diff.

  Definition l2sq_scalar (a b : list F) : F :=
    fold_left fadd (map (fun p => sqdiff (fst p) (snd p)) (combine a b)) sum_init.

  Definition l2_scalar (a b : list F) : F := fsqrt (l2sq_scalar a b).
End Kernel.
