(* M-SingleFile (C19): the directory that holds a memory, as a list of named entries, and what
   every API call does to its NAMES.

   Follows, line by line:
     src/memvid/lifecycle.rs   ensure_single_file, Memvid::create / open / open_read_only / try_open
     src/memvid/doctor.rs      doctor_plan (ensure_single_file first)
     src/memvid/mutation.rs    CommitStaging::{prepare, copy_from, commit, discard}, with_staging_lock
     atomic-write-file 0.3.0   imp/unix/generic.rs TemporaryFile::open, imp/unix/mod.rs
                               create_temporary_file (O_CREAT|O_EXCL retry loop, name ".NAME.XXXXXX"),
                               rename_temporary_file, remove_temporary_file; lib.rs _commit / _discard / Drop
     src/lockfile.rs           lockfile_path, acquire, Drop for LockfileGuard
   File CONTENTS are the business of Model/FsProto.v (C02/C03); this model keeps only the
   directory-level effect of each operation of that protocol and adds the Unlink that a discarded
   staging file gets.  Everything else an API call does is an in-place write on an inode that
   already has a name (log append, log growth, vacuum, replay, doctor's repairs, create's
   header/TOC) or lives in Tantivy's scratch directory (TempDir::new() in the system temporary
   directory): no directory operation beside the memory. *)
From Coq Require Import String Ascii.
From MV Require Import Base.Prelude Model.FsProto.
Local Open Scope N_scope.

(* ---------------------------------------------------------------- names and directories *)
Definition name := list N.                              (* file name bytes (OsStr on unix) *)
Definition name_eqb : name -> name -> bool := list_eqb N.eqb.

(* what lstat / stat see under a name *)
Inductive ekind := KFile | KDir | KLink (live : bool).  (* symbolic link: does its target resolve? *)
Definition dir := list (name * ekind).

Fixpoint lookup (d : dir) (n : name) : option ekind :=
  match d with
  | [] => None
  | (m, k) :: r => if name_eqb m n then Some k else lookup r n
  end.
Definition has (d : dir) (n : name) : bool := match lookup d n with Some _ => true | None => false end.
(* Path::exists = fs::metadata(path).is_ok(): stat follows symbolic links *)
Definition stat_ok (d : dir) (n : name) : bool :=
  match lookup d n with Some (KLink false) => false | Some _ => true | None => false end.
Definition names (d : dir) : list name := map fst d.

Definition d_unlink (d : dir) (n : name) : dir := filter (fun e => negb (name_eqb (fst e) n)) d.
(* open(O_CREAT) without O_EXCL: an existing entry stays what it is *)
Definition d_creat (d : dir) (n : name) : dir := if has d n then d else d ++ [(n, KFile)].
(* rename(a, b) of a regular file over b *)
Definition d_rename (d : dir) (a b : name) : dir :=
  if name_eqb a b then d
  else if has d a then d_unlink (d_unlink d a) b ++ [(b, KFile)] else d.

Inductive dop := DCreat (n : name) | DUnlink (n : name) | DRename (a b : name).
Definition dstep (d : dir) (o : dop) : dir :=
  match o with DCreat n => d_creat d n | DUnlink n => d_unlink d n | DRename a b => d_rename d a b end.
Definition dexec (d : dir) (t : list dop) : dir := fold_left dstep t d.

(* ---------------------------------------------------------------- ensure_single_file *)
Fixpoint str_bytes (s : string) : name :=
  match s with EmptyString => [] | String a r => N_of_ascii a :: str_bytes r end.

(* let forbidden = ["-wal", "-shm", "-lock", "-journal"];  let hidden_forbidden = [".wal", ".shm", ".lock", ".journal"];
   (two local arrays of ensure_single_file; tools/translate.py regenerates them into
   Gen/Consts.v on every run and Proofs/SingleFileProofs.v ties the two copies by reflexivity) *)
Definition dash_suffixes : list name := map str_bytes ["-wal"; "-shm"; "-lock"; "-journal"]%string.
Definition dot_suffixes : list name := map str_bytes [".wal"; ".shm"; ".lock"; ".journal"]%string.

(* path.file_name().and_then(|n| n.to_str()).unwrap_or_default(): a file name that is not
   valid UTF-8 becomes the EMPTY string.  utf8 = the result of to_str().is_some(). *)
Definition name_str (utf8 : bool) (n : name) : name := if utf8 then n else [].

(* the candidates in the order the two loops test them:
   parent.join(format!("{name}{suffix}")) then parent.join(format!(".{name}{suffix}")) *)
Definition candidates (utf8 : bool) (n : name) : list name :=
  map (fun s => name_str utf8 n ++ s) dash_suffixes ++
  map (fun s => 46 :: name_str utf8 n ++ s) dot_suffixes.

(* None = Ok(()); Some c = Err(AuxiliaryFileDetected { path: parent/c }).
   (path.parent() is Some for every path that has a file name; the `None` branch -- the root
   or the empty path -- cannot name a memory and is not modelled.) *)
Definition ensure_single_file (d : dir) (utf8 : bool) (n : name) : option name :=
  find (stat_ok d) (candidates utf8 n).

(* the eight names the property text lists, for a name n *)
Definition sidecar_names (n : name) : list name :=
  [n ++ str_bytes "-wal"; n ++ str_bytes "-shm"; n ++ str_bytes "-lock"; n ++ str_bytes "-journal";
   46 :: n ++ str_bytes ".wal"; 46 :: n ++ str_bytes ".shm"; 46 :: n ++ str_bytes ".lock"; 46 :: n ++ str_bytes ".journal"].

(* ---------------------------------------------------------------- the staged commit *)
(* staging name: RandomName = "." ++ NAME ++ "." ++ 6 random alphanumerics *)
Definition stg (p sfx : name) : name := 46 :: p ++ 46 :: sfx.

(* create_temporary_file: loop { openat(dir, random, O_CREAT|O_EXCL) ; EEXIST => continue }.
   sfxs = the successive random draws; the first one whose name is free is taken. *)
Definition pick_fresh (d : dir) (p : name) (sfxs : list name) : option name :=
  find (fun s => negb (has d (stg p s))) sfxs.

(* every way one execution of with_staging_lock can end *)
Inductive sexit :=
| XPrepareNoFile      (* CommitStaging::prepare failed before a staging file existed (Dir::open / openat) *)
| XPrepareLeak        (* TemporaryFile::open: copy_file_perms failed AFTER create_temporary_file: Err, nobody unlinks *)
| XCopyErr            (* copy_from / clone_file / EmbeddedWal::open failed: `?` drops staging, Drop -> _discard -> unlinkat *)
| XClosureErr         (* the closure returned Err: `let _ = staging.discard()` -> unlinkat *)
| XDiscardUnlinkErr   (* ... and that unlinkat failed (error ignored) *)
| XSyncErr            (* closure Ok, self.file.sync_all()? failed: drops staging -> unlinkat *)
| XCommitErr          (* AtomicWriteFile::_commit: finalized = true, then sync_all or renameat failed: Err; Drop sees finalized *)
| XCommitErrDirSync   (* renameat done, fsync(dir) failed: Err *)
| XReopenErr          (* committed; reopening the destination or its log failed *)
| XOk.

Definition leaks (x : sexit) : bool :=
  match x with XPrepareLeak | XCommitErr | XDiscardUnlinkErr => true | _ => false end.

(* directory operations of one execution that drew the free suffix s *)
Definition strace_of (p s : name) (x : sexit) : list dop :=
  match x with
  | XPrepareNoFile => []
  | XPrepareLeak | XCommitErr | XDiscardUnlinkErr => [DCreat (stg p s)]
  | XCopyErr | XClosureErr | XSyncErr => [DCreat (stg p s); DUnlink (stg p s)]
  | XCommitErrDirSync | XReopenErr | XOk => [DCreat (stg p s); DRename (stg p s) p]
  end.

(* the same executions in Model/FsProto.v's alphabet (contents level), plus the unlink *)
Inductive fsop19 := P (o : fsop) | UnlinkTmp.
Definition proto_of (x : sexit) (body : list fsop) : list fsop19 :=
  match x with
  | XPrepareNoFile => [P FsyncMem]
  | XPrepareLeak => [P FsyncMem; P OpenTmp]
  | XCopyErr => [P FsyncMem; P OpenTmp; P CopyToTmp; UnlinkTmp]
  | XClosureErr => map P ([FsyncMem; OpenTmp; CopyToTmp; FsyncTmp] ++ body) ++ [UnlinkTmp]
  | XDiscardUnlinkErr => map P ([FsyncMem; OpenTmp; CopyToTmp; FsyncTmp] ++ body)
  | XSyncErr => map P ([FsyncMem; OpenTmp; CopyToTmp; FsyncTmp] ++ body) ++ [UnlinkTmp]
  | XCommitErr => map P ([FsyncMem; OpenTmp; CopyToTmp; FsyncTmp] ++ body ++ [FsyncTmp])
  | XCommitErrDirSync => map P ([FsyncMem; OpenTmp; CopyToTmp; FsyncTmp] ++ body ++ [FsyncTmp; RenameTmp])
  | XReopenErr | XOk => map P ([FsyncMem; OpenTmp; CopyToTmp; FsyncTmp] ++ body ++ [FsyncTmp; RenameTmp; FsyncDir])
  end.
(* directory effect of the protocol alphabet *)
Definition dop_of (p s : name) (o : fsop19) : list dop :=
  match o with
  | P OpenTmp => [DCreat (stg p s)]
  | P RenameTmp => [DRename (stg p s) p]
  | UnlinkTmp => [DUnlink (stg p s)]
  | _ => []
  end.
Definition strip_P (t : list fsop19) : list fsop :=
  flat_map (fun o => match o with P o => [o] | UnlinkTmp => [] end) t.

(* ---------------------------------------------------------------- API calls *)
Record world := mkW {
  wdir : dir;
  whandles : list name;       (* memories with a live handle (create/open returned Ok, not yet dropped) *)
  wcreated : list name;       (* ghost: names the caller passed to create and that create made *)
  wleaked : list name;        (* ghost: staging names left by exits with leaks x = true *)
  wlocks : list name }.       (* lockfile guards alive: the lock names *)

Definition stage := (list name * sexit)%type.   (* random draws, exit *)

Inductive api :=
| ACreate (p : name) (utf8 creat_ok ok : bool)   (* Memvid::create: the O_CREAT|O_TRUNC open worked? everything after it? *)
| AOpen (p : name) (utf8 ok : bool) (st : list stage)   (* Memvid::open / open_read_only / verify; open_locked -> recover_wal
                                                    replays pending log records through with_staging_lock *)
| AClose (p : name) (st : list stage)            (* drop the handle: impl Drop for Memvid { if self.dirty { let _ = self.commit(); } } *)
| ACall (p : name) (st : list stage)             (* ANY method of a live handle: in-place work + the staged commits it runs *)
| ADoctor (p : name) (utf8 : bool) (st : list stage)   (* Memvid::doctor on a closed memory *)
| ALockfile (p : name) (ok : bool)               (* memvid_core::lockfile::acquire(path): create_new(path + ".lock") *)
| AUnlockfile (p : name).                        (* drop(LockfileGuard) *)

Inductive res := RRefused (c : name) | RDone (ok : bool) | RNoHandle.

Definition mem_name (l : list name) (n : name) : bool := existsb (name_eqb n) l.
Definition del_name (l : list name) (n : name) : list name := filter (fun m => negb (name_eqb m n)) l.

Definition run_stage (p : name) (acc : dir * list name * list dop) (st : stage) : dir * list name * list dop :=
  let '(d, lk, tr) := acc in
  match pick_fresh d p (fst st) with
  | None => acc                                   (* every draw collided: the loop is still drawing; nothing happened *)
  | Some s => let t := strace_of p s (snd st) in
              (dexec d t, (if leaks (snd st) then lk ++ [stg p s] else lk), tr ++ t)
  end.
Definition run_stages (p : name) (d : dir) (lk : list name) (sts : list stage) : dir * list name * list dop :=
  fold_left (run_stage p) sts (d, lk, []).

(* lockfile_path: set_extension(format!("{ext}.lock")) = NAME ++ ".lock" for a name with a non-empty extension *)
Definition lock_name (p : name) : name := p ++ str_bytes ".lock".

(* one API call: new world, result, directory operations issued *)
Definition step (w : world) (a : api) : world * res * list dop :=
  match a with
  | ACreate p utf8 creat_ok ok =>
      match ensure_single_file (wdir w) utf8 p with
      | Some c => (w, RRefused c, [])
      | None =>
          if creat_ok then
            let d' := d_creat (wdir w) p in
            (mkW d' (if ok then p :: whandles w else whandles w) (p :: wcreated w) (wleaked w) (wlocks w),
             RDone ok, if has (wdir w) p then [] else [DCreat p])
          else (w, RDone false, [])
      end
  | AOpen p utf8 ok sts =>
      match ensure_single_file (wdir w) utf8 p with
      | Some c => (w, RRefused c, [])
      | None =>
          if has (wdir w) p then                   (* OpenOptions without create: a missing file stays missing *)
            let '(d', lk', tr) := run_stages p (wdir w) (wleaked w) sts in
            (mkW d' (if ok then p :: whandles w else whandles w) (wcreated w) lk' (wlocks w), RDone ok, tr)
          else (w, RDone false, [])
      end
  | AClose p sts =>
      if mem_name (whandles w) p then
        let '(d', lk', tr) := run_stages p (wdir w) (wleaked w) sts in
        (mkW d' (del_name (whandles w) p) (wcreated w) lk' (wlocks w), RDone true, tr)
      else (w, RNoHandle, [])
  | ACall p sts =>
      if mem_name (whandles w) p then
        let '(d', lk', tr) := run_stages p (wdir w) (wleaked w) sts in
        (mkW d' (whandles w) (wcreated w) lk' (wlocks w), RDone true, tr)
      else (w, RNoHandle, [])
  | ADoctor p utf8 sts =>
      match ensure_single_file (wdir w) utf8 p with
      | Some c => (w, RRefused c, [])
      | None =>
          if has (wdir w) p then
            let '(d', lk', tr) := run_stages p (wdir w) (wleaked w) sts in
            (mkW d' (whandles w) (wcreated w) lk' (wlocks w), RDone true, tr)
          else (w, RDone false, [])
      end
  | ALockfile p ok =>
      if has (wdir w) (lock_name p) then (w, RDone false, [])      (* AlreadyExists until the timeout *)
      else if ok then (mkW (wdir w ++ [(lock_name p, KFile)]) (whandles w) (wcreated w) (wleaked w) (lock_name p :: wlocks w),
                       RDone true, [DCreat (lock_name p)])
      else (w, RDone false, [DCreat (lock_name p); DUnlink (lock_name p)])   (* registry::write_record failed: remove_file *)
  | AUnlockfile p =>
      if mem_name (wlocks w) (lock_name p)
      then (mkW (d_unlink (wdir w) (lock_name p)) (whandles w) (wcreated w) (wleaked w) (del_name (wlocks w) (lock_name p)),
            RDone true, [DUnlink (lock_name p)])
      else (w, RNoHandle, [])
  end.

Definition step_w (w : world) (a : api) : world := fst (fst (step w a)).
Definition run (w : world) (h : list api) : world := fold_left step_w h w.

(* the world before the caller did anything: some directory content, no handle *)
Definition world0 (d : dir) : world := mkW d [] [] [] [].

(* ---------------------------------------------------------------- the known classes *)
Definition stage_leaks (st : stage) : bool := leaks (snd st).
(* an OS error hit one of the three places after which nobody unlinks the staging file *)
Definition io_leak_op (a : api) : bool :=
  match a with ACall _ sts | ADoctor _ _ sts | AOpen _ _ _ sts | AClose _ sts => existsb stage_leaks sts | _ => false end.
(* the separate advisory-lock API was used *)
Definition lockfile_op (a : api) : bool :=
  match a with ALockfile _ _ | AUnlockfile _ => true | _ => false end.
Definition known_class (h : list api) : bool := existsb io_leak_op h || existsb lockfile_op h.

(* the property, as a boolean on a run: the directory's names are the initial ones plus the targets *)
Definition names_ok (d0 : dir) (w : world) : bool :=
  forallb (fun n => mem_name (names d0) n || mem_name (wcreated w) n) (names (wdir w)) &&
  forallb (mem_name (names (wdir w))) (names d0 ++ wcreated w).
