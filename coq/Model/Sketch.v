(* Model of src/types/sketch_track.rs: term filter (build_term_filter,
   term_filter_maybe_contains), compute_token_weights, compute_simhash,
   extract_top_terms, generate_sketch, SketchEntry::{to,from}_{small,medium}_bytes,
   SketchTrackHeader, SketchTrack::insert, write_sketch_track, read_sketch_track.
   Debug-profile arithmetic (overflow = panic).  Oracles (Section variables): the
   tokenizer (NFKC, lower-casing, is_alphanumeric), hash_token (BLAKE3) and the f32
   weight formula. *)
From MV Require Import Base.Prelude.
Local Open Scope N_scope.

(* ---------------------------------------------------------------- constants *)
Definition TERM_FILTER_SIZE_SMALL : nat := 16.
Definition TERM_FILTER_SIZE_MEDIUM : nat := 32.
Definition TERM_FILTER_SIZE_LARGE : nat := 64.
Definition TOP_TERMS_COUNT_SMALL : nat := 2.
Definition TOP_TERMS_COUNT_MEDIUM : nat := 4.
Definition TOP_TERMS_COUNT_LARGE : nat := 6.
Definition ENTRY_SIZE_SMALL : nat := 32.
Definition ENTRY_SIZE_MEDIUM : nat := 64.
Definition ENTRY_SIZE_LARGE : nat := 96.
Definition SKETCH_TRACK_MAGIC : bytes := [77; 86; 83; 75].   (* "MVSK" *)
Definition SKETCH_TRACK_VERSION : N := 1.
Definition SKETCH_HEADER_SIZE : nat := 24.

Inductive variant := Small | Medium | Large.
Definition entry_size (v : variant) : nat :=
  match v with Small => ENTRY_SIZE_SMALL | Medium => ENTRY_SIZE_MEDIUM | Large => ENTRY_SIZE_LARGE end.
Definition term_filter_size (v : variant) : nat :=
  match v with Small => TERM_FILTER_SIZE_SMALL | Medium => TERM_FILTER_SIZE_MEDIUM | Large => TERM_FILTER_SIZE_LARGE end.
Definition top_terms_count (v : variant) : nat :=
  match v with Small => TOP_TERMS_COUNT_SMALL | Medium => TOP_TERMS_COUNT_MEDIUM | Large => TOP_TERMS_COUNT_LARGE end.

(* SketchFlags *)
Definition FLAG_HAS_SIMHASH : N := 1.
Definition FLAG_HAS_TERM_FILTER : N := 2.
Definition FLAG_HAS_TOP_TERMS : N := 4.
Definition FLAG_SHORT_TEXT : N := 16.
Definition FLAGS_ALL : N := N.lor (N.lor FLAG_HAS_SIMHASH FLAG_HAS_TERM_FILTER) FLAG_HAS_TOP_TERMS.

(* panic sites / error kinds *)
Definition PANIC_REM_ZERO : N := 1.      (* `hash % 0` *)
Definition PANIC_SUM_OVERFLOW : N := 2.  (* u32 `.sum()` of the top weights *)
Definition PANIC_MUL_OVERFLOW : N := 3.  (* entry_count * entry_size, 24 + ... in u64 *)
Definition ERR_IO : N := 1.              (* read_exact hit the end of the data *)
Definition ERR_MAGIC : N := 2.
Definition ERR_ENTRY_SIZE : N := 3.
Definition ERR_LENGTH : N := 4.
Definition ERR_COUNT_OVERFLOW : N := 8.   (* InvalidSketchTrack "entry count overflows" *)

(* ---------------------------------------------------------------- term filter *)
(* l[i] := f l[i]  (unchanged when i is out of range; never the case below) *)
Fixpoint upd {A} (l : list A) (i : nat) (f : A -> A) : list A :=
  match l, i with
  | [], _ => []
  | x :: r, O => f x :: r
  | x :: r, S i' => x :: upd r i' f
  end.

Definition bit_mask (i : N) : N := N.shiftl 1 (i mod 8).                   (* 1 << (h % 8) *)
(* filter[h / 8] |= 1 << (h % 8) *)
Definition set_bit (flt : bytes) (i : N) : bytes :=
  upd flt (N.to_nat (i / 8)) (fun b => N.lor b (bit_mask i)).
(* filter[h / 8] & (1 << (h % 8)) != 0 *)
Definition test_bit (flt : bytes) (i : N) : bool :=
  negb (N.land (nth (N.to_nat (i / 8)) flt 0) (bit_mask i) =? 0).

Definition probe1 (h m : N) : N := h mod m.
Definition probe2 (h m : N) : N := N.shiftr h 16 mod m.
Definition probe3 (h m : N) : N := N.shiftr h 32 mod m.

Definition add_hash (m : N) (flt : bytes) (h : N) : bytes :=
  set_bit (set_bit (set_bit flt (probe1 h m)) (probe2 h m)) (probe3 h m).

(* `for &hash in token_hashes { ... hash % filter_bits ... }`: with an empty list the
   loop body (and its division) never runs. *)
Definition build_term_filter (hs : list N) (size : nat) : outcome bytes :=
  let flt := repeat 0 size in
  let m := N.of_nat size * 8 in
  match hs with
  | [] => Ok flt
  | _ :: _ => if m =? 0 then Panic PANIC_REM_ZERO else Ok (fold_left (add_hash m) hs flt)
  end.

Definition term_filter_maybe_contains (flt : bytes) (h : N) : outcome bool :=
  let m := N.of_nat (length flt) * 8 in
  if m =? 0 then Panic PANIC_REM_ZERO
  else Ok (test_bit flt (probe1 h m) && test_bit flt (probe2 h m) && test_bit flt (probe3 h m)).

(* ---------------------------------------------------------------- simhash, top terms *)
Fixpoint nseq (start : N) (len : nat) : list N :=
  match len with O => [] | S n => start :: nseq (start + 1) n end.

Definition simhash_acc (tokens : list (N * Z)) (i : N) : Z :=
  fold_left (fun acc t => if N.testbit (fst t) i then (acc + snd t)%Z else (acc - snd t)%Z) tokens 0%Z.

Definition compute_simhash (tokens : list (N * Z)) : N :=
  match tokens with
  | [] => 0
  | _ :: _ => fold_left (fun s i => if (0 <? simhash_acc tokens i)%Z then N.lor s (N.shiftl 1 i) else s)
                        (nseq 0 64) 0
  end.

Definition fold32 (h : N) : N := N.lxor h (N.shiftr h 32) mod 2 ^ 32.      (* (h ^ (h >> 32)) as u32 *)

Definition extract_top_terms (weighted : list (N * Z)) (k : nat) : list N :=
  map (fun t => fold32 (fst t)) (firstn k weighted).

(* sort_by(|a, b| b.1.cmp(&a.1).then_with(|| a.0.cmp(&b.0))): weight descending, then
   hash ascending.  Two elements that compare Equal are the same pair, so the sorted
   list does not depend on the HashMap's iteration order nor on the algorithm. *)
Definition wle (a b : N * Z) : bool :=
  (snd b <? snd a)%Z || ((snd a =? snd b)%Z && (fst a <=? fst b)).
Fixpoint wins (x : N * Z) (l : list (N * Z)) : list (N * Z) :=
  match l with
  | [] => [x]
  | y :: r => if wle x y then x :: l else y :: wins x r
  end.
Definition wsort (l : list (N * Z)) : list (N * Z) := fold_right wins [] l.

(* ---------------------------------------------------------------- tokenizer *)
(* tokenize_for_sketch after its two oracles (NFKC, to_lowercase) have produced the list of
   code points: `.split(|c| !c.is_alphanumeric()).filter(|s| s.len() >= 2)`, where
   `s.len()` is the UTF-8 BYTE length -- a single two-byte letter is a token, a single
   ASCII letter is not.  is_alphanumeric is an oracle. *)
Definition utf8_len (c : N) : N :=
  if c <? 128 then 1 else if c <? 2048 then 2 else if c <? 65536 then 3 else 4.
Definition str_len (s : list N) : N := fold_right (fun c a => utf8_len c + a) 0 s.

Section Tokenizer.
  Variable is_alnum : N -> bool.
  (* the pieces between separators, empty pieces included; cur = current piece, reversed *)
  Fixpoint split_alnum (cs cur : list N) : list (list N) :=
    match cs with
    | [] => [rev cur]
    | c :: r => if is_alnum c then split_alnum r (c :: cur) else rev cur :: split_alnum r []
    end.
  Definition tokenize_norm (cs : list N) : list (list N) :=
    filter (fun s => 2 <=? str_len s) (split_alnum cs []).
End Tokenizer.

(* ---------------------------------------------------------------- sketch entry *)
Record entry := mkEntry {
  e_frame_id : N; e_simhash : N; e_filter : bytes; e_top : list N;
  e_wsum : N; e_flags : N; e_len : N }.

Section Sketch.
  Variable token : Type.
  Variable token_eqb : token -> token -> bool.
  Variable hash_token : token -> N.
  (* `(capped_tf * idf * 100.0) as i32` for a token seen `count` times *)
  Variable raw_weight : token -> N -> Z.

  Fixpoint count_tok (t : token) (l : list token) : N :=
    match l with
    | [] => 0
    | x :: r => (if token_eqb t x then 1 else 0) + count_tok t r
    end.

  (* keys of the `tf` map: the distinct tokens *)
  Fixpoint dedup (l : list token) : list token :=
    match l with
    | [] => []
    | x :: r => x :: filter (fun y => negb (token_eqb x y)) (dedup r)
    end.

  Definition compute_token_weights (tokens : list token) : list (N * Z) :=
    wsort (map (fun t => (hash_token t, Z.max (raw_weight t (count_tok t tokens)) 1)) (dedup tokens)).

  Definition generate_sketch (fid : N) (tokens : list token) (v : variant) : outcome entry :=
    let token_count := N.of_nat (length tokens) in
    match tokens with
    | [] =>   (* SketchEntry::new + SHORT_TEXT *)
        Ok (mkEntry fid 0 (repeat 0 (term_filter_size v)) (repeat 0 (top_terms_count v)) 0 FLAG_SHORT_TEXT 0)
    | _ :: _ =>
        let weighted := compute_token_weights tokens in
        let simhash := compute_simhash weighted in
        match build_term_filter (map fst weighted) (term_filter_size v) with
        | Ok flt =>
            let top := extract_top_terms weighted (top_terms_count v) in
            (* `.map(|(_, w)| *w as u32).sum()`, every w >= 1 *)
            let wsum := fold_left (fun a t => a + Z.to_N (snd t)) (firstn (top_terms_count v) weighted) 0 in
            if 2 ^ 32 <=? wsum then Panic PANIC_SUM_OVERFLOW
            else Ok (mkEntry fid simhash flt top (N.min wsum 65535)
                             (if token_count <? 50 then N.lor FLAGS_ALL FLAG_SHORT_TEXT else FLAGS_ALL)
                             (N.min (token_count / 10) 255))
        | Err k => Err k
        | Panic s => Panic s
        end
    end.
End Sketch.

(* the weight formula when idf_map = None: idf = 1.0, so (min count 3) * 100 exactly *)
Definition raw_weight_no_idf {token : Type} (_ : token) (count : N) : Z := Z.of_N (N.min count 3 * 100).

(* idf_map = Some m, for idf values on which the f32 arithmetic is exact (dyadic
   rationals num/den with a short mantissa, or so large that the cast saturates):
   `.max(0.1)`, `(capped_tf * idf * 100.0) as i32` (truncating, saturating cast). *)
Definition raw_weight_idf {token : Type} (idf : token -> N * N) (t : token) (count : N) : Z :=
  let '(num, den) := idf t in
  let '(num, den) := if num * 10 <? den then (1, 10) else (num, den) in
  Z.of_N (N.min (N.min count 3 * num * 100 / den) (2 ^ 31 - 1)).

(* ---------------------------------------------------------------- entry codecs *)
Definition pad {A} (d : A) (n : nat) (l : list A) : list A := firstn n (l ++ repeat d n).

Definition enc_u32s (l : list N) : bytes := flat_map (le_encode 4) l.

Definition small_filter (f : bytes) : bytes :=
  if Nat.leb TERM_FILTER_SIZE_SMALL (length f) then firstn TERM_FILTER_SIZE_SMALL f
  else repeat 0 TERM_FILTER_SIZE_SMALL.                (* a shorter filter is not copied at all *)

Definition medium_filter (f : bytes) : bytes :=
  if Nat.leb TERM_FILTER_SIZE_MEDIUM (length f) then firstn TERM_FILTER_SIZE_MEDIUM f
  else f ++ repeat 0 (TERM_FILTER_SIZE_MEDIUM - length f).

Definition to_small_bytes (e : entry) : bytes :=
  le_encode 8 (e_simhash e) ++ small_filter (e_filter e) ++ enc_u32s (pad 0 TOP_TERMS_COUNT_SMALL (e_top e)).

Definition to_medium_bytes (e : entry) : bytes :=
  le_encode 8 (e_simhash e) ++ medium_filter (e_filter e) ++ enc_u32s (pad 0 TOP_TERMS_COUNT_MEDIUM (e_top e))
  ++ le_encode 2 (e_wsum e) ++ le_encode 2 (e_flags e) ++ le_encode 2 (e_len e) ++ le_encode 2 0.

Definition u32_at (buf : bytes) (off : nat) : N := le_decode (slice buf off 4).
Definition u16_at (buf : bytes) (off : nat) : N := le_decode (slice buf off 2).
Definition u64_at (buf : bytes) (off : nat) : N := le_decode (slice buf off 8).

Definition from_small_bytes (fid : N) (buf : bytes) : entry :=
  mkEntry fid (u64_at buf 0) (slice buf 8 16) [u32_at buf 24; u32_at buf 28] 0 FLAGS_ALL 0.

Definition from_medium_bytes (fid : N) (buf : bytes) : entry :=
  mkEntry fid (u64_at buf 0) (slice buf 8 32) [u32_at buf 40; u32_at buf 44; u32_at buf 48; u32_at buf 52]
          (u16_at buf 56) (u16_at buf 58) (u16_at buf 60).

(* ---------------------------------------------------------------- track *)
(* entries: HashMap<FrameId, SketchEntry> + frame_order: Vec<FrameId>, observed through
   iter(): the entries in first-insertion order, one per frame id. *)
Record track := mkTrack { t_variant : variant; t_entries : list entry }.

Definition track_new (v : variant) : track := mkTrack v [].

Fixpoint insert_entry (l : list entry) (e : entry) : list entry :=
  match l with
  | [] => [e]
  | x :: r => if e_frame_id x =? e_frame_id e then e :: r else x :: insert_entry r e
  end.

Definition track_insert (t : track) (e : entry) : track :=
  mkTrack (t_variant t) (insert_entry (t_entries t) e).

Definition header_bytes (v : variant) (count : N) : bytes :=
  SKETCH_TRACK_MAGIC ++ le_encode 2 SKETCH_TRACK_VERSION ++ le_encode 2 (N.of_nat (entry_size v))
  ++ le_encode 8 count ++ le_encode 4 0 ++ le_encode 4 0.

Definition entry_bytes (v : variant) (e : entry) : bytes :=
  match v with
  | Small => to_small_bytes e
  | Medium => to_medium_bytes e
  | Large => to_medium_bytes e ++ repeat 0 (ENTRY_SIZE_LARGE - ENTRY_SIZE_MEDIUM)
  end.

(* the bytes write_sketch_track writes at the writer's position; it returns
   (that position, their length, BLAKE3 of them) *)
Definition write_sketch_track (t : track) : bytes :=
  header_bytes (t_variant t) (N.of_nat (length (t_entries t)))
  ++ flat_map (entry_bytes (t_variant t)) (t_entries t).

Definition variant_of_size (s : N) : option variant :=
  if s =? 32 then Some Small else if s =? 64 then Some Medium else if s =? 96 then Some Large else None.

Definition parse_entry (v : variant) (fid : N) (buf : bytes) : entry :=
  match v with
  | Small => from_small_bytes fid buf
  | Medium | Large => from_medium_bytes fid (firstn ENTRY_SIZE_MEDIUM buf)
  end.

(* `for frame_id in 0..entry_count { read_exact; track.insert(entry) }` *)
Fixpoint read_entries (v : variant) (n : nat) (i : N) (rest : bytes) (acc : list entry) : outcome (list entry) :=
  match n with
  | O => Ok acc
  | S n' =>
      if Nat.ltb (length rest) (entry_size v) then Err ERR_IO
      else read_entries v n' (i + 1) (skipn (entry_size v) rest)
                        (insert_entry acc (parse_entry v i (firstn (entry_size v) rest)))
  end.

Definition read_sketch_track (file : bytes) (offset len : N) : outcome track :=
  if N.of_nat (length file) <? offset then Err ERR_IO else      (* seek past the end, then read_exact fails *)
  let r := skipn (N.to_nat offset) file in
  if Nat.ltb (length r) SKETCH_HEADER_SIZE then Err ERR_IO else
  let hb := firstn SKETCH_HEADER_SIZE r in
  if negb (bytes_eqb (slice hb 0 4) SKETCH_TRACK_MAGIC) then Err ERR_MAGIC else
  let esz := u16_at hb 6 in
  let count := u64_at hb 8 in
  match variant_of_size esz with
  | None => Err ERR_ENTRY_SIZE
  | Some v =>
      let prod := count * esz in
      (* checked_mul / checked_add since bc37f0b: "entry count overflows" (was a debug-profile panic) *)
      if 2 ^ 64 <=? prod then Err ERR_COUNT_OVERFLOW else
      if 2 ^ 64 <=? N.of_nat SKETCH_HEADER_SIZE + prod then Err ERR_COUNT_OVERFLOW else
      if len <? N.of_nat SKETCH_HEADER_SIZE + prod then Err ERR_LENGTH else
      let rest := skipn SKETCH_HEADER_SIZE r in
      (* more entries announced than the data holds: the loop ends in read_exact's EOF *)
      if N.of_nat (length rest) / N.of_nat (entry_size v) <? count then Err ERR_IO else
      match read_entries v (N.to_nat count) 0 rest [] with
      | Ok es => Ok (mkTrack v es)
      | Err k => Err k
      | Panic s => Panic s
      end
  end.

(* ---------------------------------------------------------------- what comes back *)
(* the entry that reading returns for the entry written at position i *)
Definition norm_entry (v : variant) (i : N) (e : entry) : entry :=
  match v with
  | Small => mkEntry i (e_simhash e) (small_filter (e_filter e)) (pad 0 TOP_TERMS_COUNT_SMALL (e_top e)) 0 FLAGS_ALL 0
  | Medium | Large =>
      mkEntry i (e_simhash e) (medium_filter (e_filter e)) (pad 0 TOP_TERMS_COUNT_MEDIUM (e_top e))
              (e_wsum e) (e_flags e) (e_len e)
  end.
Fixpoint norm_from (v : variant) (i : N) (l : list entry) : list entry :=
  match l with [] => [] | e :: r => norm_entry v i e :: norm_from v (i + 1) r end.
Definition readback (t : track) : track := mkTrack (t_variant t) (norm_from (t_variant t) 0 (t_entries t)).

(* ---------------------------------------------------------------- known finding classes *)
(* (a) the format stores no frame ids: anything but 0,1,2,... in insertion order is lost *)
Definition known_ids (t : track) : bool :=
  negb (list_eqb N.eqb (map e_frame_id (t_entries t)) (nseq 0 (length (t_entries t)))).
(* (b) an entry whose filter / top-term vectors do not have the on-disk shape of the
       variant (Large is stored as Medium: 32-byte filter, 4 top terms) *)
Definition disk_filter_size (v : variant) : nat := match v with Small => 16 | _ => 32 end.
Definition disk_top_count (v : variant) : nat := match v with Small => 2 | _ => 4 end.
Definition shape_ok (v : variant) (e : entry) : bool :=
  Nat.eqb (length (e_filter e)) (disk_filter_size v) && Nat.eqb (length (e_top e)) (disk_top_count v).
Definition known_shape (t : track) : bool := negb (forallb (shape_ok (t_variant t)) (t_entries t)).
(* (c) the Small layout has no room for weight sum, flags, length hint *)
Definition small_fields_ok (v : variant) (e : entry) : bool :=
  match v with
  | Small => (e_wsum e =? 0) && (e_flags e =? FLAGS_ALL) && (e_len e =? 0)
  | _ => true
  end.
Definition known_small_fields (t : track) : bool := negb (forallb (small_fields_ok (t_variant t)) (t_entries t)).

Definition known_class (t : track) : bool := known_ids t || known_shape t || known_small_fields t.

(* ---------------------------------------------------------------- Rust type ranges *)
Definition entry_wf (e : entry) : bool :=
  (e_frame_id e <? 2 ^ 64) && (e_simhash e <? 2 ^ 64) && bytes_ok (e_filter e)
  && forallb (fun x => x <? 2 ^ 32) (e_top e)
  && (e_wsum e <? 2 ^ 16) && (e_flags e <? 2 ^ 16) && (e_len e <? 2 ^ 16).
(* every field fits its Rust type and 24 + count * 96 does not overflow u64 *)
Definition track_wf (t : track) : bool :=
  forallb entry_wf (t_entries t) && (24 + N.of_nat (length (t_entries t)) * 96 <? 2 ^ 64).
