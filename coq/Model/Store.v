(* M-Store: the Memvid write path at the level of the frame table.
   Follows src/memvid/mutation.rs: put_internal / update_frame / delete_frame append
   records to the log (M-Wal, here at its specification level: the pending list, justified
   by Properties/C05); commit_from_records / recover_wal apply the pending records to the
   frame table (apply_records); the auto-checkpoint at the end of a put, log growth and
   the lex-batch records a commit appends are oracle inputs carried by the ops (observed on
   the implementation), so theorems quantify over every possible timing of them. *)
From MV Require Import Base.Prelude.
Local Open Scope N_scope.

Inductive uri := UDefault (id : N) | UExp (k : N) | UChunk (k i : N).
Definition uri_eqb (a b : uri) : bool :=
  match a, b with
  | UDefault x, UDefault y => x =? y
  | UExp x, UExp y => x =? y
  | UChunk x i, UChunk y j => (x =? y) && (i =? j)
  | _, _ => false
  end.

(* status: 0 Active, 1 Superseded, 2 Deleted ; role: 0 Document, 1 DocumentChunk, 2 ExtractedImage *)
Record frame := mkFrame {
  f_id : N; f_uri : uri; f_tag : N; f_role : N; f_status : N;
  f_supersedes : option N; f_superseded_by : option N; f_parent : option N; f_manifest : bool }.

Inductive entry :=
| EInsert (u : option uri) (tag : N) (role : N) (manifest : bool)
          (supersedes : option N) (reuse : option N) (parent_seq : option N)
| ETomb (target : N)
| ELex.

Definition set_status (f : frame) (st : N) (by_ : option N) : frame :=
  mkFrame (f_id f) (f_uri f) (f_tag f) (f_role f) st (f_supersedes f) by_ (f_parent f) (f_manifest f).
Definition set_parent (f : frame) (p : option N) : frame :=
  mkFrame (f_id f) (f_uri f) (f_tag f) (f_role f) (f_status f) (f_supersedes f) (f_superseded_by f) p (f_manifest f).

Fixpoint update_nth {A} (n : nat) (g : A -> A) (l : list A) : list A :=
  match l, n with
  | [], _ => []
  | x :: r, O => g x :: r
  | x :: r, S n' => x :: update_nth n' g r
  end.

Definition get (frames : list frame) (i : N) : option frame := nth_error frames (N.to_nat i).
Definition len (frames : list frame) : N := N.of_nat (length frames).

Fixpoint assoc (m : list (N * N)) (k : N) : option N :=
  match m with
  | [] => None
  | (a, b) :: r => if a =? k then Some b else assoc r k
  end.

(* most recent frame inserted in this batch that is a Document with a chunk manifest *)
Fixpoint batch_fallback (frames : list frame) (inserted_rev : list N) : option N :=
  match inserted_rev with
  | [] => None
  | c :: r => match get frames c with
              | Some f => if (f_role f =? 0) && f_manifest f then Some c else batch_fallback frames r
              | None => batch_fallback frames r
              end
  end.

(* state of one apply_records call: frame table, sequence->frame map, ids inserted (newest first) *)
Definition astate := (list frame * list (N * N) * list N)%type.

Definition apply_entry (st : astate) (se : N * entry) : astate :=
  let '(frames, smap, ins) := st in
  let '(seq, e) := se in
  match e with
  | ELex => st
  | ETomb t => (update_nth (N.to_nat t) (fun f => set_status f 2 None) frames, smap, ins)
  | EInsert u tag role manifest supersedes reuse parent_seq =>
      let id := len frames in
      let tag' := match reuse with
                  | Some src => match get frames src with Some s => f_tag s | None => tag end
                  | None => tag
                  end in
      let parent :=
        match parent_seq with
        | None => None
        | Some ps => match assoc smap ps with
                     | Some p => Some p
                     | None => if role =? 1 then batch_fallback frames ins else None
                     end
        end in
      let u' := match u with Some x => x | None => UDefault id end in
      let f := mkFrame id u' tag' role 0 supersedes None parent manifest in
      let frames1 := match supersedes with
                     | Some p => update_nth (N.to_nat p) (fun g => set_status g 1 (Some id)) frames
                     | None => frames
                     end in
      (frames1 ++ [f], (seq, id) :: smap, id :: ins)
  end.

(* second pass: an inserted chunk still without parent gets the most recent ACTIVE Document
   with a manifest before it *)
Fixpoint orphan_parent (frames : list frame) (fuel : nat) (c : N) : option N :=
  match fuel with
  | O => None
  | S k => if c =? 0 then None
           else let cand := c - 1 in
                match get frames cand with
                | Some f => if (f_role f =? 0) && f_manifest f && (f_status f =? 0) then Some cand
                            else orphan_parent frames k cand
                | None => orphan_parent frames k cand
                end
  end.

Definition resolve_orphans (frames0 : list frame) (inserted : list N) : list frame :=
  (* resolutions are computed against the table as it is after the first pass, then applied *)
  fold_left (fun fr id =>
               match get frames0 id with
               | Some f => if (f_role f =? 1) && (match f_parent f with None => true | Some _ => false end)
                           then match orphan_parent frames0 (N.to_nat id) id with
                                | Some p => update_nth (N.to_nat id) (fun g => set_parent g (Some p)) fr
                                | None => fr
                                end
                           else fr
               | None => fr
               end) inserted frames0.

Definition apply_records (frames : list frame) (recs : list (N * entry)) : list frame :=
  let '(fr, _, ins) := fold_left apply_entry recs (frames, [], []) in
  resolve_orphans fr (rev ins).

Definition is_insert (e : entry) : bool := match e with EInsert _ _ _ _ _ _ _ => true | _ => false end.

Record store := mkStore {
  committed : list frame; pending : list (N * entry); seqno : N; pending_inserts : N; dirty : bool }.

Definition view (s : store) : list frame := apply_records (committed s) (pending s).

Definition next_frame_id (s : store) : N := len (committed s) + pending_inserts s.

(* commit: apply pending, append `extra` lex-batch records to the log (they are skipped by apply) *)
Fixpoint lex_recs (from n : nat) : list (N * entry) :=
  match n with O => [] | S k => (N.of_nat from, ELex) :: lex_recs (S from) k end.

Definition do_commit (s : store) (extra : N) : store :=
  mkStore (view s) [] (seqno s + extra) 0 false.

Definition append (s : store) (e : entry) : store * N :=
  let sq := seqno s + 1 in
  (mkStore (committed s) (pending s ++ [(sq, e)]) sq
           (if is_insert e then pending_inserts s + 1 else pending_inserts s) true, sq).

Fixpoint append_chunks (s : store) (parent_seq : N) (uk : option N) (tag0 : N) (i n : nat) : store :=
  match n with
  | O => s
  | S k =>
      let u := match uk with Some x => Some (UChunk x (N.of_nat i + 1)) | None => None end in
      let '(s', _) := append s (EInsert u (tag0 + N.of_nat i + 1) 1 false None None (Some parent_seq)) in
      append_chunks s' parent_seq uk tag0 (S i) k
  end.

Inductive sop :=
| OPut (uk : option N) (tag : N) (nchunks : N) (role : N) (auto : option N)
| OUpdate (target : N) (newtag : option N) (uk : option N) (auto : option N)
| ODelete (target : N) (auto : option N)
| OCommit (extra : N)
| OReopen (extra : N)
| OCrash (extra : N)
| ODoctor (newseq : N).   (* close, doctor, reopen: table unchanged; doctor may reset the log sequence *)

(* per-op output: result (Ok seq / Err), frame_count, next_frame_id *)
Definition sout := (outcome N * N * N)%type.

Definition bump (s : store) (extra : N) : store :=
  mkStore (committed s) (pending s) (seqno s + extra) (pending_inserts s) (dirty s).

Definition auto_commit (s : store) (auto : option N) : store :=
  match auto with Some extra => do_commit s extra | None => s end.

Definition observe (s : store) (r : outcome N) : sout := (r, len (committed s), next_frame_id s).

Definition sstep (s : store) (op : sop) : store * sout :=
  match op with
  | OPut uk tag nchunks role auto =>
      let u := match uk with Some k => Some (UExp k) | None => None end in
      let '(s1, sq) := append s (EInsert u tag role (0 <? nchunks) None None None) in
      let s2 := append_chunks s1 sq uk tag 0 (N.to_nat nchunks) in
      let s3 := auto_commit s2 auto in
      (s3, observe s3 (Ok sq))
  | OUpdate target newtag uk auto =>
      match get (committed s) target with
      | None => (s, observe s (Err 1))
      | Some old =>
          if negb (f_status old =? 0) then (s, observe s (Err 2))
          else
            let u := match uk with Some k => UExp k | None => f_uri old end in
            let e := match newtag with
                     | Some t => EInsert (Some u) t (f_role old) false (Some target) None None
                     | None => EInsert (Some u) (f_tag old) (f_role old) false (Some target) (Some target) None
                     end in
            let '(s1, sq) := append s e in
            let s2 := auto_commit s1 auto in
            (s2, observe s2 (Ok sq))
      end
  | ODelete target auto =>
      match get (committed s) target with
      | None => (s, observe s (Err 1))
      | Some old =>
          if negb (f_status old =? 0) then (s, observe s (Err 2))
          else let '(s1, sq) := append s (ETomb target) in
               let s2 := auto_commit s1 auto in
               (s2, observe s2 (Ok sq))
      end
  | OCommit extra =>
      let s1 := match pending s, dirty s with
                | [], false => bump s extra
                | _, _ => do_commit s extra
                end in
      (s1, observe s1 (Ok 0))
  | OReopen extra =>
      (* Drop commits when dirty; open replays whatever is still pending (nothing) *)
      let s1 := if dirty s then do_commit s extra else bump s extra in
      let s2 := match pending s1 with [] => s1 | _ => do_commit s1 0 end in
      (s2, observe s2 (Ok 0))
  | ODoctor newseq =>
      let s1 := if dirty s then do_commit s 0 else s in
      let s2 := match pending s1 with [] => s1 | _ => do_commit s1 0 end in
      let s3 := mkStore (committed s2) (pending s2) newseq (pending_inserts s2) (dirty s2) in
      (s3, observe s3 (Ok 0))
  | OCrash extra =>
      (* no commit on drop; open -> recover_wal applies the pending records *)
      let s1 := match pending s with [] => mkStore (committed s) [] (seqno s + extra) 0 false | _ => do_commit s extra end in
      (s1, observe s1 (Ok 0))
  end.

Fixpoint srun (s : store) (ops : list sop) : store * list sout :=
  match ops with
  | [] => (s, [])
  | op :: r => let '(s1, o) := sstep s op in
               let '(s2, os) := srun s1 r in (s2, o :: os)
  end.

Definition store0 : store := mkStore [] [] 0 0 false.
