(* Model of src/structure/chunker.rs : StructuralChunker::chunk with the options that
   plan_structural_chunks uses (max_chars = 1200, SplitWithHeader, code PreserveWhole,
   preserve_lists, include_section_headers), over the OUTPUT of detect_structure.
   Strings are lists of code points ('\n' = 10): push_str = ++, chars().count() = length.
   The detector (regex heuristics) and the format() renderers are oracles: an element
   arrives with its rendered strings.  Char offsets of chunks are not modelled (the
   property says nothing about the ranges of a structured plan).  BlockQuote and Raw
   elements are never produced by detect_structure and are left out.  Definitions only. *)
From MV Require Import Base.Prelude Model.Chunks.

Definition str := list N.

Inductive elem :=
| ETable (raw header : str) (rows : list (str * nat))
    (* table.raw_text ; table.format_header() ; per data row: table.format_row(row) and
       the size estimate  sum(cell chars) + 3 * cells  of calculate_rows_per_chunk *)
| ECode (formatted : str)       (* block.format() *)
| EHeading (fmt : str)          (* heading.format() *)
| EList (fmt : str)             (* list.format() *)
| EPara (text : str)
| ESep.

Section Chunker.
  Variable is_ws : N -> bool.     (* char::is_whitespace *)
  Variable max_chars : nat.

  Fixpoint drop_ws (s : str) : str :=
    match s with
    | [] => []
    | c :: r => if is_ws c then drop_ws r else s
    end.
  (* str::trim *)
  Definition trim (s : str) : str := rev (drop_ws (rev (drop_ws s))).
  (* s.trim().is_empty() *)
  Definition blank (s : str) : bool := match drop_ws s with [] => true | _ => false end.
  Definition ends_with_nl (s : str) : bool := match rev s with 10%N :: _ => true | _ => false end.
  Definition is_empty (s : str) : bool := match s with [] => true | _ => false end.

  (* calculate_rows_per_chunk *)
  Definition rows_per_chunk (header_chars : nat) (rows : list (str * nat)) : nat :=
    let available := max_chars - (header_chars + 10) in       (* saturating_sub *)
    if available =? 0 then 1
    else
      let total_row_chars := fold_left (fun a r => a + snd r) rows 0 in
      let row_count := length rows in
      if row_count =? 0 then 1
      else
        let avg_row_chars := total_row_chars / row_count in
        if avg_row_chars =? 0 then row_count
        else Nat.max (available / avg_row_chars) 1.

  (* while row_idx < data_rows.len() { end_idx = min(row_idx + k, len); chunk = header + "\n" + rows... } *)
  Fixpoint table_parts (fuel : nat) (header : str) (k : nat) (rows : list (str * nat)) : list str :=
    match rows with
    | [] => []
    | _ :: _ =>
        match fuel with
        | O => []          (* out of fuel: excluded by table_parts_all (k >= 1) *)
        | S f =>
            let now := firstn k rows in
            (header ++ concat (map (fun r => 10%N :: fst r) now)) :: table_parts f header k (skipn k rows)
        end
    end.

  (* chunk_table, TableChunkingStrategy::SplitWithHeader *)
  Definition chunk_table (raw header : str) (rows : list (str * nat)) : list str :=
    if length raw <=? max_chars then [raw]
    else match rows with
         | [] => [header]
         | _ => table_parts (length rows) header (rows_per_chunk (length header) rows) rows
         end.

  Record state := mkState { chunks : list str; cur : str; pending : option str }.

  (* if !current_text.trim().is_empty() { emit_text_chunk(trim); current_text.clear(); } *)
  Definition flush (st : state) : state :=
    if blank (cur st) then st
    else mkState (chunks st ++ [trim (cur st)]) [] (pending st).

  Definition step (st : state) (e : elem) : state :=
    match e with
    | ETable raw header rows =>
        let st := flush st in
        mkState (chunks st ++ chunk_table raw header rows) (cur st) (pending st)
    | ECode formatted =>
        let st := flush st in
        mkState (chunks st ++ [formatted]) (cur st) (pending st)
    | EHeading fmt =>
        let c := if is_empty (cur st) then cur st else cur st ++ [10%N] in
        mkState (chunks st) (c ++ fmt) (Some fmt)
    | EList fmt =>
        let st := if (max_chars <? length (cur st) + length fmt) && negb (blank (cur st))
                  then mkState (chunks st ++ [trim (cur st)]) [] (pending st) else st in
        let c := if is_empty (cur st) then cur st else cur st ++ [10%N; 10%N] in
        mkState (chunks st) (c ++ fmt) (pending st)
    | EPara text =>
        let st := if (max_chars <? length (cur st) + length text) && negb (blank (cur st))
                  then match pending st with
                       | Some h => mkState (chunks st ++ [trim (cur st)]) (h ++ [10%N; 10%N]) None
                       | None => mkState (chunks st ++ [trim (cur st)]) [] None
                       end
                  else st in
        let c := if negb (is_empty (cur st)) && negb (ends_with_nl (cur st))
                 then cur st ++ [10%N; 10%N] else cur st in
        mkState (chunks st) (c ++ text) (pending st)
    | ESep =>
        let st := flush st in
        mkState (chunks st) (cur st) None
    end.

  Definition chunk_doc (doc : list elem) : list str :=
    chunks (flush (fold_left step doc (mkState [] [] None))).

  (* plan_structural_chunks: None when at most one chunk *)
  Definition plan_structural (doc : list elem) : option (list str) :=
    let cs := chunk_doc doc in
    if length cs <=? 1 then None else Some cs.

  (* ---- coverage vocabulary ---- *)
  Definition infix (a b : str) : Prop := exists p q, b = p ++ a ++ q.
  Definition covered (cs : list str) (l : str) : Prop := exists c, In c cs /\ infix l c.

  (* the strings the chunker copies from an element into its chunks *)
  Definition kept (e : elem) : list str :=
    match e with
    | ETable raw header rows =>
        if length raw <=? max_chars then [raw] else header :: map fst rows
    | ECode f => [f]
    | EHeading f => [f]
    | EList f => [f]
    | EPara t => [t]
    | ESep => []
    end.

  (* boolean infix test (for the refutation witness and the known-class predicate) *)
  Fixpoint prefixb (a b : str) : bool :=
    match a, b with
    | [], _ => true
    | x :: a', y :: b' => (x =? y)%N && prefixb a' b'
    | _, [] => false
    end.
  (* written with `if` so that vm_compute stops at the first match *)
  Fixpoint infixb (a b : str) : bool :=
    if prefixb a b then true
    else match b with [] => false | _ :: b' => infixb a b' end.
  Fixpoint anyb {X} (f : X -> bool) (l : list X) : bool :=
    match l with [] => false | x :: r => if f x then true else anyb f r end.

  (* an element with the (trimmed, non-blank) lines of the normalized text it was detected
     from; `skipped` = lines the detector consumed without producing an element *)
  Definition selem := (elem * list str)%type.
  (* every source line survives rendering: it is inside one of the kept strings *)
  Definition faithful (se : selem) : bool :=
    let ks := map trim (kept (fst se)) in
    forallb (fun l => anyb (infixb l) ks) (snd se).
  (* known class of inputs on which lines are lost: the detector skipped a line
     (stray table row, unclosed fence), or an element's rendering does not contain its
     source lines (rule -> Separator renders nothing; split table re-rendered by
     format_header/format_row; list re-rendered by format(); fence info string cut) *)
  Definition known_class (doc : list selem) (skipped : list str) : bool :=
    match skipped with [] => false | _ => true end || existsb (fun se => negb (faithful se)) doc.
End Chunker.
