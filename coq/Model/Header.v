(* Model of src/io/header.rs: HeaderCodec::{encode, decode, read, write} and
   clear_legacy_lock_metadata.  The header is the first 4096 bytes of the file; only the
   first 80 carry data, the rest is zero padding that decode never looks at. *)
From MV Require Import Base.Prelude.
Local Open Scope N_scope.

Definition HEADER_SIZE : nat := 4096.
Definition MAGIC : bytes := [77; 86; 50; 0].            (* "MV2\0" *)
Definition SPEC_MAJOR : N := 2.
Definition SPEC_MINOR : N := 1.
Definition WAL_OFFSET : N := 4096.
Definition EXPECTED_VERSION : N := 513.                 (* (SPEC_MAJOR << 8) | SPEC_MINOR *)

Definition VERSION_OFFSET : nat := 4.
Definition SPEC_BYTES_OFFSET : nat := 6.
Definition FOOTER_OFFSET_POS : nat := 8.
Definition WAL_OFFSET_POS : nat := 16.
Definition WAL_SIZE_POS : nat := 24.
Definition WAL_CHECKPOINT_POS : nat := 32.
Definition WAL_SEQUENCE_POS : nat := 40.
Definition TOC_CHECKSUM_POS : nat := 48.
Definition TOC_CHECKSUM_END : nat := 80.
Definition LEGACY_LOCK_REGION_START : nat := 80.        (* = TOC_CHECKSUM_END *)
Definition LEGACY_LOCK_REGION_END : nat := 140.         (* start + 60 *)

(* types::Header *)
Record header := mkHeader {
  h_magic : bytes;            (* [u8; 4]  *)
  h_version : N;              (* u16 *)
  h_footer_offset : N;        (* u64 *)
  h_wal_offset : N;
  h_wal_size : N;
  h_wal_checkpoint_pos : N;
  h_wal_sequence : N;
  h_toc_checksum : bytes      (* [u8; 32] *)
}.

(* the Rust type's own invariants (array lengths, integer widths) *)
Definition header_wf (h : header) : bool :=
  Nat.eqb (length (h_magic h)) 4 && bytes_ok (h_magic h) &&
  (h_version h <? 2 ^ 16) && (h_footer_offset h <? 2 ^ 64) && (h_wal_offset h <? 2 ^ 64) &&
  (h_wal_size h <? 2 ^ 64) && (h_wal_checkpoint_pos h <? 2 ^ 64) && (h_wal_sequence h <? 2 ^ 64) &&
  Nat.eqb (length (h_toc_checksum h)) 32 && bytes_ok (h_toc_checksum h).

(* the four checks of HeaderCodec::encode, as one predicate *)
Definition header_valid (h : header) : bool :=
  bytes_eqb (h_magic h) MAGIC && (h_version h =? EXPECTED_VERSION) &&
  negb (h_wal_offset h <? WAL_OFFSET) && negb (h_wal_size h =? 0).

(* error kinds = the `reason` strings of MemvidError::InvalidHeader *)
Definition E_MAGIC : N := 1.      (* "magic mismatch" *)
Definition E_VERSION : N := 2.    (* "unsupported version" *)
Definition E_SPEC : N := 3.       (* "spec byte mismatch" *)
Definition E_WAL_OFFSET : N := 4. (* "wal_offset precedes data region" *)
Definition E_WAL_SIZE : N := 5.   (* "wal_size must be non-zero" *)
Definition E_TRUNCATED : N := 6.  (* "header truncated" (extract_array; unreachable for [u8; 4096]) *)
Definition E_IO : N := 9.         (* read_exact: UnexpectedEof *)

Definition zeros (n : nat) : bytes := repeat 0 n.

(* HeaderCodec::encode.  `buf` starts as 4096 zero bytes; the copies fill 0..80 without gaps
   (offsets 0,4,6,8,16,24,32,40,48 and lengths 4,2,1+1,8,8,8,8,8,32), so the result is this
   concatenation followed by the untouched zeros. *)
Definition header_encode (h : header) : outcome bytes :=
  if negb (bytes_eqb (h_magic h) MAGIC) then Err E_MAGIC
  else if negb (h_version h =? EXPECTED_VERSION) then Err E_VERSION
  else if h_wal_offset h <? WAL_OFFSET then Err E_WAL_OFFSET
  else if h_wal_size h =? 0 then Err E_WAL_SIZE
  else Ok (h_magic h ++ le_encode 2 (h_version h) ++ [SPEC_MAJOR; SPEC_MINOR] ++
           le_encode 8 (h_footer_offset h) ++ le_encode 8 (h_wal_offset h) ++
           le_encode 8 (h_wal_size h) ++ le_encode 8 (h_wal_checkpoint_pos h) ++
           le_encode 8 (h_wal_sequence h) ++ h_toc_checksum h ++
           zeros (HEADER_SIZE - TOC_CHECKSUM_END)).

(* HeaderCodec::decode on a buffer (the Rust parameter type fixes the length at 4096;
   a shorter buffer is what extract_array's "header truncated" would answer). *)
Definition header_decode (b : bytes) : outcome header :=
  if negb (Nat.eqb (length b) HEADER_SIZE) then Err E_TRUNCATED
  else
    let magic := slice b 0 4 in
    if negb (bytes_eqb magic MAGIC) then Err E_MAGIC
    else
      let version := le_decode (slice b VERSION_OFFSET 2) in
      if negb (version =? EXPECTED_VERSION) then Err E_VERSION
      else if negb (nth SPEC_BYTES_OFFSET b 0 =? SPEC_MAJOR) || negb (nth (SPEC_BYTES_OFFSET + 1) b 0 =? SPEC_MINOR)
      then Err E_SPEC
      else
        let footer_offset := le_decode (slice b FOOTER_OFFSET_POS 8) in
        let wal_offset := le_decode (slice b WAL_OFFSET_POS 8) in
        if wal_offset <? WAL_OFFSET then Err E_WAL_OFFSET
        else
          let wal_size := le_decode (slice b WAL_SIZE_POS 8) in
          if wal_size =? 0 then Err E_WAL_SIZE
          else
            let wal_checkpoint_pos := le_decode (slice b WAL_CHECKPOINT_POS 8) in
            let wal_sequence := le_decode (slice b WAL_SEQUENCE_POS 8) in
            let toc_checksum := slice b TOC_CHECKSUM_POS 32 in
            Ok (mkHeader magic version footer_offset wal_offset wal_size
                         wal_checkpoint_pos wal_sequence toc_checksum).

(* clear_legacy_lock_metadata: zero bytes 80..140 if any of them is non-zero *)
Definition legacy_dirty (buf : bytes) : bool :=
  existsb (fun x => negb (x =? 0)) (slice buf LEGACY_LOCK_REGION_START (LEGACY_LOCK_REGION_END - LEGACY_LOCK_REGION_START)).
Definition clear_legacy (buf : bytes) : bytes :=
  firstn LEGACY_LOCK_REGION_START buf ++ zeros (LEGACY_LOCK_REGION_END - LEGACY_LOCK_REGION_START) ++
  skipn LEGACY_LOCK_REGION_END buf.

(* a seekable byte store: write_all at position 0 overwrites and, if needed, extends *)
Definition write_at0 (file data : bytes) : bytes := data ++ skipn (length data) file.

(* HeaderCodec::read: (result, file afterwards) *)
Definition header_read (file : bytes) : outcome header * bytes :=
  if Nat.ltb (length file) HEADER_SIZE then (Err E_IO, file)
  else
    let buf := firstn HEADER_SIZE file in
    if legacy_dirty buf then
      let buf' := clear_legacy buf in (header_decode buf', write_at0 file buf')
    else (header_decode buf, file).

(* HeaderCodec::write *)
Definition header_write (file : bytes) (h : header) : outcome bytes :=
  match header_encode h with
  | Ok b => Ok (write_at0 file b)
  | Err e => Err e
  | Panic s => Panic s
  end.

(* the decoded view of a buffer's first 80 bytes, with no check applied *)
Definition header_fields (b : bytes) : header :=
  mkHeader (slice b 0 4) (le_decode (slice b VERSION_OFFSET 2))
           (le_decode (slice b FOOTER_OFFSET_POS 8)) (le_decode (slice b WAL_OFFSET_POS 8))
           (le_decode (slice b WAL_SIZE_POS 8)) (le_decode (slice b WAL_CHECKPOINT_POS 8))
           (le_decode (slice b WAL_SEQUENCE_POS 8)) (slice b TOC_CHECKSUM_POS 32).

(* the checks decode applies, on the raw bytes *)
Definition header_checks (b : bytes) : bool :=
  bytes_eqb (slice b 0 4) MAGIC && (le_decode (slice b VERSION_OFFSET 2) =? EXPECTED_VERSION) &&
  (nth SPEC_BYTES_OFFSET b 0 =? SPEC_MAJOR) && (nth (SPEC_BYTES_OFFSET + 1) b 0 =? SPEC_MINOR) &&
  negb (le_decode (slice b WAL_OFFSET_POS 8) <? WAL_OFFSET) && negb (le_decode (slice b WAL_SIZE_POS 8) =? 0).
