(* Hand model of the two serde_json entry points used by src/memvid/acl.rs:
     serde_json::from_str::<String>(s)        = json_string s
     serde_json::from_str::<Vec<String>>(s)   = json_string_array s
   Strings are lists of Unicode code points (a Rust &str is valid UTF-8, and every
   byte serde_json dispatches on is ASCII, so the byte-level parser and this
   code-point-level one coincide).  Follows serde_json's read.rs / de.rs:
   parse_whitespace, parse_str_bytes(validate = true), parse_escape,
   parse_unicode_escape, SeqAccess::next_element_seed, end_seq, Deserializer::end.
   The C12 theorems do not depend on this file (they hold for every pair of parsers);
   it instantiates the two oracles in the correspondence run only. *)
From MV Require Import Base.Prelude.
Local Open Scope N_scope.

Definition jstr := list N.

(* JSON whitespace: ' ' '\n' '\t' '\r' *)
Definition json_ws (c : N) : bool := (c =? 32) || (c =? 10) || (c =? 9) || (c =? 13).

Fixpoint skip_ws (s : jstr) : jstr :=
  match s with
  | [] => []
  | c :: r => if json_ws c then skip_ws r else s
  end.

Definition hexdig (c : N) : option N :=
  if (48 <=? c) && (c <=? 57) then Some (c - 48)
  else if (97 <=? c) && (c <=? 102) then Some (c - 87)
  else if (65 <=? c) && (c <=? 70) then Some (c - 55)
  else None.

(* decode_hex_escape: exactly four hex digits *)
Definition hex4 (s : jstr) : option (N * jstr) :=
  match s with
  | a :: b :: c :: d :: r =>
      match hexdig a, hexdig b, hexdig c, hexdig d with
      | Some x, Some y, Some z, Some w => Some (x * 4096 + y * 256 + z * 16 + w, r)
      | _, _, _, _ => None
      end
  | _ => None
  end.

(* the characters after the opening quote: decoded content and what follows the
   closing quote.  fuel = number of characters available (each step consumes >= 1). *)
Fixpoint str_body (fuel : nat) (s : jstr) (acc : jstr) : option (jstr * jstr) :=
  match fuel with
  | O => None
  | S f =>
      match s with
      | [] => None                                            (* EofWhileParsingString *)
      | c :: r =>
          if c =? 34 then Some (rev acc, r)                   (* closing quote *)
          else if c =? 92 then                                (* backslash: parse_escape *)
            match r with
            | [] => None
            | e :: r' =>
                if e =? 34 then str_body f r' (34 :: acc)
                else if e =? 92 then str_body f r' (92 :: acc)
                else if e =? 47 then str_body f r' (47 :: acc)
                else if e =? 98 then str_body f r' (8 :: acc)
                else if e =? 102 then str_body f r' (12 :: acc)
                else if e =? 110 then str_body f r' (10 :: acc)
                else if e =? 114 then str_body f r' (13 :: acc)
                else if e =? 116 then str_body f r' (9 :: acc)
                else if e =? 117 then                          (* \uXXXX *)
                  match hex4 r' with
                  | None => None
                  | Some (n, r2) =>
                      if (56320 <=? n) && (n <=? 57343) then None        (* lone trailing surrogate *)
                      else if (55296 <=? n) && (n <=? 56319) then        (* leading surrogate *)
                        match r2 with
                        | b :: u :: r3 =>
                            if (b =? 92) && (u =? 117) then
                              match hex4 r3 with
                              | None => None
                              | Some (n2, r4) =>
                                  if (56320 <=? n2) && (n2 <=? 57343)
                                  then str_body f r4 (((n - 55296) * 1024 + (n2 - 56320) + 65536) :: acc)
                                  else None
                              end
                            else None
                        | _ => None
                        end
                      else str_body f r2 (n :: acc)
                  end
                else None                                      (* InvalidEscape *)
            end
          else if c <? 32 then None                            (* ControlCharacterWhileParsingString *)
          else str_body f r (c :: acc)
      end
  end.

(* serde_json::from_str::<String> *)
Definition json_string (s : jstr) : option jstr :=
  match skip_ws s with
  | c :: r =>
      if c =? 34 then
        match str_body (length r) r [] with
        | Some (v, rest) => match skip_ws rest with [] => Some v | _ => None end
        | None => None
        end
      else None
  | [] => None
  end.

(* elements of a JSON array after '[' : SeqAccess::next_element_seed until ']' *)
Fixpoint arr_elems (fuel : nat) (s : jstr) (first : bool) (acc : list jstr) : option (list jstr * jstr) :=
  match fuel with
  | O => None
  | S f =>
      match skip_ws s with
      | [] => None                                             (* EofWhileParsingList *)
      | c :: r =>
          if c =? 93 then Some (rev acc, r)
          else
            let elem (t : jstr) :=
              match t with
              | q :: t' =>
                  if q =? 34 then
                    match str_body (length t') t' [] with
                    | Some (v, rest) => arr_elems f rest false (v :: acc)
                    | None => None
                    end
                  else None                                    (* invalid type: not a string *)
              | [] => None
              end in
            if first then elem (c :: r)
            else if c =? 44 then
              match skip_ws r with
              | [] => None
              | c2 :: r2 => if c2 =? 93 then None (* TrailingComma *) else elem (c2 :: r2)
              end
            else None                                          (* ExpectedListCommaOrEnd *)
      end
  end.

(* serde_json::from_str::<Vec<String>> *)
Definition json_string_array (s : jstr) : option (list jstr) :=
  match skip_ws s with
  | c :: r =>
      if c =? 91 then
        match arr_elems (S (length r)) r true [] with
        | Some (vs, rest) => match skip_ws rest with [] => Some vs | _ => None end
        | None => None
        end
      else None
  | [] => None
  end.
