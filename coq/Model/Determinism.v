(* M-Determinism (C23): where the sources of nondeterminism flow.

   In Gallina every function is deterministic, so the model takes every source of
   nondeterminism found by reading the code as an explicit ORACLE STREAM:
     SegId   Tantivy segment file names (random UUIDs; search/tantivy/engine.rs snapshot_segments
             reads back whatever files the index writer left in its work directory)
     Sched   indexing-thread scheduling: which documents end up in which segment file and how
             many files there are (index.writer(50_000_000) uses several indexing threads)
     Now     SystemTime::now(): put_internal when options.timestamp is None, delete_frame's
             tombstone record (always), MemoryCardBuilder::build's created_at and
             record_enrichment's enriched_at for cards extracted by a put, put_memory_card when the
             caller leaves created_at to the builder
     HashOrd HashSet -> Vec of the frame filter handed to the engine (search/tantivy.rs)
     TmpName names of the staging file of a commit and of the Tantivy work directory
   The machine is the product of
     - the LOGICAL machine: Model/Reads.v's rstep (frame table with content tags and option
       fields incl. timestamps, lex_docs, vec_docs, time index) plus the memory-card lists; it never
       sees an oracle: the only oracle values that can reach it are the timestamps the caller left
       implicit, substituted by `core` before the step;
     - the PHYSICAL machine: log records, embedded Tantivy files, stale index images, created_at of
       extracted cards, from which `region` assembles a symbolic image of every region class of the
       file (one word per value; lengths = word counts; H = BLAKE3 as a Section-free parameter).
   `deps c` tags each region class with the oracle sources it can depend on. *)
From MV Require Import Base.Prelude Model.Store Model.StoreSpec Model.Reads Model.StableSort.
Local Open Scope N_scope.

Inductive src := SegId | Sched | Now | HashOrd | TmpName.

Record oracle := mkO { o_seg : nat -> N; o_sched : nat -> N; o_now : nat -> N; o_hord : nat -> N; o_tmp : nat -> N }.

Definition stream_of (o : oracle) (s : src) : nat -> N :=
  match s with SegId => o_seg o | Sched => o_sched o | Now => o_now o | HashOrd => o_hord o | TmpName => o_tmp o end.
Definition agree (s : src) (o1 o2 : oracle) : Prop := forall k, stream_of o1 s k = stream_of o2 s k.
Definition agree_on (l : list src) (o1 o2 : oracle) : Prop := forall s, In s l -> agree s o1 o2.

(* ---------- histories ---------- *)
(* DStore: an operation of Model/Store.v (with the oracle inputs of that model observed on the
   implementation) plus: explicit timestamp (None = left to now()), whether the frame has index
   text, embedding tag, instant_index.  DCard: put_memory_card (created None = left to the builder).
   DSentence: a put with triplet extraction on whose text yielded ncards memory cards. *)
Inductive dop :=
| DStore (op : sop) (ts : option N) (text : bool) (emb : option N) (instant : bool)
| DCard (k : N) (created : option N)
| DSentence (op : sop) (ts : option N) (ncards : N).

Definition is_put (op : sop) : bool := match op with OPut _ _ _ _ _ => true | _ => false end.
Definition is_delete (op : sop) : bool := match op with ODelete _ _ => true | _ => false end.
Definition is_some {A} (x : option A) : bool := match x with Some _ => true | None => false end.

(* "the same explicit inputs (including timestamps)" *)
Definition explicit_op (d : dop) : bool :=
  match d with
  | DStore op ts _ _ _ => if is_put op then is_some ts else true
  | DCard _ created => is_some created
  | DSentence _ ts _ => is_some ts
  end.
Definition explicit (h : list dop) : bool := forallb explicit_op h.

(* now() calls made for an input the caller left implicit (first), and those no caller can avoid *)
Definition ts_draws (d : dop) : nat :=
  match d with
  | DStore op None _ _ _ => if is_put op then 1 else 0
  | DCard _ None => 1
  | DSentence _ None _ => 1
  | _ => 0
  end.
Definition other_draws (d : dop) : nat :=
  match d with
  | DStore op _ _ _ _ => if is_delete op then 1 else 0          (* delete_frame: tombstone.timestamp *)
  | DSentence _ _ nc => N.to_nat nc + 1                          (* build() per card, record_enrichment *)
  | _ => 0
  end.

(* ---------- the operation the logical machine sees ---------- *)
Definition put_fields (ts : N) (uk : option N) : fields := mkFields (Some ts) None None uk None None None [] [] [].
Definition upd_fields (uk : option N) : fields := mkFields None None None uk None None None [] [] [].

Definition rop_of (op : sop) (ts : N) (text : bool) (emb : option N) (instant : bool) : rop :=
  match op with
  | OPut uk tag nchunks _ auto => RPut uk tag nchunks auto (put_fields ts uk) text emb instant
  | OUpdate target newtag uk auto => RUpdate target newtag auto (upd_fields uk) text emb false
  | ODelete target auto => RDelete target auto
  | OCommit extra => RCommit extra
  | OReopen extra => RReopen extra
  | OCrash extra => RCrash extra
  | ODoctor _ => RRead []
  end.

Inductive cop := CStore (r : rop) | CCard (k created : N) | CSentence (r : rop) (ncards : N).

Definition or_now (x : option N) (o : oracle) (c : nat) : N := match x with Some v => v | None => o_now o c end.

(* put_internal: options.timestamp.take().unwrap_or_else(now) ; the other operations take no time *)
Definition core (o : oracle) (c : nat) (d : dop) : cop :=
  match d with
  | DStore op ts text emb instant => CStore (rop_of op (or_now ts o c) text emb instant)
  | DCard k created => CCard k (or_now created o c)
  | DSentence op ts nc => CSentence (rop_of op (or_now ts o c) true None true) nc
  end.

(* ---------- logical machine ---------- *)
(* cards: persisted explicit cards (k, created_at), the same still in memory only, then the source
   frame ids of extracted cards, persisted / in memory only *)
Record lstate := mkL { l_rs : rstore; l_cards : list (N * N); l_pcards : list (N * N); l_scards : list N; l_pscards : list N }.
Definition lstate0 : lstate := mkL rstore0 [] [] [] [].

Inductive cardfx := Keep | Persist | Lose.

Definition auto_of (r : rop) : option N :=
  match r with
  | RPut _ _ _ a _ _ _ _ => a | RUpdate _ _ a _ _ _ _ => a | RDelete _ a => a | _ => None
  end.

(* commit_from_records persists the memories track; a handle dropped without commit loses the cards
   that exist in memory only *)
Definition card_effect (b : store) (r : rop) (ack : bool) : cardfx :=
  match r with
  | RCommit _ => match pending b, dirty b with [], false => Keep | _, _ => Persist end
  | RReopen _ => if dirty b then Persist else Lose
  | RCrash _ => Lose
  | RRead _ => Keep
  | _ => match auto_of r with Some _ => if ack then Persist else Keep | None => Keep end
  end.

Definition apply_fx {A} (fx : cardfx) (done pend : list A) : list A * list A :=
  match fx with Keep => (done, pend) | Persist => (done ++ pend, []) | Lose => (done, []) end.

Definition mark_dirty (r : rstore) : rstore :=
  let b := base r in set_base r (mkStore (committed b) (pending b) (seqno b) (pending_inserts b) true).

Definition lstep (l : lstate) (c : cop) : lstate * sout :=
  match c with
  | CStore r =>
      let '(rs', o) := rstep (l_rs l) r in
      let fx := card_effect (base (l_rs l)) r (acked o) in
      let '(cd, pc) := apply_fx fx (l_cards l) (l_pcards l) in
      let '(sc, psc) := apply_fx fx (l_scards l) (l_pscards l) in
      (mkL rs' cd pc sc psc, o)
  | CCard k created =>
      (* put_memory_card: dirty = true; memories_track.add_card *)
      (mkL (mark_dirty (l_rs l)) (l_cards l) (l_pcards l ++ [(k, created)]) (l_scards l) (l_pscards l),
       observe (base (l_rs l)) (Ok 0))
  | CSentence r nc =>
      let src_frame := next_frame_id (base (l_rs l)) in
      let '(rs', o) := rstep (l_rs l) r in
      let fx := card_effect (base (l_rs l)) r (acked o) in
      let '(cd, pc) := apply_fx fx (l_cards l) (l_pcards l) in
      let '(sc, psc) := apply_fx fx (l_scards l) (l_pscards l) in
      (* the triplets are extracted after the automatic-checkpoint block of put_internal *)
      if acked o && (0 <? nc)
      then (mkL (mark_dirty rs') cd pc sc (psc ++ repeat src_frame (N.to_nat nc)), o)
      else (mkL rs' cd pc sc psc, o)
  end.

(* ---------- physical machine ---------- *)
Definition limage := list (N * list N).       (* embedded Tantivy files: (name, words) *)

Record pstate := mkP {
  p_nowc : nat;                 (* now() calls so far *)
  p_fl : nat;                   (* flush_tantivy calls so far *)
  p_log : list (list N);        (* records appended to the embedded log, in order *)
  p_lex : limage;               (* files the lex manifest of the TOC points to *)
  p_stale : limage;             (* previous index image, no longer referenced *)
  p_scre : list N;              (* created_at / enriched_at of persisted extracted cards *)
  p_pscre : list N }.           (* the same, in memory only *)
Definition pstate0 : pstate := mkP 0 0 [] [] [] [] [].

(* one engine commit + snapshot_segments: Sched decides how the documents are spread over segment
   files (here: where the document list is cut; an empty part yields no file), SegId names the files;
   meta.json (name 0) lists the names *)
Definition lex_image (o : oracle) (i : nat) (docs : list N) : limage :=
  let cut := N.to_nat (o_sched o i mod (N.of_nat (length docs) + 1)) in
  let g1 := skipn cut docs in
  let g2 := firstn cut docs in
  let files := (match g1 with [] => [] | _ => [(o_seg o (2 * i)%nat, g1)] end) ++
               (match g2 with [] => [] | _ => [(o_seg o (2 * i + 1)%nat, g2)] end) in
  (0, map fst files) :: files.

Definition flat_img (img : limage) : list N :=
  flat_map (fun nd => fst nd :: N.of_nat (length (snd nd)) :: snd nd) img.
Definition seg_docs (img : limage) : list N := concat (map snd (tl img)).

Definition extra_of (r : rop) : N :=
  match r with
  | RCommit e => e | RReopen e => e | RCrash e => e
  | RRead _ => 0
  | _ => match auto_of r with Some e => e | None => 0 end
  end.
Definition rop_of_cop (c : cop) : option rop := match c with CStore r => Some r | CSentence r _ => Some r | CCard _ _ => None end.

Definition ts_word (f : fields) : N := match o_ts f with Some t => t | None => 0 end.
Definition opt_word (x : option N) : N := match x with Some v => v + 1 | None => 0 end.

(* the frame records an acknowledged call appends (WalEntry::Frame); nowv = the tombstone's timestamp *)
Definition frame_records (r : rop) (nowv : N) : list (list N) :=
  match r with
  | RPut uk tag nchunks _ created _ emb _ =>
      [1; tag; ts_word created; opt_word uk; opt_word emb] ::
      map (fun i => [1; tag + N.of_nat i + 1; ts_word created; opt_word uk; 0]) (seq 0 (N.to_nat nchunks))
  | RUpdate target newtag _ opts _ emb _ => [[2; target; opt_word newtag; opt_word (o_uri opts); opt_word emb]]
  | RDelete target _ => [[4; target; nowv]]
  | _ => []
  end.

(* images produced by the flushes of one call: the current one, and the one it replaced *)
Definition cur_img (old : limage) (imgs : list limage) : limage := last imgs old.
Definition stale_img (old st : limage) (imgs : list limage) : limage :=
  match rev imgs with
  | [] => st
  | [_] => old
  | _ :: b :: _ => b
  end.

Definition op_cursor (p : pstate) (d : dop) : nat := (p_nowc p + ts_draws d)%nat.
Definition op_recs (o : oracle) (p : pstate) (d : dop) (c : cop) (out : sout) : list (list N) :=
  match rop_of_cop c with
  | Some r => if acked out then frame_records r (o_now o (op_cursor p d)) else []
  | None => []
  end.
Definition op_flushes (c : cop) : nat :=
  match rop_of_cop c with Some r => N.to_nat (extra_of r) | None => O end.
(* flush_tantivy: snapshot of the engine's files, embedded after the time index; one lex batch record each *)
Definition op_imgs (o : oracle) (p : pstate) (c : cop) (l' : lstate) : list limage :=
  map (fun j => lex_image o (p_fl p + j)%nat (lex (l_rs l'))) (seq 0 (op_flushes c)).
Definition op_fx (c : cop) (l : lstate) (out : sout) : cardfx :=
  match rop_of_cop c with Some r => card_effect (base (l_rs l)) r (acked out) | None => Keep end.
Definition op_newcre (o : oracle) (p : pstate) (d : dop) (out : sout) : list N :=
  match d with
  | DSentence _ _ nc => if acked out && (0 <? nc) then map (o_now o) (seq (op_cursor p d) (N.to_nat nc + 1)) else []
  | _ => []
  end.

Definition pstep (o : oracle) (p : pstate) (d : dop) (c : cop) (l l' : lstate) (out : sout) : pstate :=
  let imgs := op_imgs o p c l' in
  mkP (op_cursor p d + other_draws d)%nat (p_fl p + op_flushes c)%nat
      (p_log p ++ op_recs o p d c out ++ map (fun img => 3 :: flat_img img) imgs)
      (cur_img (p_lex p) imgs) (stale_img (p_lex p) (p_stale p) imgs)
      (fst (apply_fx (op_fx c l out) (p_scre p) (p_pscre p)))
      (snd (apply_fx (op_fx c l out) (p_scre p) (p_pscre p)) ++ op_newcre o p d out).

Definition dstate := (lstate * pstate)%type.
Definition dstate0 : dstate := (lstate0, pstate0).

Definition dstep (o : oracle) (st : dstate) (d : dop) : dstate * sout :=
  let '(l, p) := st in
  let c := core o (p_nowc p) d in
  let '(l', out) := lstep l c in
  ((l', pstep o p d c l l' out), out).

Fixpoint drun (o : oracle) (st : dstate) (h : list dop) : dstate * list sout :=
  match h with
  | [] => (st, [])
  | d :: r => let '(st1, out) := dstep o st d in
              let '(st2, outs) := drun o st1 r in (st2, out :: outs)
  end.

(* what the property calls the observable logical state: the whole logical machine (frame table with
   content tags and timestamps, lex_docs, vec_docs, time index, the card lists) *)
Definition logical (st : dstate) : lstate := fst st.

(* ---------- region classes of the file and their symbolic images ---------- *)
Inductive rclass :=
| HdrGeometry | HdrFooterOffset | HdrLogPos | HdrTocSum | HdrPadding | LogRegion | Payloads | TimeIndex
| LexSegments | VecIndex | MemoriesTrack | SketchTrack | LogicMesh | Unreferenced | TocRegion
| FooterLenHash | FooterMagicGen | TocCanonical | LogFrameRecords.

Definition all_classes : list rclass :=
  [HdrGeometry; HdrFooterOffset; HdrLogPos; HdrTocSum; HdrPadding; LogRegion; Payloads; TimeIndex;
   LexSegments; VecIndex; MemoriesTrack; SketchTrack; LogicMesh; Unreferenced; TocRegion;
   FooterLenHash; FooterMagicGen; TocCanonical; LogFrameRecords].

Definition wlen {A} (l : list A) : N := N.of_nat (length l).

Definition frames_of (st : dstate) : list frame := committed (base (l_rs (fst st))).
Definition attrs_of (st : dstate) : list fattr := attrs (l_rs (fst st)).

Definition r_payloads (st : dstate) : list N := map f_tag (frames_of st).
Definition r_tix (st : dstate) : list N :=
  flat_map (fun i => [ts_word (a_fields (attr_of (attrs_of st) i)); i]) (tix (l_rs (fst st))).
Definition r_vec (st : dstate) : list N := flat_map (fun ie => [fst ie; snd ie]) (vec (l_rs (fst st))).
Definition r_sketch (st : dstate) : list N :=
  filter (fun i => a_text (attr_of (attrs_of st) i)) (ids_from 0 (length (frames_of st))).
Definition r_mem (st : dstate) : list N :=
  flat_map (fun kc => [fst kc; snd kc]) (l_cards (fst st)) ++ l_scards (fst st) ++ p_scre (snd st).
(* length of the memories track: two words per card (explicit: k, created_at; extracted: source, stamp) + enrichment stamps *)
Definition mem_len (st : dstate) : N := 2 * wlen (l_cards (fst st)) + 2 * wlen (l_scards (fst st)).
Definition r_lex (st : dstate) : list N := flat_img (p_lex (snd st)).
Definition r_stale (st : dstate) : list N := flat_img (p_stale (snd st)).
Definition r_log (st : dstate) : list N := concat (p_log (snd st)).

(* the frame records of the log (put / update records as they are, a tombstone record with its
   timestamp word masked); lex batch records (first word 3) left out *)
Definition is_frame_rec (r : list N) : bool := match r with 3 :: _ => false | _ => true end.
Definition mask_rec (r : list N) : list N := match r with [4; target; _] => [4; target; 0] | _ => r end.
Definition frame_recs_masked (lg : list (list N)) : list (list N) := map mask_rec (filter is_frame_rec lg).

Definition frame_words (al : list fattr) (f : frame) : list N :=
  [f_id f; f_tag f; f_role f; f_status f; opt_word (f_supersedes f); opt_word (f_superseded_by f);
   opt_word (f_parent f); ts_word (a_fields (attr_of al (f_id f)))].

(* the TOC: frame table, the manifests (offset / length of every region: payloads are written from
   data_end, i.e. after whatever index image the previous commit left), the lex manifest with the
   segment file names and lengths, the generation *)
Definition r_toc (st : dstate) : list N :=
  flat_map (frame_words (attrs_of st)) (frames_of st) ++
  [wlen (r_payloads st) + wlen (r_stale st); wlen (r_tix st); wlen (r_lex st); wlen (r_vec st); mem_len st; wlen (r_sketch st)] ++
  flat_map (fun nd => [fst nd; wlen (snd nd)]) (p_lex (snd st)).

Definition region (H : list N -> N) (c : rclass) (st : dstate) : list N :=
  match c with
  | HdrGeometry => [77; 2; 4096]
  | HdrFooterOffset => [wlen (r_payloads st) + wlen (r_stale st) + wlen (r_tix st) + wlen (r_lex st) + wlen (r_vec st) + mem_len st + wlen (r_sketch st)]
  | HdrLogPos => [wlen (r_log st); wlen (p_log (snd st))]
  | HdrTocSum => [H (r_toc st)]
  | HdrPadding => [0]
  | LogRegion => r_log st
  | Payloads => r_payloads st
  | TimeIndex => r_tix st
  | LexSegments => r_lex st
  | VecIndex => r_vec st
  | MemoriesTrack => r_mem st
  | SketchTrack => r_sketch st
  | LogicMesh => []
  | Unreferenced => r_stale st
  | TocRegion => r_toc st
  | FooterLenHash => [wlen (r_toc st); H (r_toc st)]
  | FooterMagicGen => [N.of_nat (p_fl (snd st))]
  (* the TOC without the segment manifest and absolute offsets: frame table and the lengths of the oracle-free regions *)
  | LogFrameRecords => concat (frame_recs_masked (p_log (snd st)))
  | TocCanonical => flat_map (frame_words (attrs_of st)) (frames_of st) ++ [wlen (r_tix st); wlen (r_vec st); mem_len st; wlen (r_sketch st)]
  end.

(* the byte-class tagging: the oracle sources each region class can depend on *)
Definition deps (c : rclass) : list src :=
  match c with
  | HdrGeometry | HdrPadding | Payloads | TimeIndex | VecIndex | SketchTrack | LogicMesh | FooterMagicGen | TocCanonical | LogFrameRecords => []
  | MemoriesTrack => [Now]
  | LogRegion | HdrLogPos => [SegId; Sched; Now]      (* positions are lengths: an upper bound *)
  | HdrFooterOffset | HdrTocSum | LexSegments | Unreferenced | TocRegion | FooterLenHash => [SegId; Sched]
  end.

(* the class of the known finding: region classes into which an oracle source flows *)
Definition known_class (c : rclass) : bool := match deps c with [] => false | _ => true end.

(* ---------- the read side: the frame filter reaches the engine in hash-set order ---------- *)
Definition rotate {A} (k : nat) (l : list A) : list A := skipn (k mod (length l + 1)) l ++ firstn (k mod (length l + 1)) l.
Definition hashed_filter (o : oracle) (k : nat) (filter : list N) : list N := rotate (N.to_nat (o_hord o k)) filter.

(* ---------- the read side: Memvid::find_sketch_candidates ---------- *)
(* The sketch track holds one entry per committed frame with index text, in frame order (apply_records
   inserts them in id order; nothing removes one).  SketchTrack::find_candidates scans self.iter() = the
   frame_order vector, keeps the entries QuerySketch::score_entry accepts (term filter, Hamming threshold),
   sorts them by score descending with a STABLE sort (slice::sort_by) and truncates to max_candidates.
   A frame's sketch is a function of its index text, abstracted here by the content tag; `score` is a
   Section variable.  The observation is a function of the logical state alone; no oracle is an argument. *)
Section SketchCandidates.
  Variable query : Type.
  Variable score : N -> query -> N -> option N.     (* content tag, query, Hamming threshold *)

  Definition tag_of (st : dstate) (i : N) : N := match get (frames_of st) i with Some f => f_tag f | None => 0 end.
  Definition sketch_entries (st : dstate) : list (N * N) := map (fun i => (i, tag_of st i)) (r_sketch st).
  Definition scored (es : list (N * N)) (q : query) (thr : N) : list (N * N) :=
    flat_map (fun e => match score (snd e) q thr with Some sc => [(fst e, sc)] | None => [] end) es.
  Definition by_score_desc (x y : N * N) : bool := snd y <=? snd x.
  Definition rank (es : list (N * N)) (q : query) (thr : N) (max : nat) : list (N * N) :=
    firstn max (isort by_score_desc (scored es q thr)).

  Definition sketch_candidates (st : dstate) (q : query) (thr : N) (max : nat) : list (N * N) :=
    rank (sketch_entries st) q thr max.

  (* what a scan in the iteration order of the entry HashMap would compute (NOT what the code does): the
     k-th HashOrd draw decides the scan order; with tied scores the stable sort keeps that order *)
  Definition sketch_candidates_hashed (o : oracle) (k : nat) (st : dstate) (q : query) (thr : N) (max : nat) : list (N * N) :=
    rank (rotate (N.to_nat (o_hord o k)) (sketch_entries st)) q thr max.
End SketchCandidates.

(* a toy hash for executable instances (theorems hold for every H) and the class numbering of the harness *)
Definition toyH (l : list N) : N := fold_left (fun a x => (a * 31 + x) mod 1000003) l 7.

Definition rclass_code (c : rclass) : N :=
  match c with
  | HdrGeometry => 0 | HdrFooterOffset => 1 | HdrLogPos => 2 | HdrTocSum => 3 | HdrPadding => 4 | LogRegion => 5
  | Payloads => 6 | TimeIndex => 7 | LexSegments => 8 | VecIndex => 9 | MemoriesTrack => 10 | SketchTrack => 11
  | LogicMesh => 12 | Unreferenced => 13 | TocRegion => 14 | FooterLenHash => 15 | FooterMagicGen => 16 | TocCanonical => 17 | LogFrameRecords => 18
  end.

