(* Model of src/encryption/{types,capsule,capsule_stream}.rs (feature `encryption`):
   Mv2eHeader encode/decode, per-chunk nonce derivation, lock_file_stream,
   unlock_file (dispatch on reserved[0]), unlock_file_stream (the read loop, incl.
   "EOF while reading a length prefix ends the loop"), unlock_file_oneshot, write_atomic.

   Definitions only.  The functions are written once, over an abstract type [data] of
   "runs of file bytes" with the few operations the Rust code uses (length, split at n,
   append, view as concrete bytes).  Two instances:
     - [bytes] (Section ByteInstance below): what the theorems are about;
     - runs of literal bytes and opaque tokens (Corr/C29.v): what the correspondence
       check evaluates on capsules of several MiB (real ciphertext chunks as tokens).
   Argon2 ([kdf]) and AES-256-GCM ([enc]/[dec]) are Section variables. *)
From MV Require Import Base.Prelude.
Local Open Scope N_scope.

(* error kinds = variants of EncryptionError *)
Definition E_IO : N := 1.          (* Io (read_exact: UnexpectedEof) *)
Definition E_MAGIC : N := 2.       (* InvalidMagic *)
Definition E_VERSION : N := 3.     (* UnsupportedVersion *)
Definition E_KDF : N := 4.         (* UnsupportedKdf *)
Definition E_CIPHER : N := 5.      (* UnsupportedCipher *)
Definition E_DECRYPT : N := 6.     (* Decryption *)
Definition E_SIZE : N := 7.        (* SizeMismatch *)
Definition E_CORRUPT : N := 8.     (* CorruptedDecryption *)
Definition E_NOTMV2 : N := 9.      (* NotMv2File *)
Definition E_OPAQUE : N := 98.     (* model only: bytes needed as a number are an opaque token *)
Definition E_FUEL : N := 99.       (* model only: loop fuel exhausted *)

(* constants.rs *)
Definition MV2E_MAGIC : bytes := [77; 86; 50; 69].   (* "MV2E" *)
Definition MV2_MAGIC : bytes := [77; 86; 50; 0].     (* "MV2\0" *)
Definition MV2E_VERSION : N := 1.
Definition MV2E_HEADER_SIZE : N := 64.
Definition KDF_ARGON2ID : N := 1.
Definition CIPHER_AES_256_GCM : N := 1.
Definition SALT_SIZE : nat := 32.
Definition NONCE_SIZE : nat := 12.
Definition TAG_SIZE : nat := 16.
Definition CHUNK_SIZE : N := 1048576.                (* capsule_stream.rs *)

(* types.rs: Mv2eHeader *)
Record header := mkHeader {
  h_magic : bytes;        (* [u8; 4] *)
  h_version : N;          (* u16 *)
  h_kdf : N;              (* KdfAlgorithm as u8 *)
  h_cipher : N;           (* CipherAlgorithm as u8 *)
  h_salt : bytes;         (* [u8; 32] *)
  h_nonce : bytes;        (* [u8; 12] *)
  h_size : N;             (* original_size: u64 *)
  h_reserved : bytes      (* [u8; 4] *)
}.

Definition header_wf (h : header) : Prop :=
  length (h_magic h) = 4%nat /\ h_version h < 2 ^ 16 /\ h_kdf h < 256 /\ h_cipher h < 256 /\
  length (h_salt h) = SALT_SIZE /\ length (h_nonce h) = NONCE_SIZE /\ h_size h < 2 ^ 64 /\
  length (h_reserved h) = 4%nat.

(* Mv2eHeader::encode *)
Definition header_encode (h : header) : bytes :=
  h_magic h ++ le_encode 2 (h_version h) ++ [h_kdf h] ++ [h_cipher h] ++
  h_salt h ++ h_nonce h ++ le_encode 8 (h_size h) ++ h_reserved h.

(* Mv2eHeader::decode on a 64-byte array *)
Definition header_decode (b : bytes) : outcome header :=
  let magic := slice b 0 4 in
  if negb (bytes_eqb magic MV2E_MAGIC) then Err E_MAGIC else
  let version := le_decode (slice b 4 2) in
  if negb (version =? MV2E_VERSION) then Err E_VERSION else
  let kdf := nth 6 b 0 in
  if negb (kdf =? KDF_ARGON2ID) then Err E_KDF else
  let cipher := nth 7 b 0 in
  if negb (cipher =? CIPHER_AES_256_GCM) then Err E_CIPHER else
  Ok (mkHeader magic version kdf cipher (slice b 8 32) (slice b 40 12)
               (le_decode (slice b 52 8)) (slice b 60 4)).

(* u64::to_be_bytes *)
Definition be_encode (n : nat) (v : N) : bytes := rev (le_encode n v).

(* let mut nonce = base; nonce[NONCE_SIZE - 8..].copy_from_slice(&chunk_index.to_be_bytes()) *)
Definition chunk_nonce (base : bytes) (idx : N) : bytes :=
  firstn (NONCE_SIZE - 8) base ++ be_encode 8 idx.

(* write_atomic: the closure's result decides whether the destination is replaced;
   on Err the temporary file is dropped and the destination keeps what it had. *)
Definition write_atomic {D} (prev : option D) (r : outcome D) : option D :=
  match r with
  | Ok d => Some d
  | _ => prev
  end.

Section Capsule.
  Context {data : Type}.
  Variable dlen : data -> N.                         (* number of bytes *)
  Variable dsplit : N -> data -> data * data.        (* first n bytes, the rest *)
  Variable dapp : data -> data -> data.
  Variable dnil : data.
  Variable dlit : data -> option bytes.              (* the concrete bytes, unless opaque *)
  Variable oflit : bytes -> data.

  Context {key : Type}.
  Variable kdf : bytes -> bytes -> key.              (* derive_key password salt *)
  Variable enc : key -> bytes -> data -> data.       (* encrypt plaintext key nonce *)
  Variable dec : key -> bytes -> data -> option data. (* decrypt: None = Decryption error *)

  Variable chunk_size : N.                           (* CHUNK_SIZE *)

  (* Read::read_exact: n bytes or UnexpectedEof (None) *)
  Definition read_exact (n : N) (s : data) : option (data * data) :=
    if n <=? dlen s then Some (dsplit n s) else None.

  (* Read::read into a buffer of n bytes on a regular file: up to n bytes *)
  Definition read_upto (n : N) (s : data) : data * data :=
    dsplit (N.min n (dlen s)) s.

  (* validate_mv2_file *)
  Definition validate_mv2_file (f : data) : outcome unit :=
    match read_exact 4 f with
    | None => Err E_IO
    | Some (m, _) =>
        match dlit m with
        | None => Err E_OPAQUE
        | Some mb => if bytes_eqb mb MV2_MAGIC then Ok tt else Err E_NOTMV2
        end
    end.

  (* validate_mv2_bytes *)
  Definition validate_mv2_bytes (p : data) : outcome unit :=
    match read_exact 4 p with
    | None => Err E_CORRUPT
    | Some (m, _) =>
        match dlit m with
        | None => Err E_OPAQUE
        | Some mb => if bytes_eqb mb MV2_MAGIC then Ok tt else Err E_CORRUPT
        end
    end.

  (* the loop of lock_file_stream; [acc] is what has been written after the header *)
  Fixpoint lock_loop (fuel : nat) (k : key) (base : bytes) (idx : N) (rest acc : data)
    : outcome data :=
    match fuel with
    | O => Err E_FUEL
    | S fu =>
        let '(buf, rest') := read_upto chunk_size rest in
        if dlen buf =? 0 then Ok acc
        else
          let nonce := chunk_nonce base idx in
          let ct := enc k nonce buf in
          let chunk_len := dlen ct mod 2 ^ 32 in           (* ciphertext.len() as u32 *)
          lock_loop fu k base (idx + 1) rest'
                    (dapp acc (dapp (oflit (le_encode 4 chunk_len)) ct))
    end.

  (* lock_file_stream: salt and base nonce come from OsRng (inputs here); the result is
     the content handed to write_atomic *)
  Definition lock_file_stream (fuel : nat) (pw salt base : bytes) (f : data) : outcome data :=
    match validate_mv2_file f with
    | Err e => Err e
    | Panic s => Panic s
    | Ok _ =>
        let k := kdf pw salt in
        let h := mkHeader MV2E_MAGIC MV2E_VERSION KDF_ARGON2ID CIPHER_AES_256_GCM
                          salt base (dlen f) [1; 0; 0; 0] in
        lock_loop fuel k base 0 f (oflit (header_encode h))
    end.

  (* the loop of unlock_file_stream; [acc] is what has been written *)
  Fixpoint unlock_loop (fuel : nat) (k : key) (base : bytes) (idx : N) (s acc : data)
    : outcome data :=
    match fuel with
    | O => Err E_FUEL
    | S fu =>
        match read_exact 4 s with
        | None => Ok acc                                   (* UnexpectedEof => break *)
        | Some (lb, s1) =>
            match dlit lb with
            | None => Err E_OPAQUE
            | Some lbytes =>
                let chunk_len := le_decode lbytes in
                match read_exact chunk_len s1 with
                | None => Err E_IO                         (* reader.read_exact(&mut ciphertext)? *)
                | Some (ct, s2) =>
                    match dec k (chunk_nonce base idx) ct with
                    | None => Err E_DECRYPT
                    | Some p => unlock_loop fu k base (idx + 1) s2 (dapp acc p)
                    end
                end
            end
        end
    end.

  (* header read shared by unlock_file and unlock_file_stream *)
  Definition read_header (capsule : data) : outcome (header * data) :=
    match read_exact MV2E_HEADER_SIZE capsule with
    | None => Err E_IO
    | Some (hb, body) =>
        match dlit hb with
        | None => Err E_OPAQUE
        | Some hbytes =>
            match header_decode hbytes with
            | Ok h => Ok (h, body)
            | Err e => Err e
            | Panic s => Panic s
            end
        end
    end.

  Definition unlock_file_stream (fuel : nat) (pw : bytes) (capsule : data) : outcome data :=
    match read_header capsule with
    | Err e => Err e
    | Panic s => Panic s
    | Ok (h, body) =>
        let k := kdf pw (h_salt h) in
        unlock_loop fuel k (h_nonce h) 0 body dnil
    end.

  Definition unlock_file_oneshot (pw : bytes) (h : header) (body : data) : outcome data :=
    let k := kdf pw (h_salt h) in
    match dec k (h_nonce h) body with
    | None => Err E_DECRYPT
    | Some p =>
        if negb (dlen p =? h_size h) then Err E_SIZE
        else match validate_mv2_bytes p with
             | Ok _ => Ok p
             | Err e => Err e
             | Panic s => Panic s
             end
    end.

  (* unlock_file: decode the header, dispatch on reserved[0] *)
  Definition unlock_file (fuel : nat) (pw : bytes) (capsule : data) : outcome data :=
    match read_header capsule with
    | Err e => Err e
    | Panic s => Panic s
    | Ok (h, body) =>
        if nth 0 (h_reserved h) 0 =? 1 then unlock_file_stream fuel pw capsule
        else unlock_file_oneshot pw h body
    end.
End Capsule.

(* ------------------------------------------------------------------ *)
(* the instance the theorems are about: data = bytes *)
Definition blen (b : bytes) : N := N.of_nat (length b).
Definition bsplit (n : N) (b : bytes) : bytes * bytes :=
  (firstn (N.to_nat n) b, skipn (N.to_nat n) b).

Section ByteInstance.
  Context {key : Type}.
  Variable kdf : bytes -> bytes -> key.
  Variable enc : key -> bytes -> bytes -> bytes.
  Variable dec : key -> bytes -> bytes -> option bytes.
  Variable chunk_size : N.

  Definition b_read_exact := read_exact blen bsplit.
  Definition b_lock_loop := lock_loop blen bsplit (@app N) (fun b => b) enc chunk_size.
  Definition b_unlock_loop := unlock_loop blen bsplit (@app N) (@Some bytes) dec.

  (* fuel: one iteration per chunk / record, each consumes at least one byte *)
  Definition b_lock (pw salt base f : bytes) : outcome bytes :=
    lock_file_stream blen bsplit (@app N) (@Some bytes) (fun b => b) kdf enc chunk_size
                     (S (length f)) pw salt base f.
  Definition b_unlock_stream (pw capsule : bytes) : outcome bytes :=
    unlock_file_stream blen bsplit (@app N) [] (@Some bytes) kdf dec (S (length capsule)) pw capsule.
  Definition b_unlock (pw capsule : bytes) : outcome bytes :=
    unlock_file blen bsplit (@app N) [] (@Some bytes) kdf dec (S (length capsule)) pw capsule.

  (* lock_file / unlock_file with the destination file: previous content, new content *)
  Definition b_lock_fs (prev : option bytes) (pw salt base f : bytes) : option bytes :=
    write_atomic prev (b_lock pw salt base f).
  Definition b_unlock_fs (prev : option bytes) (pw capsule : bytes) : option bytes :=
    write_atomic prev (b_unlock pw capsule).
End ByteInstance.
