(* Model of src/search/parser.rs (Lexer, Parser, TextTerm::from_word, FieldTerm::from_pair,
   WildcardPattern) and src/search/mod.rs (Expr::evaluate and the term matchers).
   Strings are lists of Unicode code points (N).  Oracles (Section variables):
   alnum = char::is_alphanumeric, parse_date = parse_date_value (time crate).
   Executable definitions only. *)
From MV Require Import Base.Prelude.

Definition str := list N.

Definition str_eqb : str -> str -> bool := list_eqb N.eqb.

(* char::is_whitespace = Unicode White_Space *)
Definition is_ws (c : N) : bool :=
  ((9 <=? c) && (c <=? 13) || (c =? 32) || (c =? 133) || (c =? 160) || (c =? 5760)
   || (8192 <=? c) && (c <=? 8202) || (c =? 8232) || (c =? 8233) || (c =? 8239)
   || (c =? 8287) || (c =? 12288))%N.

(* to_ascii_lowercase *)
Definition lower_c (c : N) : N := if ((65 <=? c) && (c <=? 90))%N then (c + 32)%N else c.
Definition lower (s : str) : str := map lower_c s.

(* code points used by the grammar *)
Definition c_lparen : N := 40.   Definition c_rparen : N := 41.
Definition c_quote : N := 34.    Definition c_colon : N := 58.
Definition c_lbrack : N := 91.   Definition c_rbrack : N := 93.
Definition c_star : N := 42.     Definition c_qmark : N := 63.
Definition c_nl : N := 10.

(* ---------------------------------------------------------------- tokens *)
Inductive token :=
| TkWord (w : str)
| TkPhrase (p : str)
| TkField (f v : str)
| TkDate (f a b : str)
| TkLParen | TkRParen | TkAnd | TkOr | TkNot.

(* error kinds = the InvalidQuery reasons of parser.rs *)
Definition E_UNTERMINATED_QUOTE : N := 1.
Definition E_DATE_FORMAT : N := 2.
Definition E_UNTERMINATED_DATE : N := 3.
Definition E_EXPECTED_RPAREN : N := 4.
Definition E_UNEXPECTED_TOKEN : N := 5.
Definition E_UNEXPECTED_END : N := 6.
Definition E_UNSUPPORTED_FIELD : N := 7.
Definition E_DATE_FIELD : N := 8.
Definition E_TOO_DEEP : N := 9.
Definition OUT_OF_FUEL : N := 99.

(* const MAX_QUERY_DEPTH in parser.rs (tied to the regenerated Gen/Consts.v in QueryProofs.v) *)
Definition MAX_QUERY_DEPTH : nat := 64.

(* ---------------------------------------------------------------- lexer *)
(* the stop set of the two word scanners: whitespace, '(' , ')' *)
Definition is_break (c : N) : bool := (is_ws c || (c =? c_lparen) || (c =? c_rparen))%N.

(* `while let Some(ch) = peek() { if break {break}; index += 1 }` : (scanned, rest) *)
Fixpoint span_word (s : str) : str * str :=
  match s with
  | [] => ([], [])
  | c :: r => if is_break c then ([], s) else let (w, t) := span_word r in (c :: w, t)
  end.

(* scan up to the first q: Some (before, after-q) or None when q does not occur.
   Used for read_until_quote (q = the quote), read_date_range (q = the closing bracket) and for the first colon. *)
Fixpoint read_until (q : N) (s : str) : option (str * str) :=
  match s with
  | [] => None
  | c :: r => if (c =? q)%N then Some ([], r)
              else match read_until q r with
                   | Some (v, t) => Some (c :: v, t)
                   | None => None
                   end
  end.

(* str::split_whitespace *)
Fixpoint split_ws_go (cur : str) (s : str) : list str :=
  match s with
  | [] => match cur with [] => [] | _ => [rev cur] end
  | c :: r => if is_ws c
              then match cur with [] => split_ws_go [] r | _ => rev cur :: split_ws_go [] r end
              else split_ws_go (c :: cur) r
  end.
Definition split_ws (s : str) : list str := split_ws_go [] s.

Definition s_uri : str := [117; 114; 105]%N.
Definition s_scope : str := [115; 99; 111; 112; 101]%N.
Definition s_track : str := [116; 114; 97; 99; 107]%N.
Definition s_tag : str := [116; 97; 103]%N.
Definition s_label : str := [108; 97; 98; 101; 108]%N.
Definition s_date : str := [100; 97; 116; 101]%N.
Definition s_to : str := [116; 111]%N.
Definition KNOWN_FIELDS : list str := [s_uri; s_scope; s_track; s_tag; s_label; s_date].
Definition known_field (f : str) : bool := existsb (str_eqb f) KNOWN_FIELDS.

Definition s_AND : str := [65; 78; 68]%N.   Definition s_and : str := [97; 110; 100]%N.
Definition s_OR : str := [79; 82]%N.        Definition s_or : str := [111; 114]%N.
Definition s_NOT : str := [78; 79; 84]%N.   Definition s_not : str := [110; 111; 116]%N.

Definition word_token (w : str) : token :=
  if str_eqb w s_AND || str_eqb w s_and then TkAnd
  else if str_eqb w s_OR || str_eqb w s_or then TkOr
  else if str_eqb w s_NOT || str_eqb w s_not then TkNot
  else TkWord w.

(* read_date_range, after the '[' *)
Definition read_date_range (s : str) : outcome (str * str * str) :=
  match read_until c_rbrack s with
  | None => Err E_UNTERMINATED_DATE
  | Some (contents, rest) =>
      match split_ws contents with
      | [a; t; b] => if str_eqb (lower t) s_to then Ok (a, b, rest) else Err E_DATE_FORMAT
      | _ => Err E_DATE_FORMAT
      end
  end.

(* read_field: s is the input just after the colon, field already lower-cased *)
Definition read_field (field : str) (s : str) : outcome (option token * str) :=
  match s with
  | c :: r =>
      if (c =? c_quote)%N then
        match read_until c_quote r with
        | Some (v, t) => Ok (Some (TkField field v), t)
        | None => Err E_UNTERMINATED_QUOTE
        end
      else if (c =? c_lbrack)%N && str_eqb field s_date then
        match read_date_range r with
        | Ok (a, b, t) => Ok (Some (TkDate field a b), t)
        | Err k => Err k
        | Panic k => Panic k
        end
      else let (v, t) := span_word s in Ok (Some (TkField field v), t)
  | [] => Ok (Some (TkField field []), [])
  end.

(* read_field_or_word at the current position *)
Definition read_field_or_word (s : str) : outcome (option token * str) :=
  let (w, rest) := span_word s in
  let plain := match w with [] => Ok (None, rest) | _ => Ok (Some (word_token w), rest) end in
  match read_until c_colon w with
  | Some (pre, post) =>
      if known_field (lower pre) then read_field (lower pre) (post ++ rest)   (* index := colon + 1 *)
      else plain
  | None => plain
  end.

(* one iteration of the tokenize loop on a non-empty input *)
Definition lex_step (c : N) (r : str) : outcome (option token * str) :=
  if is_ws c then Ok (None, r)
  else if (c =? c_lparen)%N then Ok (Some TkLParen, r)
  else if (c =? c_rparen)%N then Ok (Some TkRParen, r)
  else if (c =? c_quote)%N then
    match read_until c_quote r with
    | Some (v, t) => Ok (Some (TkPhrase v), t)
    | None => Err E_UNTERMINATED_QUOTE
    end
  else read_field_or_word (c :: r).

Fixpoint tokenize (fuel : nat) (s : str) : outcome (list token) :=
  match s with
  | [] => Ok []
  | c :: r =>
      match fuel with
      | O => Panic OUT_OF_FUEL
      | S f =>
          match lex_step c r with
          | Ok (tok, rest) =>
              match tokenize f rest with
              | Ok ts => Ok (match tok with Some t => t :: ts | None => ts end)
              | Err k => Err k
              | Panic k => Panic k
              end
          | Err k => Err k
          | Panic k => Panic k
          end
      end
  end.

(* nesting weight of a query text: number of LParen tokens + number of Not tokens (0 when
   the lexer rejects the text: the parser is then never entered). *)
Definition count_tok (p : token -> bool) (ts : list token) : nat := length (filter p ts).
Definition is_lparen (t : token) : bool := match t with TkLParen => true | _ => false end.
Definition is_not (t : token) : bool := match t with TkNot => true | _ => false end.
Definition nest_weight (q : str) : nat :=
  match tokenize (length q) q with
  | Ok ts => count_tok is_lparen ts + count_tok is_not ts
  | _ => 0
  end.


(* ---------------------------------------------------------------- AST *)
Inductive term :=
| TWord (w : str)
| TPhrase (p : str)
| TWild (raw : str)
| TUri (v : str) | TScope (v : str) | TTrack (v : str) | TTag (v : str) | TLabel (v : str)
| TDate (a b : option Z).

Inductive expr :=
| EOr (l : list expr)
| EAnd (l : list expr)
| ENot (e : expr)
| ETerm (t : term).

(* trim helpers *)
Fixpoint drop_while (p : N -> bool) (s : str) : str :=
  match s with
  | [] => []
  | c :: r => if p c then drop_while p r else s
  end.
Definition trim_end (p : N -> bool) (s : str) : str := rev (drop_while p (rev s)).
Definition trim_both (p : N -> bool) (s : str) : str := trim_end p (drop_while p s).

Definition is_nil {A} (l : list A) : bool := match l with [] => true | _ => false end.

Section Oracles.
  Variable alnum : N -> bool.               (* char::is_alphanumeric *)
  Variable parse_date : str -> option Z.    (* parse_date_value *)

  Definition is_wild_c (c : N) : bool := ((c =? c_star) || (c =? c_qmark))%N.

  (* TextTerm::from_word *)
  Definition from_word (word : str) : term :=
    let lw := lower word in
    let trimmed := trim_end (fun c => (c =? c_qmark)%N) lw in
    let cleaned := trim_both (fun c => negb (alnum c) && negb (is_wild_c c)) trimmed in
    if existsb is_wild_c cleaned then TWild cleaned
    else if is_nil cleaned || negb (existsb alnum cleaned) then TWord []
    else TWord cleaned.

  (* FieldTerm::from_pair *)
  Definition from_pair (field value : str) : outcome term :=
    let normalized := lower (trim_both (fun c => (c =? c_quote)%N) value) in
    if str_eqb field s_uri then Ok (TUri normalized)
    else if str_eqb field s_scope then Ok (TScope normalized)
    else if str_eqb field s_track then Ok (TTrack normalized)
    else if str_eqb field s_tag then Ok (TTag normalized)
    else if str_eqb field s_label then Ok (TLabel normalized)
    else Err E_UNSUPPORTED_FIELD.

  (* FieldTerm::from_date_range *)
  Definition from_date_range (field a b : str) : outcome term :=
    if negb (str_eqb field s_date) then Err E_DATE_FIELD
    else Ok (TDate (parse_date a) (parse_date b)).

  (* `expr = match expr { Or(list) => push, _ => Or(vec![expr, rhs]) }` *)
  Definition push_or (e rhs : expr) : expr :=
    match e with EOr l => EOr (l ++ [rhs]) | _ => EOr [e; rhs] end.
  Definition push_and (e rhs : expr) : expr :=
    match e with EAnd l => EAnd (l ++ [rhs]) | _ => EAnd [e; rhs] end.

  (* ------------------------------------------------------------ parser
     Every function returns (result, depth): depth = number of nested Rust stack frames
     (parse_expression / parse_term / parse_factor / parse_primary) at the deepest point
     of the call, itself included; it is reported on the error paths too, because the
     stack is used on the way down.  The `while`/`loop` bodies are the *_loop functions;
     they are not Rust frames: their depth is the maximum over the calls they make.
     fuel bounds the nesting of the model's own calls (loops included).
     dep is Parser::depth at the time of the call.  The code keeps it in the struct
     (enter() increments, `self.depth -= 1` after the recursive call); since every Ok path
     undoes exactly its own increment and every Err aborts the whole parse, the value seen
     by a call is the number of enclosing '(' / NOT, which is what is passed down here. *)
  Definition enter_fails (dep : nat) : bool := Nat.ltb MAX_QUERY_DEPTH (S dep).
  Definition presult := (outcome (expr * list token) * nat)%type.

  Fixpoint parse_expression (fuel : nat) (dep : nat) (ts : list token) {struct fuel} : presult :=
    match fuel with
    | O => (Panic OUT_OF_FUEL, 0)
    | S f =>
        match parse_term f dep ts with
        | (Ok (e, r), d) => let (res, d') := expr_loop f dep e r in (res, S (Nat.max d d'))
        | (Err k, d) => (Err k, S d)
        | (Panic k, d) => (Panic k, S d)
        end
    end
  with expr_loop (fuel : nat) (dep : nat) (e : expr) (ts : list token) {struct fuel} : presult :=
    match fuel with
    | O => (Panic OUT_OF_FUEL, 0)
    | S f =>
        match ts with
        | TkOr :: r =>
            match parse_term f dep r with
            | (Ok (rhs, r'), d) => let (res, d') := expr_loop f dep (push_or e rhs) r' in (res, Nat.max d d')
            | (Err k, d) => (Err k, d)
            | (Panic k, d) => (Panic k, d)
            end
        | _ => (Ok (e, ts), 0)
        end
    end
  with parse_term (fuel : nat) (dep : nat) (ts : list token) {struct fuel} : presult :=
    match fuel with
    | O => (Panic OUT_OF_FUEL, 0)
    | S f =>
        match parse_factor f dep ts with
        | (Ok (e, r), d) => let (res, d') := term_loop f dep e r in (res, S (Nat.max d d'))
        | (Err k, d) => (Err k, S d)
        | (Panic k, d) => (Panic k, S d)
        end
    end
  with term_loop (fuel : nat) (dep : nat) (e : expr) (ts : list token) {struct fuel} : presult :=
    match fuel with
    | O => (Panic OUT_OF_FUEL, 0)
    | S f =>
        match ts with
        | TkAnd :: r =>
            match parse_factor f dep r with
            | (Ok (rhs, r'), d) => let (res, d') := term_loop f dep (push_and e rhs) r' in (res, Nat.max d d')
            | (Err k, d) => (Err k, d)
            | (Panic k, d) => (Panic k, d)
            end
        | TkOr :: _ => (Ok (e, ts), 0)
        | TkRParen :: _ => (Ok (e, ts), 0)
        | [] => (Ok (e, ts), 0)
        | _ =>   (* implicit AND *)
            match parse_factor f dep ts with
            | (Ok (rhs, r'), d) => let (res, d') := term_loop f dep (push_and e rhs) r' in (res, Nat.max d d')
            | (Err k, d) => (Err k, d)
            | (Panic k, d) => (Panic k, d)
            end
        end
    end
  with parse_factor (fuel : nat) (dep : nat) (ts : list token) {struct fuel} : presult :=
    match fuel with
    | O => (Panic OUT_OF_FUEL, 0)
    | S f =>
        match ts with
        | TkNot :: r =>
            if enter_fails dep then (Err E_TOO_DEEP, 1)            (* self.enter()? *)
            else
            match parse_factor f (S dep) r with
            | (Ok (inner, r'), d) => (Ok (ENot inner, r'), S d)    (* self.depth -= 1 *)
            | (Err k, d) => (Err k, S d)
            | (Panic k, d) => (Panic k, S d)
            end
        | _ => let (res, d) := parse_primary f dep ts in (res, S d)
        end
    end
  with parse_primary (fuel : nat) (dep : nat) (ts : list token) {struct fuel} : presult :=
    match fuel with
    | O => (Panic OUT_OF_FUEL, 0)
    | S f =>
        match ts with
        | TkLParen :: r =>
            if enter_fails dep then (Err E_TOO_DEEP, 1)            (* self.enter()? *)
            else
            match parse_expression f (S dep) r with
            | (Ok (e, r'), d) =>
                match r' with
                | TkRParen :: r'' => (Ok (e, r''), S d)
                | _ => (Err E_EXPECTED_RPAREN, S d)
                end
            | (Err k, d) => (Err k, S d)
            | (Panic k, d) => (Panic k, S d)
            end
        | TkWord w :: r => (Ok (ETerm (from_word w), r), 1)
        | TkPhrase p :: r => (Ok (ETerm (TPhrase (lower p)), r), 1)
        | TkField fld v :: r =>
            match from_pair fld v with
            | Ok t => (Ok (ETerm t, r), 1)
            | Err k => (Err k, 1)
            | Panic k => (Panic k, 1)
            end
        | TkDate fld a b :: r =>
            match from_date_range fld a b with
            | Ok t => (Ok (ETerm t, r), 1)
            | Err k => (Err k, 1)
            | Panic k => (Panic k, 1)
            end
        | _ :: _ => (Err E_UNEXPECTED_TOKEN, 1)
        | [] => (Err E_UNEXPECTED_END, 1)
        end
    end.

  (* fuel that always suffices (Proofs/QueryProofs.v: parser_inv, parse_query_total) *)
  Definition parser_fuel (ts : list token) : nat := 4 * length ts + 4.

  (* parse_query: (Ok AST | Err kind, stack depth of the parser).  Like the code it does
     not look at the tokens left over after the first complete expression. *)
  Definition parse_query (q : str) : outcome expr * nat :=
    match tokenize (length q) q with
    | Ok ts =>
        match parse_expression (parser_fuel ts) 0 ts with
        | (Ok (e, _), d) => (Ok e, d)
        | (Err k, d) => (Err k, d)
        | (Panic k, d) => (Panic k, d)
        end
    | Err k => (Err k, 0)
    | Panic k => (Panic k, 0)
    end.

  (* ------------------------------------------------------------ evaluation *)
  Record doc := mkDoc {
    d_uri : option str; d_track : option str; d_tags : list str; d_labels : list str;
    d_ts : Z; d_dates : list str; d_content : str   (* content_lower *)
  }.

  Fixpoint is_prefix (p s : str) : bool :=
    match p, s with
    | [], _ => true
    | a :: p', b :: s' => (a =? b)%N && is_prefix p' s'
    | _ :: _, [] => false
    end.

  (* str::contains *)
  Fixpoint contains (needle hay : str) : bool :=
    is_prefix needle hay || match hay with [] => false | _ :: t => contains needle t end.

  (* the regex built by WildcardPattern::new: anchored at both ends, star -> dot-star, qmark -> dot,
     anything else escaped (a literal); '.' does not match '\n' *)
  Fixpoint wild_match (p : str) (s : str) {struct p} : bool :=
    match p with
    | [] => is_nil s
    | c :: p' =>
        if (c =? c_star)%N then
          (fix star (s : str) : bool :=
             wild_match p' s ||
             match s with [] => false | x :: s' => negb (x =? c_nl)%N && star s' end) s
        else match s with
             | [] => false
             | x :: s' => (if (c =? c_qmark)%N then negb (x =? c_nl)%N else (x =? c)%N) && wild_match p' s'
             end
    end.

  Definition eq_ignore_case (a b : str) : bool := str_eqb (lower a) (lower b).

  Definition in_range (a b : option Z) (t : Z) : bool :=
    match a with Some s => negb (t <? s)%Z | None => true end &&
    match b with Some e => negb (e <? t)%Z | None => true end.

  Fixpoint filter_map {A B} (f : A -> option B) (l : list A) : list B :=
    match l with
    | [] => []
    | x :: r => match f x with Some y => y :: filter_map f r | None => filter_map f r end
    end.

  Definition date_candidates (d : doc) : list Z := d_ts d :: filter_map parse_date (d_dates d).

  Definition eval_term (t : term) (d : doc) : bool :=
    match t with
    | TWord w => contains (lower w) (d_content d)
    | TPhrase p => contains (lower p) (d_content d)
    | TWild raw => wild_match raw (d_content d)
    | TUri v => match d_uri d with Some u => eq_ignore_case u v | None => false end
    | TScope p => match d_uri d with Some u => is_prefix p u | None => false end
    | TTrack v => match d_track d with Some u => eq_ignore_case u v | None => false end
    | TTag v => existsb (fun x => eq_ignore_case x v) (d_tags d)
    | TLabel v => existsb (fun x => eq_ignore_case x v) (d_labels d)
    | TDate a b =>
        match a, b with
        | None, None => true
        | _, _ => existsb (in_range a b) (date_candidates d)
        end
    end.

  Fixpoint eval (e : expr) (d : doc) {struct e} : bool :=
    match e with
    | EOr l => existsb (fun c => eval c d) l
    | EAnd l => forallb (fun c => eval c d) l
    | ENot c => negb (eval c d)
    | ETerm t => eval_term t d
    end.

  (* evaluate_query hook: parse then evaluate *)
  Definition evaluate_query (q : str) (d : doc) : outcome bool :=
    match fst (parse_query q) with
    | Ok e => Ok (eval e d)
    | Err k => Err k
    | Panic k => Panic k
    end.

  (* ------------------------------------------------------------ printer (specification side)
     Precedence-directed: parentheses only where the grammar needs them.
     level 0 = expression (OR), 1 = term (AND), 2 = factor (NOT / primary). *)
  Definition term_token (t : term) : token :=
    match t with
    | TWord w => TkWord w
    | TPhrase p => TkPhrase p
    | TWild raw => TkWord raw
    | TUri v => TkField s_uri v
    | TScope v => TkField s_scope v
    | TTrack v => TkField s_track v
    | TTag v => TkField s_tag v
    | TLabel v => TkField s_label v
    | TDate _ _ => TkWord []   (* not printable: dates go through the oracle only *)
    end.

  (* explicit = true writes AND between conjuncts, false leaves it implicit *)
  Section Printer.
    Variable explicit : bool.

    Fixpoint sep_by (sep : list token) (l : list (list token)) : list token :=
      match l with
      | [] => []
      | [x] => x
      | x :: r => x ++ sep ++ sep_by sep r
      end.

    Fixpoint pr (lvl : nat) (e : expr) {struct e} : list token :=
      let paren (body : list token) := TkLParen :: body ++ [TkRParen] in
      match e with
      | EOr l =>
          let body := sep_by [TkOr] (map (pr 1) l) in
          match lvl with O => body | _ => paren body end
      | EAnd l =>
          let body := sep_by (if explicit then [TkAnd] else []) (map (pr 2) l) in
          match lvl with O | 1 => body | _ => paren body end
      | ENot c => TkNot :: pr 2 c
      | ETerm t => [term_token t]
      end.

    Definition print_tokens (e : expr) : list token := pr 0 e.
  End Printer.

  (* token -> text; every token is followed by one space *)
  Definition token_text (t : token) : str :=
    match t with
    | TkWord w => w
    | TkPhrase p => c_quote :: p ++ [c_quote]
    | TkField f v => f ++ c_colon :: c_quote :: v ++ [c_quote]
    | TkDate f a b => f ++ c_colon :: c_lbrack :: a ++ 32%N :: 84%N :: 79%N :: 32%N :: b ++ [c_rbrack]
    | TkLParen => [c_lparen]
    | TkRParen => [c_rparen]
    | TkAnd => s_AND
    | TkOr => s_OR
    | TkNot => s_NOT
    end.
  Fixpoint tokens_text (ts : list token) : str :=
    match ts with
    | [] => []
    | t :: r => token_text t ++ 32%N :: tokens_text r
    end.
  Definition print (explicit : bool) (e : expr) : str := tokens_text (print_tokens explicit e).
End Oracles.
