(* Model of src/types/adaptive.rs: find_adaptive_cutoff, its five strategy helpers and
   normalize_scores, following the Rust line by line.

   Generic over the score type: `F` with the operations the code uses, packed in a record
   `fops F` (comparison `<`, the four arithmetic operations, sqrt, abs, `usize as f32`,
   f32::max / f32::min, and the literals).  Nothing in this file knows what a float is; the
   binary32 instance (Flocq) is Model/AdaptiveF32.v.  `a > b` is modelled as `b < a` (the same
   relation in IEEE 754, false on NaN either way).

   Definitions only; proofs are in Proofs/AdaptiveProofs.v (generic, Flocq-free) and
   Proofs/AdaptiveF32Proofs.v (binary32). *)
From MV Require Import Base.Prelude.

Record fops (F : Type) : Type := mk_fops {
  f_ltb : F -> F -> bool;          (* a < b *)
  f_add : F -> F -> F;
  f_sub : F -> F -> F;
  f_mul : F -> F -> F;
  f_div : F -> F -> F;
  f_sqrt : F -> F;
  f_abs : F -> F;
  f_of_nat : nat -> F;             (* `i as f32` *)
  f_max : F -> F -> F;             (* f32::max *)
  f_min : F -> F -> F;             (* f32::min *)
  f_eps : F;                       (* f32::EPSILON *)
  f_one : F;                       (* 1.0 *)
  f_zero : F;                      (* 0.0 *)
  f_005 : F;                       (* 0.05 *)
  f_inf : F;                       (* f32::INFINITY *)
  f_neg_inf : F                    (* f32::NEG_INFINITY *)
}.
Arguments f_ltb {F} _ _ _.
Arguments f_add {F} _ _ _.
Arguments f_sub {F} _ _ _.
Arguments f_mul {F} _ _ _.
Arguments f_div {F} _ _ _.
Arguments f_sqrt {F} _ _.
Arguments f_abs {F} _ _.
Arguments f_of_nat {F} _ _.
Arguments f_max {F} _ _ _.
Arguments f_min {F} _ _ _.
Arguments f_eps {F} _.
Arguments f_one {F} _.
Arguments f_zero {F} _.
Arguments f_005 {F} _.
Arguments f_inf {F} _.
Arguments f_neg_inf {F} _.

(* CutoffStrategy *)
Inductive strategy (F : Type) : Type :=
| AbsoluteThreshold (min_score : F)
| RelativeThreshold (min_ratio : F)
| ScoreCliff (max_drop_ratio : F)
| Elbow (sensitivity : F)
| Combined (relative_threshold max_drop_ratio absolute_min : F).
Arguments AbsoluteThreshold {F} _.
Arguments RelativeThreshold {F} _.
Arguments ScoreCliff {F} _.
Arguments Elbow {F} _.
Arguments Combined {F} _ _ _.

(* AdaptiveConfig: `enabled` and `max_results` are not read by find_adaptive_cutoff.
   min_results is a usize, kept as N (it may be usize::MAX). *)
Record config (F : Type) : Type := mk_config {
  cfg_min_results : N;
  cfg_normalize : bool;
  cfg_strategy : strategy F
}.
Arguments mk_config {F} _ _ _.
Arguments cfg_min_results {F} _.
Arguments cfg_normalize {F} _.
Arguments cfg_strategy {F} _.

(* the `triggered_by` label, as a code (the percentage inside "score_cliff(..%)" is not modelled) *)
Definition T_NO_RESULTS : N := 0.
Definition T_MIN_RESULTS : N := 1.
Definition T_ABSOLUTE_THRESHOLD : N := 2.
Definition T_NO_CUTOFF : N := 3.
Definition T_SCORE_CLIFF : N := 4.
Definition T_TOO_FEW_POINTS : N := 5.
Definition T_FLAT_CURVE : N := 6.
Definition T_ELBOW_DETECTION : N := 7.
Definition T_NO_SIGNIFICANT_ELBOW : N := 8.
Definition T_ABSOLUTE_MIN : N := 9.
Definition T_RELATIVE_THRESHOLD : N := 10.

Definition SITE_NORMALIZED_0 : N := 1.   (* `normalized[0]` *)

Section Model.
  Context {F : Type} (O : fops F).

  Definition ltb := f_ltb O.
  Definition gtb (a b : F) : bool := f_ltb O b a.

  (* ---- normalize_scores ----
       let max_score = scores.iter().copied().fold(f32::NEG_INFINITY, f32::max);
       let min_score = scores.iter().copied().fold(f32::INFINITY, f32::min);
       let range = max_score - min_score;
       if range < f32::EPSILON { return vec![1.0; scores.len()]; }
       scores.iter().map(|s| (s - min_score) / range).collect()                      *)
  Definition max_score (scores : list F) : F := fold_left (f_max O) scores (f_neg_inf O).
  Definition min_score (scores : list F) : F := fold_left (f_min O) scores (f_inf O).
  Definition score_range (scores : list F) : F := f_sub O (max_score scores) (min_score scores).

  Definition normalize_scores (scores : list F) : list F :=
    match scores with
    | [] => []
    | _ =>
        let mn := min_score scores in
        let range := score_range scores in
        if ltb range (f_eps O) then repeat (f_one O) (length scores)
        else map (fun s => f_div O (f_sub O s mn) range) scores
    end.

  (* ---- find_absolute_cutoff ----
       for (i, &score) in scores.iter().enumerate() {
           if score < min_score && i >= min_results { return (i, "absolute_threshold") } }
       (scores.len(), "no_cutoff")                                                     *)
  Fixpoint abs_loop (thr : F) (m i : nat) (l : list F) : option nat :=
    match l with
    | [] => None
    | score :: r => if ltb score thr && (m <=? i)%nat then Some i else abs_loop thr m (S i) r
    end.

  Definition find_absolute_cutoff (scores : list F) (thr : F) (m : nat) : nat * N :=
    match abs_loop thr m 0 scores with
    | Some i => (i, T_ABSOLUTE_THRESHOLD)
    | None => (length scores, T_NO_CUTOFF)
    end.

  (* ---- the cliff test shared by find_cliff_cutoff and find_combined_cutoff ----
       if prev > f32::EPSILON { let drop_ratio = (prev - curr) / prev;
                                if drop_ratio > max_drop_ratio { return .. } }           *)
  Definition is_cliff (max_drop prev curr : F) : bool :=
    if gtb prev (f_eps O) then gtb (f_div O (f_sub O prev curr) prev) max_drop else false.

  (* ---- find_cliff_cutoff ----
       for i in 1..scores.len() { if i < min_results { continue; }
           let prev = scores[i-1]; let curr = scores[i]; <cliff test> -> return (i, "score_cliff(..)") }
       (scores.len(), "no_cutoff")
     the loop below runs over scores[1..] carrying prev = scores[i-1]                   *)
  Fixpoint cliff_loop (max_drop : F) (m i : nat) (prev : F) (l : list F) : option nat :=
    match l with
    | [] => None
    | curr :: r =>
        if (i <? m)%nat then cliff_loop max_drop m (S i) curr r
        else if is_cliff max_drop prev curr then Some i
        else cliff_loop max_drop m (S i) curr r
    end.

  Definition find_cliff_cutoff (scores : list F) (max_drop : F) (m : nat) : nat * N :=
    match scores with
    | [] => (0%nat, T_NO_CUTOFF)
    | s0 :: r =>
        match cliff_loop max_drop m 1 s0 r with
        | Some i => (i, T_SCORE_CLIFF)
        | None => (length scores, T_NO_CUTOFF)
        end
    end.

  (* ---- find_combined_cutoff ----
       let relative_min = top_score * relative_threshold;
       for i in 0..scores.len() { if i < min_results { continue; }
           let score = scores[i];
           if score < absolute_min { return (i, "absolute_min") }
           if score < relative_min { return (i, "relative_threshold") }
           if i > 0 { let prev = scores[i-1]; <cliff test> -> return (i, "score_cliff(..)") } }
       (scores.len(), "no_cutoff")
     prev = None exactly when i = 0                                                      *)
  Fixpoint comb_loop (relative_min max_drop absolute_min : F) (m i : nat) (prev : option F)
           (l : list F) : option (nat * N) :=
    match l with
    | [] => None
    | score :: r =>
        if (i <? m)%nat then comb_loop relative_min max_drop absolute_min m (S i) (Some score) r
        else if ltb score absolute_min then Some (i, T_ABSOLUTE_MIN)
        else if ltb score relative_min then Some (i, T_RELATIVE_THRESHOLD)
        else if match prev with Some p => is_cliff max_drop p score | None => false end
             then Some (i, T_SCORE_CLIFF)
        else comb_loop relative_min max_drop absolute_min m (S i) (Some score) r
    end.

  Definition find_combined_cutoff (scores : list F) (top_score relative_threshold max_drop absolute_min : F)
             (m : nat) : nat * N :=
    let relative_min := f_mul O top_score relative_threshold in
    match comb_loop relative_min max_drop absolute_min m 0 None scores with
    | Some r => r
    | None => (length scores, T_NO_CUTOFF)
    end.

  (* ---- find_elbow_cutoff ----
       if scores.len() < 3 { return (scores.len(), "too_few_points") }
       let n = scores.len();
       let x_norm: Vec<f32> = (0..n).map(|i| i as f32 / (n - 1) as f32).collect();
       let mut max_distance = 0.0f32; let mut elbow_index = min_results;
       let x1 = x_norm[0]; let y1 = y_norm[0]; let x2 = x_norm[n-1]; let y2 = y_norm[n-1];
       let line_len = ((x2 - x1).powi(2) + (y2 - y1).powi(2)).sqrt();
       if line_len < f32::EPSILON { return (scores.len(), "flat_curve") }
       for i in min_results..n-1 {
           let x0 = x_norm[i]; let y0 = y_norm[i];
           let distance = ((y2-y1)*x0 - (x2-x1)*y0 + x2*y1 - y2*x1).abs() / line_len;
           let adjusted_distance = distance * (1.0 + sensitivity * (1.0 - x_norm[i]));
           if adjusted_distance > max_distance { max_distance = adjusted_distance; elbow_index = i; } }
       if max_distance > 0.05 * sensitivity { (elbow_index + 1, "elbow_detection") }
       else { (scores.len(), "no_significant_elbow") }
     powi(2) is x*x (compiler-rt's __powisf2 for exponent 2 computes 1*(x*x); LLVM folds it to x*x). *)
  Definition x_norm (n i : nat) : F := f_div O (f_of_nat O i) (f_of_nat O (n - 1)).
  Definition sq (x : F) : F := f_mul O x x.

  (* loop body for i, i+1, ... over the remaining y values; cnt = iterations left *)
  Fixpoint elbow_loop (n : nat) (sens x1 y1 x2 y2 line_len : F) (cnt i : nat) (l : list F)
           (max_distance : F) (elbow_index : nat) : F * nat :=
    match cnt, l with
    | S c, y0 :: r =>
        let x0 := x_norm n i in
        let num := f_sub O (f_add O (f_sub O (f_mul O (f_sub O y2 y1) x0) (f_mul O (f_sub O x2 x1) y0))
                                    (f_mul O x2 y1))
                           (f_mul O y2 x1) in
        let distance := f_div O (f_abs O num) line_len in
        let adjusted := f_mul O distance
                              (f_add O (f_one O) (f_mul O sens (f_sub O (f_one O) x0))) in   (* x_norm[i] = x0 *)
        if gtb adjusted max_distance
        then elbow_loop n sens x1 y1 x2 y2 line_len c (S i) r adjusted i
        else elbow_loop n sens x1 y1 x2 y2 line_len c (S i) r max_distance elbow_index
    | _, _ => (max_distance, elbow_index)
    end.

  Definition find_elbow_cutoff (scores : list F) (sens : F) (m : nat) : nat * N :=
    let n := length scores in
    if (n <? 3)%nat then (n, T_TOO_FEW_POINTS) else
    let x1 := x_norm n 0 in
    let y1 := nth 0 scores (f_zero O) in
    let x2 := x_norm n (n - 1) in
    let y2 := nth (n - 1) scores (f_zero O) in
    let line_len := f_sqrt O (f_add O (sq (f_sub O x2 x1)) (sq (f_sub O y2 y1))) in
    if ltb line_len (f_eps O) then (n, T_FLAT_CURVE) else
    let '(max_distance, elbow_index) :=
      elbow_loop n sens x1 y1 x2 y2 line_len (n - 1 - m) m (skipn m scores) (f_zero O) m in
    if gtb max_distance (f_mul O (f_005 O) sens) then (S elbow_index, T_ELBOW_DETECTION)
    else (n, T_NO_SIGNIFICANT_ELBOW).

  (* ---- find_adaptive_cutoff ---- *)
  (* the scores the strategy sees *)
  Definition normalized_of (scores : list F) (cfg : config F) : list F :=
    if cfg_normalize cfg then normalize_scores scores else scores.

  (* the threshold of the two threshold strategies, as the code computes it *)
  Definition threshold_of (normalized : list F) (s : strategy F) : option F :=
    match s with
    | AbsoluteThreshold t => Some t
    | RelativeThreshold ratio => Some (f_mul O (nth 0 normalized (f_zero O)) ratio)
    | _ => None
    end.

  Definition find_adaptive_cutoff (scores : list F) (cfg : config F) : outcome (nat * N) :=
    let n := length scores in
    match scores with
    | [] => Ok (0%nat, T_NO_RESULTS)
    | _ =>
        if (N.of_nat n <=? cfg_min_results cfg)%N then Ok (n, T_MIN_RESULTS) else
        let m := N.to_nat (cfg_min_results cfg) in      (* < n from here on *)
        let normalized := normalized_of scores cfg in
        match normalized with
        | [] => Panic SITE_NORMALIZED_0                  (* normalized[0] *)
        | top_score :: _ =>
            Ok match cfg_strategy cfg with
               | AbsoluteThreshold min_score => find_absolute_cutoff normalized min_score m
               | RelativeThreshold min_ratio =>
                   find_absolute_cutoff normalized (f_mul O top_score min_ratio) m
               | ScoreCliff max_drop => find_cliff_cutoff normalized max_drop m
               | Elbow sens => find_elbow_cutoff normalized sens m
               | Combined rel drop absmin => find_combined_cutoff normalized top_score rel drop absmin m
               end
        end
    end.
End Model.
