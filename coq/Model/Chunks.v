(* Model of src/memvid/chunks.rs : build_chunk_manifest, choose_chunk_boundary,
   slice_text_range, plan_naive_chunks and the dispatch of plan_text_chunks.
   Definitions only.  A text is the list of its characters (what `text.char_indices()`
   yields); the character tests the code uses (`== '\n'`, is_sentence_terminal,
   char::is_whitespace) are Section variables, instantiated for code points at the end. *)
From MV Require Import Base.Prelude.

Definition range := (nat * nat)%type.   (* TextChunkRange { start, end } in characters *)

Section ChunkPlan.
  Context {A : Type}.
  Variable is_nl : A -> bool.      (* ch == '\n' *)
  Variable is_term : A -> bool.    (* is_sentence_terminal(ch): '.' | '!' | '?' *)
  Variable is_ws : A -> bool.      (* ch.is_whitespace() *)

  (* for idx in target..forward_limit {
       if ch == '\n' { return idx + 1; }
       if is_sentence_terminal(ch) { candidates.push(idx + 1); } }
     l = chars[target..forward_limit], idx = index of the head of l.
     inl e = early return e ; inr c = loop ran to its end with candidates c *)
  Fixpoint fwd_terms (l : list A) (idx : nat) (cands : list nat) : nat + list nat :=
    match l with
    | [] => inr cands
    | ch :: r =>
        if is_nl ch then inl (idx + 1)
        else if is_term ch then fwd_terms r (S idx) (cands ++ [idx + 1])
        else fwd_terms r (S idx) cands
    end.

  (* for idx in (start..target).rev() {
       if ch == '\n' { return idx + 1; }
       if is_sentence_terminal(ch) { candidates.push(idx + 1); break; } }
     l = rev chars[start..target], pos = idx + 1 for the head of l *)
  Fixpoint bwd_terms (l : list A) (pos : nat) (cands : list nat) : nat + list nat :=
    match l with
    | [] => inr cands
    | ch :: r =>
        if is_nl ch then inl pos
        else if is_term ch then inr (cands ++ [pos])
        else bwd_terms r (pos - 1) cands
    end.

  (* Iterator::min_by_key : the FIRST element with the least key
     (reduce with `match cmp(kx, ky) { Greater => y, _ => x }`) *)
  Definition min_by_key (key : nat -> nat) (l : list nat) : option nat :=
    match l with
    | [] => None
    | x :: r => Some (fold_left (fun best y => if key y <? key best then y else best) r x)
    end.

  (* for idx in target..forward_limit { if is_whitespace { return idx + 1; } } *)
  Fixpoint fwd_ws (l : list A) (idx : nat) : option nat :=
    match l with
    | [] => None
    | ch :: r => if is_ws ch then Some (idx + 1) else fwd_ws r (S idx)
    end.

  (* for idx in (start..target).rev() { if is_whitespace { return idx + 1; } } *)
  Fixpoint bwd_ws (l : list A) (pos : nat) : option nat :=
    match l with
    | [] => None
    | ch :: r => if is_ws ch then Some pos else bwd_ws r (pos - 1)
    end.

  (* chars = the characters of the text (the Rust vector has one more sentinel entry at
     index total, never read).  Panic 1 = `chars[idx]` out of range. *)
  Definition choose_chunk_boundary (chars : list A) (start target total slack : nat) : outcome nat :=
    if total <=? target then Ok total
    else
      let forward_limit := Nat.min (target + slack) total in
      if length chars <? forward_limit then Panic 1
      else
        let fwd := slice chars target (forward_limit - target) in
        let bwd := rev (slice chars start (target - start)) in
        match fwd_terms fwd target [] with
        | inl e => Ok e
        | inr c1 =>
            match bwd_terms bwd target c1 with
            | inl e => Ok e
            | inr c2 =>
                (* .min_by_key(|pos| pos.saturating_sub(target)) ; nat `-` saturates *)
                match min_by_key (fun pos => pos - target) c2 with
                | Some choice => Ok choice
                | None =>
                    match fwd_ws fwd target with
                    | Some e => Ok e
                    | None =>
                        match bwd_ws bwd target with
                        | Some e => Ok e
                        | None => Ok target
                        end
                    end
                end
            end
        end.

  (* while start < total_chars { ... } ; Err 0 = out of fuel (excluded by the theorems) *)
  Fixpoint manifest_loop (fuel : nat) (chars : list A) (total chunk_chars slack start : nat)
    : outcome (list range) :=
    if start <? total then
      match fuel with
      | O => Err 0
      | S f =>
          let target := Nat.min (start + chunk_chars) total in
          match choose_chunk_boundary chars start target total slack with
          | Ok e =>
              if e <=? start then
                (* fallback: progress by at least one character *)
                let fallback_end := Nat.min (start + chunk_chars) total in
                match manifest_loop f chars total chunk_chars slack fallback_end with
                | Ok rs => Ok ((start, fallback_end) :: rs)
                | o => o
                end
              else
                match manifest_loop f chars total chunk_chars slack e with
                | Ok rs => Ok ((start, e) :: rs)
                | o => o
                end
          | Err k => Err k
          | Panic s => Panic s
          end
      end
    else Ok [].

  Definition chunk_slack (chunk_chars : nat) : nat := Nat.max (chunk_chars / 5) 32.

  (* Ok None = the Rust `None` *)
  Definition build_chunk_manifest (text : list A) (chunk_chars : nat) : outcome (option (list range)) :=
    if chunk_chars =? 0 then Ok None
    else
      let total_chars := length text in
      if total_chars <=? chunk_chars then Ok None
      else
        match manifest_loop total_chars text total_chars chunk_chars (chunk_slack chunk_chars) 0 with
        | Ok rs => Ok (Some rs)
        | Err k => Err k
        | Panic s => Panic s
        end.

  Definition slice_text_range (text : list A) (r : range) : list A :=
    let '(s, e) := r in
    if e <=? s then [] else firstn (e - s) (skipn s text).

  Definition DEFAULT_CHUNK_CHARS : nat := 1200.
  Definition CHUNK_MIN_CHARS : nat := DEFAULT_CHUNK_CHARS * 2.

  (* (manifest.chunk_chars, manifest.chunks, chunks) *)
  Definition plan := (nat * list range * list (list A))%type.

  Definition plan_naive_chunks (text : list A) : outcome (option plan) :=
    match build_chunk_manifest text DEFAULT_CHUNK_CHARS with
    | Ok None => Ok None
    | Ok (Some rs) =>
        if length rs <=? 1 then Ok None
        else Ok (Some (DEFAULT_CHUNK_CHARS, rs, map (slice_text_range text) rs))
    | Err k => Err k
    | Panic s => Panic s
    end.

  (* plan_text_chunks after `normalize_text(text, usize::MAX)?` : `normalized` is the
     normalizer's output (None when it returned None); `has_structure` and the structural
     plan come from detect_structure / the structural chunker (oracles here). *)
  Definition plan_text_chunks (normalized : option (list A)) (has_structure : bool)
             (structural : outcome (option plan)) : outcome (option plan) :=
    match normalized with
    | None => Ok None
    | Some t =>
        if length t <? CHUNK_MIN_CHARS then Ok None
        else if has_structure then structural
        else plan_naive_chunks t
    end.

  (* ---- what "the ranges partition the text" means ---- *)
  Definition is_partition (rs : list range) (total : nat) : Prop :=
    rs <> [] /\
    fst (hd (0, 0) rs) = 0 /\
    snd (last rs (0, 0)) = total /\
    (forall i, S i < length rs -> snd (nth i rs (0, 0)) = fst (nth (S i) rs (0, 0))) /\
    (forall r, In r rs -> fst r < snd r).
End ChunkPlan.

(* ---- instantiation for Unicode code points ---- *)
Local Open Scope N_scope.
Definition cp_is_nl (c : N) : bool := c =? 10.
Definition cp_is_term (c : N) : bool := (c =? 46) || (c =? 33) || (c =? 63).
(* char::is_whitespace = Unicode White_Space *)
Definition cp_is_ws (c : N) : bool :=
  ((9 <=? c) && (c <=? 13)) || (c =? 32) || (c =? 133) || (c =? 160) || (c =? 5760) ||
  ((8192 <=? c) && (c <=? 8202)) || (c =? 8232) || (c =? 8233) || (c =? 8239) ||
  (c =? 8287) || (c =? 12288).

Definition cp_build_chunk_manifest := build_chunk_manifest cp_is_nl cp_is_term cp_is_ws.
Definition cp_plan_text_chunks := plan_text_chunks cp_is_nl cp_is_term cp_is_ws.
