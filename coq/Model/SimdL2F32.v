(* The kernel of Model/SimdL2.v at IEEE binary32 -- what src/simd.rs computes.
   Floats are Flocq's BinarySingleNaN.binary_float 24 128: signed zeros, infinities,
   subnormals and round-to-nearest-even exactly as IEEE 754; ONE NaN (sign and payload
   of NaNs are not modelled: the correspondence maps every NaN to 0x7fc00000 on both sides). *)
From Coq Require Import ZArith List.
From Flocq Require Import Core.Core IEEE754.BinarySingleNaN.
From Flocq Require IEEE754.Binary IEEE754.Bits.
From MV Require Import Base.Prelude Model.SimdL2.

Definition f32 : Type := binary_float 24 128.

#[global] Instance Hprec32 : FLX.Prec_gt_0 24.
Proof. reflexivity. Qed.
#[global] Instance Hemax32 : Prec_lt_emax 24 128.
Proof. reflexivity. Qed.

Definition f32_pzero : f32 := B754_zero false.       (* +0.0 *)
Definition f32_nzero : f32 := B754_zero true.        (* -0.0: what <f32 as Sum>::sum folds from *)
Definition f32_add : f32 -> f32 -> f32 := Bplus mode_NE.
Definition f32_sub : f32 -> f32 -> f32 := Bminus mode_NE.
Definition f32_mul : f32 -> f32 -> f32 := Bmult mode_NE.
Definition f32_sqrt : f32 -> f32 := Bsqrt mode_NE.

Definition f32_l2sq_body : list f32 -> list f32 -> f32 :=
  l2sq_body f32 f32_pzero f32_nzero f32_add f32_sub f32_mul.
Definition f32_l2_distance_squared_simd : list f32 -> list f32 -> outcome f32 :=
  l2_distance_squared_simd f32 f32_pzero f32_nzero f32_add f32_sub f32_mul.
Definition f32_l2_distance_simd : list f32 -> list f32 -> outcome f32 :=
  l2_distance_simd f32 f32_pzero f32_nzero f32_add f32_sub f32_mul f32_sqrt.
Definition f32_l2sq_scalar : list f32 -> list f32 -> f32 :=
  l2sq_scalar f32 f32_nzero f32_add f32_sub f32_mul.
Definition f32_l2_scalar : list f32 -> list f32 -> f32 :=
  l2_scalar f32 f32_nzero f32_add f32_sub f32_mul f32_sqrt.

(* ---- u32 bit patterns <-> f32 (f32::from_bits / to_bits, NaNs canonicalised) ---- *)
Definition f32_of_bits (n : N) : f32 := Binary.B2BSN 24 128 (Bits.b32_of_bits (Z.of_N n)).

Definition f32_to_bits (x : f32) : N :=
  match x with
  | B754_zero s => Z.to_N (Bits.join_bits 23 8 s 0 0)
  | B754_infinity s => Z.to_N (Bits.join_bits 23 8 s 0 255)
  | B754_nan => 2143289344%N                                   (* 0x7fc00000 *)
  | B754_finite s m e _ =>
      let mm := (Zpos m - 8388608)%Z in                        (* m - 2^23 *)
      if Z.leb 0 mm then Z.to_N (Bits.join_bits 23 8 s mm (e + 150))   (* normal: biased exponent e - emin + 1 *)
      else Z.to_N (Bits.join_bits 23 8 s (Zpos m) 0)           (* subnormal *)
  end.
