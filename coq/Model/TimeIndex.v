(* Model of src/io/time_index.rs: append_track, read_track, calculate_checksum.
   An entry is (timestamp : i64 as Z, frame_id : u64 as N).  The writer / reader is a byte
   store with a position; BLAKE3 is a Section variable. *)
From MV Require Import Base.Prelude.
Local Open Scope N_scope.

Definition TIME_INDEX_MAGIC : bytes := [77; 86; 84; 73].   (* "MVTI" *)
Definition TI_HEADER_LEN : N := 12.                         (* 4 + 8 *)
Definition TI_ENTRY_LEN : N := 16.                          (* size_of::<i64>() + size_of::<u64>() *)

Definition entry := (Z * N)%type.

Definition entry_wf (e : entry) : bool :=
  (- 2 ^ 63 <=? fst e)%Z && (fst e <? 2 ^ 63)%Z && (snd e <? 2 ^ 64).

(* i64::to_le_bytes / from_le_bytes: two's complement *)
Definition i64_to_u64 (z : Z) : N := Z.to_N (z mod 2 ^ 64).
Definition u64_to_i64 (u : N) : Z := if u <? 2 ^ 63 then Z.of_N u else (Z.of_N u - 2 ^ 64)%Z.

Definition entry_bytes (e : entry) : bytes := le_encode 8 (i64_to_u64 (fst e)) ++ le_encode 8 (snd e).

(* the sort key (timestamp, frame_id), compared as a tuple *)
Definition entry_leb (a b : entry) : bool :=
  (fst a <? fst b)%Z || ((fst a =? fst b)%Z && (snd a <=? snd b)).
Definition entry_ltb (a b : entry) : bool :=
  (fst a <? fst b)%Z || ((fst a =? fst b)%Z && (snd a <? snd b)).

(* entries.sort_by_key(|e| (e.timestamp, e.frame_id)): a stable sort; the key is the whole
   entry, so the result is the one sorted permutation (Proofs: sort_entries_unique).
   Written here as insertion sort. *)
Fixpoint insert_entry (e : entry) (l : list entry) : list entry :=
  match l with
  | [] => [e]
  | x :: r => if entry_leb e x then e :: l else x :: insert_entry e r
  end.
Definition sort_entries (l : list entry) : list entry := fold_right insert_entry [] l.

Fixpoint sortedb (l : list entry) : bool :=
  match l with
  | [] => true
  | a :: r => match r with [] => true | b :: _ => entry_leb a b && sortedb r end
  end.

(* the track image: magic, count, entries *)
Definition track_image (sorted : list entry) : bytes :=
  TIME_INDEX_MAGIC ++ le_encode 8 (N.of_nat (length sorted)) ++ flat_map entry_bytes sorted.

(* a seekable byte store: write_all at `pos` overwrites, zero-fills a gap, extends *)
Definition write_at (file : bytes) (pos : nat) (data : bytes) : bytes :=
  firstn pos (file ++ repeat 0 (pos - length file)) ++ data ++ skipn (pos + length data) file.

(* error kinds = `reason` of MemvidError::InvalidTimeIndex; 9 = I/O (read_exact hit EOF) *)
Definition E_TI_MAGIC : N := 1.     (* "magic mismatch" *)
Definition E_TI_SHORT : N := 2.     (* "length shorter than header" *)
Definition E_TI_OVERFLOW : N := 3.  (* "entry count overflow" *)
Definition E_TI_LENGTH : N := 4.    (* "length does not match declared count" *)
Definition E_TI_UNSORTED : N := 5.  (* "entries not sorted" *)
Definition E_TI_IO : N := 9.
Definition E_TI_TOO_LARGE : N := 6. (* "entry count too large": entries.try_reserve_exact(count) failed *)
Definition P_TI_CAPACITY : N := 1.  (* before b6c8721: Vec::with_capacity(count) panicked here; no longer produced *)

(* the read loop: `count` iterations, each read_exact 8 + 8 bytes, then the order check
   against the previous entry.  Fuel = number of bytes left (each step consumes 16). *)
Fixpoint read_entries (fuel : nat) (bs : bytes) (count : N) (prev : option entry) : outcome (list entry) :=
  if count =? 0 then Ok []
  else match fuel with
       | O => Err E_TI_IO
       | S f =>
           let chunk := firstn 16 bs in
           if negb (Nat.eqb (length chunk) 16) then Err E_TI_IO
           else
             let e : entry := (u64_to_i64 (le_decode (firstn 8 chunk)), le_decode (skipn 8 chunk)) in
             let bad := match prev with
                        | Some p => (fst e <? fst p)%Z || ((fst e =? fst p)%Z && (snd e <? snd p))
                        | None => false
                        end in
             if bad then Err E_TI_UNSORTED
             else match read_entries f (skipn 16 bs) (count - 1) (Some e) with
                  | Ok l => Ok (e :: l)
                  | Err k => Err k
                  | Panic s => Panic s
                  end
       end.

Definition read_track (file : bytes) (offset : nat) (length_arg : N) : outcome (list entry) :=
  let avail := skipn offset file in
  if Nat.ltb (length avail) 4 then Err E_TI_IO
  else if negb (bytes_eqb (firstn 4 avail) TIME_INDEX_MAGIC) then Err E_TI_MAGIC
  else if Nat.ltb (length avail) 12 then Err E_TI_IO
  else
    let count := le_decode (slice avail 4 8) in
    if length_arg <? TI_HEADER_LEN then Err E_TI_SHORT
    else
      let payload_bytes := length_arg - TI_HEADER_LEN in
      if 2 ^ 64 <=? count * TI_ENTRY_LEN then Err E_TI_OVERFLOW          (* checked_mul *)
      else if negb (payload_bytes =? count * TI_ENTRY_LEN) then Err E_TI_LENGTH
      (* usize::try_from(count) cannot fail on a 64-bit target ("entry count overflow" again if it did);
         try_reserve_exact(count): CapacityOverflow above isize::MAX bytes -> Err.  Below that the
         reservation is taken to succeed (an allocator refusal would be the same Err, never a panic). *)
      else if 2 ^ 63 <=? count * TI_ENTRY_LEN then Err E_TI_TOO_LARGE
      else read_entries (length avail) (skipn 12 avail) count None.

(* the inputs answered "entry count too large" (before the repair b6c8721: the inputs on which
   read_track panicked): a track header whose count needs more than isize::MAX bytes, presented
   with the matching length *)
Definition ti_capacity_class (file : bytes) (offset : nat) (length_arg : N) : bool :=
  let avail := skipn offset file in
  Nat.leb 12 (length avail) && bytes_eqb (firstn 4 avail) TIME_INDEX_MAGIC &&
  (let count := le_decode (slice avail 4 8) in
   (TI_HEADER_LEN <=? length_arg) && (count * TI_ENTRY_LEN <? 2 ^ 64) &&
   (length_arg - TI_HEADER_LEN =? count * TI_ENTRY_LEN) && (2 ^ 63 <=? count * TI_ENTRY_LEN)).

Section Checksum.
  Variable H : bytes -> bytes.

  (* append_track: returns (offset, length, checksum) and the store afterwards; the slice is
     sorted in place (third component = the caller's slice afterwards) *)
  Definition append_track (file : bytes) (pos : nat) (entries : list entry)
    : (N * N * bytes) * bytes * list entry :=
    let sorted := sort_entries entries in
    let img := track_image sorted in
    ((N.of_nat pos, N.of_nat (length img), H img), write_at file pos img, sorted).

  Definition calculate_checksum (entries : list entry) : bytes := H (track_image (sort_entries entries)).
End Checksum.
