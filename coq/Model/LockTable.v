(* C17: the advisory-lock protocol of Memvid handles, at the level of inodes and open file
   descriptions.  Executable definitions only; proofs are in Proofs/LockTableProofs.v.

   flock(2) semantics used (the OS oracle of DESIGN section 4):
     - a lock belongs to an OPEN FILE DESCRIPTION (what open() creates; dup/try_clone adds a
       descriptor to the same description and shares its lock);
     - an exclusive lock conflicts with every lock of every OTHER description on the same inode,
       a shared one with exclusive ones;
     - it is released by an explicit unlock or when the LAST descriptor of the description closes;
     - locks are per INODE: rename(2) changes which inode a path names and touches no lock.

   Rust followed (src/lock.rs, src/memvid/lifecycle.rs, src/memvid/mutation.rs, src/lib.rs):
     FileLock::open_and_lock     file = open(path); clone = file.try_clone(); lock_with_retry(clone, Ex)
     FileLock::lock_with_retry   up to 201 rounds of try_lock_exclusive, 50 ms apart, then Err(Lock)
     FileLock::try_acquire       clone = open(path) (a SECOND description); one try_lock_exclusive
     FileLock::drop              unlock, then the descriptor closes
     Memvid::create              open(path, create+truncate)  -- before any lock --  then open_and_lock
     Memvid::open                open_and_lock; open_locked (reads TOC; recover_wal replays pending log
                                 records through with_staging_lock, i.e. with a rename, since fix 'log replay on open is staged')
     Memvid::try_open            open(path); try_acquire; open_locked          (doctor)
     Memvid::commit              nothing to do unless log records / dirty / tantivy_dirty;
       with_staging_lock         staging = unnamed temp inode; copy self.file into it; write there;
                                 rename it over the path; drop(original self.file);
                                 self.file = open(path)      -- self.lock is NOT touched
     Memvid::vacuum              commit(); rewrite payloads in place; checkpoint the log
     Drop for Memvid             if dirty { commit() }; fields dropped (file closed, FileLock::drop)

   One path.  A handle owns its descriptions (no fork / descriptor passing), so the table of all
   open file descriptions is the collection of the handles' records below. *)
From MV Require Import Base.Prelude.
Local Open Scope N_scope.

Inductive lmode := LNone | LSh | LEx.
Definition lmode_free (m : lmode) : bool := match m with LNone => true | _ => false end.
Definition lmode_ex (m : lmode) : bool := match m with LEx => true | _ => false end.

(* PFd c: open(path) done (c: by Memvid::create), lock not yet granted -- the handle sits in
   lock_with_retry.  PLive: the constructor returned Ok: a live writable handle. *)
Inductive phase := PFd (creating : bool) | PLive.

Record handle := mkH {
  h_phase : phase;
  (* the description that carries the flock: created by open(path) in open_and_lock / try_acquire *)
  h_lock_ino : N;          (* its inode *)
  h_lock_mode : lmode;     (* the flock it holds *)
  h_lock_fds : nat;        (* descriptors of it still open: FileLock.file, + self.file while shared *)
  h_file_shared : bool;    (* self.file is a descriptor of that same description *)
  h_file_ino : N;          (* inode behind self.file *)
  h_toc : list N;          (* in-memory toc.frames (content tags) *)
  h_wpos : nat;            (* records this handle's EmbeddedWal believes lie after its checkpoint *)
  h_dirty : bool;          (* self.dirty: set by put; Drop commits iff it is set *)
  h_tpend : bool           (* tantivy_dirty: commit has work even with an empty log and !dirty (after create / vacuum) *)
}.

(* inode content: committed frame table, log records after the checkpoint *)
Definition content := (list N * list N)%type.

Record st := mkSt {
  s_dir : N;                       (* the inode the path names *)
  s_next : N;                      (* next unused inode number *)
  s_files : N -> content;
  s_hs : N -> option handle;       (* writer id -> handle *)
  s_dom : list N                   (* writer ids in use (superset) *)
}.

Definition upd {A} (f : N -> A) (k : N) (v : A) : N -> A := fun x => if (x =? k) then v else f x.

(* a memory created and closed earlier: inode 0, empty table *)
Definition init : st := mkSt 0 1 (fun _ => ([], [])) (fun _ => None) [].

Definition set_h (s : st) (w : N) (h : option handle) : st :=
  mkSt (s_dir s) (s_next s) (s_files s) (upd (s_hs s) w h) (s_dom s).
Definition set_file (s : st) (i : N) (c : content) : st :=
  mkSt (s_dir s) (s_next s) (upd (s_files s) i c) (s_hs s) (s_dom s).

(* ---- flock ---- *)
(* does a description of ANOTHER handle hold a lock (any mode) on inode i ? *)
Definition holds_on (i : N) (h : handle) : bool := (h_lock_ino h =? i) && negb (lmode_free (h_lock_mode h)).
Definition others_hold (s : st) (w i : N) : bool :=
  existsb (fun v => if (v =? w) then false else
                      match s_hs s v with Some h => holds_on i h | None => false end) (s_dom s).

(* try_lock_exclusive on the handle's lock description *)
Definition try_lock_ex (s : st) (w : N) (h : handle) : option handle :=
  if others_hold s w (h_lock_ino h) then None
  else Some (mkH (h_phase h) (h_lock_ino h) LEx (h_lock_fds h) (h_file_shared h) (h_file_ino h) (h_toc h) (h_wpos h) (h_dirty h) (h_tpend h)).

(* flock(fd, LOCK_UN) through ANY descriptor of a description -- the original or a dup/try_clone --
   releases THE DESCRIPTION's lock: the flock state is the description's, not the descriptor's.
   FileLock::acquire(&self.file, ..) / FileLock::unlocked / clone_handle all work on try_clone()s of
   a handle's file, i.e. on descriptors of one of the handle's own descriptions; FileLock::drop and
   FileLock::unlock issue exactly this call. *)
Definition unlock_description (h : handle) : handle :=
  mkH (h_phase h) (h_lock_ino h) LNone (h_lock_fds h) (h_file_shared h) (h_file_ino h) (h_toc h) (h_wpos h) (h_dirty h) (h_tpend h).

(* close one descriptor of the lock description: the lock goes when the last one closes *)
Definition close_lock_fd (h : handle) : handle :=
  let n := pred (h_lock_fds h) in
  mkH (h_phase h) (h_lock_ino h) (match n with O => LNone | _ => h_lock_mode h end) n false
      (h_file_ino h) (h_toc h) (h_wpos h) (h_dirty h) (h_tpend h).

(* ---- open ---- *)
(* FileLock::open_and_lock up to the retry loop: a new description of the inode the path names
   NOW, two descriptors (file, clone).  Memvid::create truncates first, whoever holds a lock. *)
Definition fresh_handle (s : st) (creating : bool) : handle :=
  mkH (PFd creating) (s_dir s) LNone 2 true (s_dir s) [] 0 false false.

Definition add_dom (s : st) (w : N) : st :=
  mkSt (s_dir s) (s_next s) (s_files s) (s_hs s) (w :: s_dom s).

Definition open_fd (truncate_first : bool) (creating : bool) (s : st) (w : N) : st :=
  match s_hs s w with
  | Some _ => s                                  (* id in use *)
  | None =>
      let s1 := if truncate_first then set_file s (s_dir s) ([], []) else s in
      set_h (add_dom s1 w) w (Some (fresh_handle s1 creating))
  end.

(* log records: a frame's content tag (>= 1); tag 0 stands for a record that carries no frame
   (index batches, tombstones of nothing): skipped when the frame table is built *)
Definition frames_of (l : list N) : list N := filter (fun t => negb (t =? 0)) l.

(* a new inode written and renamed over the path (AtomicWriteFile::commit) *)
Definition alloc (s : st) (c : content) : st :=
  mkSt (s_next s) (s_next s + 1) (upd (s_files s) (s_next s) c) (s_hs s) (s_dom s).

(* open_locked (creating = false): read the table; recover_wal: with an empty log nothing is
   written, otherwise the records are applied through with_staging_lock like a commit (staged copy
   renamed over the path, self.file reopened, self.lock untouched).
   create (creating = true): fresh header + empty TOC written; first commit has work (tantivy_dirty). *)
Definition go_live (fixed : bool) (s : st) (w : N) (h : handle) : st :=
  let i := h_file_ino h in
  let '(c, l) := s_files s i in
  match h_phase h with
  | PFd true =>
      set_h (set_file s i ([], [])) w
            (Some (mkH PLive (h_lock_ino h) (h_lock_mode h) (h_lock_fds h) (h_file_shared h) i [] 0 false true))
  | _ =>
      match l with
      | [] => set_h (set_file s i (c, [])) w
                (Some (mkH PLive (h_lock_ino h) (h_lock_mode h) (h_lock_fds h) (h_file_shared h) i c 0 false false))
      | _ =>
          let toc' := c ++ frames_of l in
          let n' := s_next s in
          let s1 := alloc s (toc', []) in
          if fixed then set_h s1 w (Some (mkH PLive n' LEx 2 true n' toc' 0 false false))
          else
            let h1 := if h_file_shared h then close_lock_fd h else h in
            set_h s1 w (Some (mkH PLive (h_lock_ino h1) (h_lock_mode h1) (h_lock_fds h1) false n' toc' 0 false false))
      end
  end.

(* one round of lock_with_retry -- the implementation: whatever inode the description is on *)
Definition open_lock_impl (s : st) (w : N) : st :=
  match s_hs s w with
  | Some h =>
      match h_phase h with
      | PFd _ => match try_lock_ex s w h with
                 | Some h' => go_live false s w h'
                 | None => s                     (* WouldBlock: sleep 50 ms, the op may be repeated *)
                 end
      | PLive => s
      end
  | None => s
  end.

(* the correct protocol: after the lock is granted, check that the path still names the locked
   inode; if not, release, re-open the path and wait again.  create truncates only now. *)
Definition open_lock_fixed (s : st) (w : N) : st :=
  match s_hs s w with
  | Some h =>
      match h_phase h with
      | PFd c => match try_lock_ex s w h with
                 | Some h' =>
                     if (h_lock_ino h' =? s_dir s) then go_live true s w h'
                     else set_h s w (Some (fresh_handle s c))
                 | None => s
                 end
      | PLive => s
      end
  | None => s
  end.

(* attempts exhausted: Err(Lock); file and clone dropped *)
Definition give_up (s : st) (w : N) : st :=
  match s_hs s w with
  | Some h => match h_phase h with PFd _ => set_h s w None | PLive => s end
  | None => s
  end.

Definition is_live (s : st) (w : N) : bool :=
  match s_hs s w with Some h => match h_phase h with PLive => true | _ => false end | None => false end.

(* a whole blocking open with nobody else moving in between *)
Definition open_all (lockstep : st -> N -> st) (trunc creating : bool) (s : st) (w : N) : st :=
  match s_hs s w with
  | Some _ => s
  | None => give_up (lockstep (open_fd trunc creating s w) w) w
  end.

(* Memvid::try_open (doctor): `file` = open(path) stays unlocked; the flock sits on a second
   description opened by try_acquire (one descriptor); a single non-blocking attempt *)
Definition try_open_with (lockstep : st -> N -> st) (s : st) (w : N) : st :=
  match s_hs s w with
  | Some _ => s
  | None =>
      let h := mkH (PFd false) (s_dir s) LNone 1 false (s_dir s) [] 0 false false in
      give_up (lockstep (set_h (add_dom s w) w (Some h)) w) w
  end.

(* ---- put: append one log record into self.file's inode at this handle's write position ---- *)
Definition put (s : st) (w tag : N) : st :=
  match s_hs s w with
  | Some h =>
      match h_phase h with
      | PLive =>
          let i := h_file_ino h in
          let '(c, l) := s_files s i in
          set_h (set_file s i (c, firstn (h_wpos h) l ++ [tag])) w
                (Some (mkH PLive (h_lock_ino h) (h_lock_mode h) (h_lock_fds h) (h_file_shared h) i (h_toc h) (S (h_wpos h)) true (h_tpend h)))
      | _ => s
      end
  | None => s
  end.

(* ---- commit ---- *)
(* the implementation: with_staging_lock *)
Definition commit_impl (s : st) (w : N) : st :=
  match s_hs s w with
  | Some h =>
      match h_phase h with
      | PLive =>
          let '(_, l) := s_files s (h_file_ino h) in
          match l, h_dirty h || h_tpend h with
          | [], false => s                                   (* early return: nothing to commit *)
          | _, _ =>
              let toc' := h_toc h ++ frames_of l in
              let n' := s_next s in
              let s1 := alloc s (toc', []) in                (* staging inode written, renamed over the path *)
              (* drop(original_file): one descriptor of the lock description closes iff self.file was one *)
              let h1 := if h_file_shared h then close_lock_fd h else h in
              (* self.file = open(path): a new, unlocked description of the new inode *)
              set_h s1 w (Some (mkH PLive (h_lock_ino h1) (h_lock_mode h1) (h_lock_fds h1) false n' toc' 0 false false))
          end
      | _ => s
      end
  | None => s
  end.

(* the correct protocol: the staging description takes an exclusive flock before the rename
   (nobody else can have opened an unnamed inode), becomes the handle's lock description, and
   the old one is unlocked and closed after the rename *)
Definition commit_fixed (s : st) (w : N) : st :=
  match s_hs s w with
  | Some h =>
      match h_phase h with
      | PLive =>
          let '(_, l) := s_files s (h_file_ino h) in
          match l, h_dirty h || h_tpend h with
          | [], false => s
          | _, _ =>
              let toc' := h_toc h ++ frames_of l in
              let n' := s_next s in
              let s1 := alloc s (toc', []) in
              set_h s1 w (Some (mkH PLive n' LEx 2 true n' toc' 0 false false))
          end
      | _ => s
      end
  | None => s
  end.

(* Drop for Memvid: commit if dirty, then every descriptor closes.  Kill: process exit. *)
Definition kill (s : st) (w : N) : st := set_h s w None.
Definition drop_with (commit : st -> N -> st) (s : st) (w : N) : st :=
  match s_hs s w with
  | Some h => match h_phase h with
              | PLive => kill (if h_dirty h then commit s w else s) w
              | PFd _ => kill s w
              end
  | None => s
  end.

(* Memvid::doctor(path): try_open; on success the repair rewrites and commits; handle dropped *)
Definition mark_dirty (s : st) (w : N) : st :=
  match s_hs s w with
  | Some h => set_h s w (Some (mkH (h_phase h) (h_lock_ino h) (h_lock_mode h) (h_lock_fds h) (h_file_shared h) (h_file_ino h) (h_toc h) (h_wpos h) true (h_tpend h)))
  | None => s
  end.

(* Memvid::vacuum: commit(), then payloads compacted in place, indexes rebuilt, log checkpointed
   (since fix 'vacuum ... checkpoints the log' nothing is left pending, dirty flags cleared): for the
   lock table and the frame table it is a commit *)
Definition vacuum_with (commit : st -> N -> st) (s : st) (w : N) : st := commit s w.

(* operations of a live handle that write the file in place and touch neither a lock nor the path:
   begin_batch / ensure_wal_capacity and grow_wal_region (shift_data_for_wal_growth moves the data
   behind the log region; it issues NO flock call), end_batch, apply_ticket, enable_lex on a memory
   that has lex enabled.  The lock table is unchanged -- this is what the correspondence checks after
   each of them (flock probe on the path, child-process opens, strace of the flock calls). *)
Definition touch (s : st) (w : N) : st := s.

(* enable_vec: sets dirty (the next commit / Drop has work), nothing else *)
Definition set_dirty_live (s : st) (w : N) : st := if is_live s w then mark_dirty s w else s.

(* NOT the implementation -- the protocol violation the checks must catch: a temporary
   `let _guard = FileLock::acquire(&self.file, path)?` inside a writer's operation.  acquire locks a
   try_clone() of self.file; while self.file is a descriptor of the handle's lock description
   (h_file_shared, i.e. before the handle's first commit) that is the SAME description: the
   LOCK_EX is a no-op on a lock already held, and when the guard is dropped FileLock::drop unlocks
   the description -- the writer's own exclusive lock is gone for the rest of its life. *)
Definition touch_with_temporary_guard (s : st) (w : N) : st :=
  match s_hs s w with
  | Some h => match h_phase h with
              | PLive => if h_file_shared h then set_h s w (Some (unlock_description h)) else s
              | _ => s end
  | None => s
  end.

Inductive op :=
| OpenFd (w : N)        (* Memvid::open entered: open(path), try_clone *)
| CreateFd (w : N)      (* Memvid::create entered: (truncate,) open(path), try_clone *)
| OpenLock (w : N)      (* one round of the retry loop (+ open_locked on success) *)
| GiveUp (w : N)        (* the loop ran out: Err(Lock) *)
| Open (w : N)          (* OpenFd; OpenLock; GiveUp on failure -- uninterrupted *)
| Create (w : N)
| TryOpen (w : N)       (* Memvid::try_open *)
| Put (w tag : N)
| Commit (w : N)
| Vacuum (w : N)
| Drop (w : N)
| Kill (w : N)
| Doctor (w : N)        (* TryOpen w; repair + commit; Drop w *)
| Touch (w : N)         (* begin_batch(pre-size) / log growth / end_batch / apply_ticket / enable_lex *)
| EnableVec (w : N).

Definition step_impl (s : st) (o : op) : st :=
  match o with
  | OpenFd w => open_fd false false s w
  | CreateFd w => open_fd true true s w
  | OpenLock w => open_lock_impl s w
  | GiveUp w => give_up s w
  | Open w => open_all open_lock_impl false false s w
  | Create w => open_all open_lock_impl true true s w
  | TryOpen w => try_open_with open_lock_impl s w
  | Put w t => put s w t
  | Commit w => commit_impl s w
  | Vacuum w => vacuum_with commit_impl s w
  | Drop w => drop_with commit_impl s w
  | Kill w => kill s w
  | Doctor w => match s_hs s w with
                | Some _ => s
                | None => drop_with commit_impl (mark_dirty (try_open_with open_lock_impl s w) w) w
                end
  | Touch w => touch s w
  | EnableVec w => set_dirty_live s w
  end.

Definition step_fixed (s : st) (o : op) : st :=
  match o with
  | OpenFd w => open_fd false false s w
  | CreateFd w => open_fd false true s w
  | OpenLock w => open_lock_fixed s w
  | GiveUp w => give_up s w
  | Open w => open_all open_lock_fixed false false s w
  | Create w => open_all open_lock_fixed false true s w
  | TryOpen w => try_open_with open_lock_fixed s w
  | Put w t => put s w t
  | Commit w => commit_fixed s w
  | Vacuum w => vacuum_with commit_fixed s w
  | Drop w => drop_with commit_fixed s w
  | Kill w => kill s w
  | Doctor w => match s_hs s w with
                | Some _ => s
                | None => drop_with commit_fixed (mark_dirty (try_open_with open_lock_fixed s w) w) w
                end
  | Touch w => touch s w
  | EnableVec w => set_dirty_live s w
  end.

Definition run_impl (ops : list op) : st := fold_left step_impl ops init.
Definition run_fixed (ops : list op) : st := fold_left step_fixed ops init.

(* ---- the property ---- *)
Definition live_writable (s : st) (w : N) : Prop :=
  exists h, s_hs s w = Some h /\ h_phase h = PLive.
Definition one_writer (s : st) : Prop :=
  forall w1 w2, live_writable s w1 -> live_writable s w2 -> w1 = w2.

(* known class: "a commit has replaced the inode since the handle took its lock": some live
   handle's flock sits on an inode the path no longer names *)
Definition stale_handle (s : st) (h : handle) : bool :=
  match h_phase h with PLive => negb (h_lock_ino h =? s_dir s) | _ => false end.
Definition stale (s : st) : bool :=
  existsb (fun w => match s_hs s w with Some h => stale_handle s h | None => false end) (s_dom s).

(* histories without any inode-replacing step: no explicit commit, vacuum, drop, doctor, and no put
   (an open that finds log records replays them through a staged rename) *)
Definition quiet_op (o : op) : bool :=
  match o with Commit _ | Vacuum _ | Drop _ | Doctor _ | Put _ _ => false | _ => true end.

(* what the file the path names holds: committed table followed by the logged records *)
Definition path_frames (s : st) : list N := let '(c, l) := s_files s (s_dir s) in c ++ frames_of l.
Definition not_create (o : op) : bool := match o with Create _ | CreateFd _ => false | _ => true end.

(* is a prefix of *)
Fixpoint prefixb (a b : list N) : bool :=
  match a, b with
  | [], _ => true
  | x :: a', y :: b' => (x =? y) && prefixb a' b'
  | _ :: _, [] => false
  end.
