(* C18 Read-only access.  Model of
     src/memvid/lifecycle.rs : open_read_only / open_read_only_with_options / open_read_only_snapshot /
                               load_tail_snapshot / locate_footer_window
     src/io/wal.rs           : EmbeddedWal::open_read_only (open_internal with read_only = true),
                               pending_records on a read-only log
     src/io/header.rs        : HeaderCodec::read_without_repair (legacy lock bytes 80..140 scrubbed in memory
                               only; since ced2099).  HeaderCodec::read (Model/Header.v: header_read, which
                               CLEARS them in place) is what the read-only open called before: kept as
                               header_read_repair for the historical `_unfixed` lemmas
     src/memvid/search/api.rs: init_tantivy -> materialize_tantivy_segments
     src/memvid/mutation.rs  : align_footer_with_catalog (returns Ok(false) at once on a read-only handle since
                               e2af843) -> rewrite_toc_footer + persist_header
     src/memvid/maintenance.rs: Memvid::verify
   and of the read APIs of the resulting handle, at the level "which bytes of the memory file does the
   call write".  Every function threads the file (its bytes and the trace of write / truncate / fsync
   calls issued on it so far).  Files that are not the memory file (the scratch directory Tantivy
   segments are copied into) are outside the model.

   External things are Section variables: BLAKE3 (H), Toc::decode followed by verify_checksum
   (toc_decode; the result is the part of the TOC this model looks at), prepare_toc_bytes
   (toc_reencode: image and checksum), MAX_SEARCH_SIZE (maxw, instantiated with 16 MiB). *)
From MV Require Import Base.Prelude Model.Footer Model.Header Model.Wal Model.Store Model.FsProto.
Local Open Scope N_scope.

(* ---------------------------------------------------------------- write trace on the memory file *)
Inductive wev :=
| WWrite (off : N) (data : bytes)      (* seek(off); write_all(data) *)
| WSetLen (n : N)                      (* File::set_len *)
| WSync.                               (* sync_all / flush *)

(* write_all at an offset: overwrites, extends, leaves a zero hole when off is past the end *)
Definition pwrite (f : bytes) (off : nat) (d : bytes) : bytes :=
  firstn off (f ++ repeat 0 (off - length f)) ++ d ++ skipn (off + length d) f.
Definition set_len (f : bytes) (n : nat) : bytes := firstn n (f ++ repeat 0 (n - length f)).

Definition apply_wev (f : bytes) (e : wev) : bytes :=
  match e with
  | WWrite off d => pwrite f (N.to_nat off) d
  | WSetLen n => set_len f (N.to_nat n)
  | WSync => f
  end.
Definition apply_trace (f : bytes) (t : list wev) : bytes := fold_left apply_wev t f.

(* the same trace in the alphabet of Model/FsProto.v (in-place operations on the live memory file) *)
Definition to_fsop (i : N) (e : wev) : fsop :=
  match e with WWrite _ _ => WriteMem (W i) | WSetLen _ => WriteMem (W i) | WSync => FsyncMem end.
Fixpoint to_fsops (i : N) (t : list wev) : list fsop :=
  match t with [] => [] | e :: r => to_fsop i e :: to_fsops (i + 1) r end.

Record fstate := mkFS { fs_bytes : bytes; fs_trace : list wev }.
Definition emit (s : fstate) (e : wev) : fstate := mkFS (apply_wev (fs_bytes s) e) (fs_trace s ++ [e]).

(* ---------------------------------------------------------------- the part of a decoded TOC that matters here *)
Record rtoc := mkRToc {
  rt_frames : list frame;            (* toc.frames, as the frame table of Model/Store.v *)
  rt_lex : bool;                     (* has_lex_index(toc) *)
  rt_segs : list (N * N);            (* the segments init_tantivy materializes: (bytes_offset, bytes_length) *)
  rt_catalog : list (N * N);         (* every (bytes_offset, bytes_length) catalog_data_end() looks at *)
  rt_checksum : bytes }.             (* toc.toc_checksum *)

Definition E_NOFOOTER : N := 1.      (* InvalidToc "no valid commit footer found" *)
Definition E_TOC : N := 2.           (* Toc::decode / verify_checksum failed *)
Definition E_LOCK : N := 8.          (* shared lock not obtained *)
Definition E_HDR : N := 10.          (* + the InvalidHeader kind of Model/Header.v *)
Definition E_WAL : N := 20.          (* + the scan error of Model/Wal.v (4 length invalid, 5 checksum mismatch) *)
Definition E_SEG_OVERFLOW : N := 30.
Definition E_SEG_BOUNDS : N := 31.

Definition MAX_SEARCH_SIZE : N := 16777216.   (* 16 * 1024 * 1024 *)

Record tail := mkTail { t_toc : rtoc; t_toc_bytes : bytes; t_footer_offset : N; t_generation : N }.

(* EmbeddedWal fields a read-only handle reports *)
Record rowal := mkRoWal { rw_head : N; rw_pending : N; rw_seq : N; rw_ckpt_seq : N }.

Record handle := mkHandle {
  hd_header : header;                (* the in-memory header *)
  hd_toc : rtoc;
  hd_data_end : N;
  hd_generation : N;
  hd_wal : rowal;
  hd_lex : bool;                     (* lex_enabled *)
  hd_tantivy : bool;                 (* self.tantivy.is_some() *)
  hd_read_only : bool }.             (* self.read_only *)

Definition set_header (hd : handle) (h : header) : handle :=
  mkHandle h (hd_toc hd) (hd_data_end hd) (hd_generation hd) (hd_wal hd) (hd_lex hd) (hd_tantivy hd) (hd_read_only hd).
Definition set_tantivy (hd : handle) (b : bool) : handle :=
  mkHandle (hd_header hd) (hd_toc hd) (hd_data_end hd) (hd_generation hd) (hd_wal hd) (hd_lex hd) b (hd_read_only hd).
Definition with_footer (h : header) (fo : N) (ck : bytes) : header :=
  mkHeader (h_magic h) (h_version h) fo (h_wal_offset h) (h_wal_size h) (h_wal_checkpoint_pos h) (h_wal_sequence h) ck.

(* catalog_data_end: entries of length 0 are skipped *)
Definition ends_max (base : N) (l : list (N * N)) : N :=
  fold_left (fun m e => if snd e =? 0 then m else N.max m (fst e + snd e)) l base.

Section RO.
  Variable H : bytes -> bytes.
  Variable toc_decode : bytes -> option rtoc.
  Variable toc_reencode : rtoc -> bytes * bytes.
  Variable maxw : N.

  (* locate_footer_window: the C31 scan on the last `window` bytes, the window doubling until it is the
     whole file.  (The loop ends because the window at least doubles; fuel = length + 1 is enough when
     maxw > 0, see ReadOnlyProofs.locate_loop_fuel.) *)
  Fixpoint locate_loop (fuel : nat) (b : bytes) (window : N) : option (footer_slice * nat) :=
    match fuel with
    | O => None
    | S k =>
        let len := N.of_nat (length b) in
        let start := N.to_nat (len - window) in
        match find_last_valid_footer H (skipn start b) with
        | Some s => Some (s, start)
        | None => if window =? len then None else locate_loop k b (N.min (window * 2) len)
        end
    end.

  Definition locate_footer_window (b : bytes) : option (footer_slice * nat) :=
    match b with
    | [] => None
    | _ => locate_loop (S (length b)) b (N.min maxw (N.of_nat (length b)))
    end.

  (* load_tail_snapshot (an empty file maps to an empty slice: "no valid commit footer found") *)
  Definition load_tail_snapshot (b : bytes) : outcome tail :=
    match locate_footer_window b with
    | None => Err E_NOFOOTER
    | Some (s, adj) =>
        match toc_decode (fs_toc_bytes s) with
        | None => Err E_TOC
        | Some t => Ok (mkTail t (fs_toc_bytes s) (N.of_nat (fs_footer_offset s + adj)) (generation (fs_footer s)))
        end
    end.

  (* HeaderCodec::read_without_repair: read_exact of 4096 bytes, scrub of the legacy lock bytes in the
     buffer only, decode.  No write. *)
  Definition ro_header_read (s : fstate) : outcome header * fstate :=
    let file := fs_bytes s in
    if Nat.ltb (length file) HEADER_SIZE then (Err E_IO, s)
    else
      let buf := firstn HEADER_SIZE file in
      (header_decode (if legacy_dirty buf then clear_legacy buf else buf), s).

  (* HeaderCodec::read on the memory file, with the write it may issue made explicit: what the
     read-only open called before ced2099 (and what the writable open still calls) *)
  Definition header_read_repair (s : fstate) : outcome header * fstate :=
    let file := fs_bytes s in
    if Nat.ltb (length file) HEADER_SIZE then (Err E_IO, s)
    else
      let buf := firstn HEADER_SIZE file in
      if legacy_dirty buf then
        (header_decode (clear_legacy buf), emit s (WWrite 0 (clear_legacy buf)))   (* flush() on a File issues no syscall *)
      else (header_decode buf, s).

  (* EmbeddedWal::open_read_only: scan, derive the counters, and -- read_only -- no sentinel.
     The scan is Model/Wal.v's on the region bytes; a region reaching past the end of the file is
     answered with the I/O error read_exact gives (generated files keep the region inside the file). *)
  Definition ro_wal_open (file : bytes) (h : header) : outcome rowal :=
    if h_wal_size h =? 0 then Err (E_HDR + E_WAL_SIZE)
    else if N.of_nat (length file) <? h_wal_offset h + h_wal_size h then Err E_IO
    else
      match scan_records H (slice file (N.to_nat (h_wal_offset h)) (N.to_nat (h_wal_size h))) (h_wal_size h) with
      | Err e => Err (E_WAL + e)
      | Panic p => Panic p
      | Ok (entries, next_head) =>
          Ok (mkRoWal (N.min next_head (h_wal_size h)) (pending_sum (h_wal_sequence h) entries)
                      (last_seq entries (h_wal_sequence h)) (h_wal_sequence h))
      end.

  (* number of records a read-only log reports pending (pending_records, no sentinel write) *)
  Definition ro_pending_count (file : bytes) (h : header) : outcome N :=
    if N.of_nat (length file) <? h_wal_offset h + h_wal_size h then Err E_IO
    else
      match scan_records H (slice file (N.to_nat (h_wal_offset h)) (N.to_nat (h_wal_size h))) (h_wal_size h) with
      | Err e => Err (E_WAL + e)
      | Panic p => Panic p
      | Ok (entries, _) => Ok (N.of_nat (length (filter (fun e => h_wal_sequence h <? r_seq e) entries)))
      end.

  Definition catalog_data_end (h : header) (t : rtoc) : N :=
    ends_max (h_wal_offset h + h_wal_size h) (rt_catalog t).

  (* align_footer_with_catalog: rewrite_toc_footer (TOC image + footer at the new offset, set_len,
     sync_all) then persist_header *)
  Definition align_footer (hd : handle) (s : fstate) : bool * handle * fstate :=
    let h := hd_header hd in
    let ce := catalog_data_end h (hd_toc hd) in
    if hd_read_only hd then (false, hd, s)
    else if ce <=? h_footer_offset h then (false, hd, s)
    else
      let '(tb, ck) := toc_reencode (hd_toc hd) in
      let foot := footer_encode (mkFooter (N.of_nat (length tb)) (H tb) (hd_generation hd)) in
      let new_len := ce + N.of_nat (length tb) + N.of_nat FOOTER_SIZE in
      let min_len := h_wal_offset h + h_wal_size h in
      let s1 := emit s (WWrite ce (tb ++ foot)) in
      let s2 := emit s1 (WSetLen (N.max new_len min_len)) in
      let s3 := emit s2 WSync in
      let h' := with_footer h ce ck in
      let s4 := match header_encode h' with
                | Ok hb => emit s3 (WWrite 0 hb)
                | _ => s3
                end in
      (true, set_header hd h', s4).

  (* materialize_tantivy_segments: the bounds check per segment and the repair it triggers; copying
     the segment bytes into the scratch directory reads the memory file only *)
  Fixpoint materialize (segs : list (N * N)) (file_len data_limit : N) (hd : handle) (s : fstate)
    : outcome unit * handle * fstate :=
    match segs with
    | [] => (Ok tt, hd, s)
    | (off, len) :: r =>
        if len =? 0 then materialize r file_len data_limit hd s
        else if 2 ^ 64 <=? off + len then (Err E_SEG_OVERFLOW, hd, s)
        else
          let e := off + len in
          if (file_len <? e) || (data_limit <? e) then
            let '(aligned, hd1, s1) := align_footer hd s in
            let file_len1 := if aligned then N.of_nat (length (fs_bytes s1)) else file_len in
            let data_limit1 := if aligned then h_footer_offset (hd_header hd1) else data_limit in
            if (file_len1 <? e) || (data_limit1 <? e) then (Err E_SEG_BOUNDS, hd1, s1)
            else materialize r file_len1 data_limit1 hd1 s1
          else materialize r file_len data_limit hd s
    end.

  (* init_tantivy: an error of materialize / open_from_dir is swallowed (a fresh engine is created
     and rebuilt from the frames: reads only) *)
  Definition init_tantivy (hd : handle) (s : fstate) : handle * fstate :=
    if negb (hd_lex hd) then (set_tantivy hd false, s)
    else
      let '(_, hd1, s1) := materialize (rt_segs (hd_toc hd)) (N.of_nat (length (fs_bytes s)))
                                       (h_footer_offset (hd_header hd)) hd s in
      (set_tantivy hd1 true, s1).

  (* open_read_only_snapshot.  `lock_free` = no other open file description holds the exclusive lock.
     Order as in the code: tail snapshot, header read, shared lock, log.  The header reader and the
     read_only flag the handle carries are parameters so that the code before the two repairs can
     still be stated (open_ro_unfixed below); the current code is open_ro_on. *)
  Definition open_ro_gen (hread : fstate -> outcome header * fstate) (ro_flag : bool)
                         (lock_free : bool) (s0 : fstate) : outcome handle * fstate :=
    match load_tail_snapshot (fs_bytes s0) with
    | Err e => (Err e, s0)
    | Panic p => (Panic p, s0)
    | Ok t =>
        let '(rh, s1) := hread s0 in
        match rh with
        | Err e => (Err (if e =? E_IO then E_IO else E_HDR + e), s1)
        | Panic p => (Panic p, s1)
        | Ok h0 =>
            let h := with_footer h0 (t_footer_offset t) (rt_checksum (t_toc t)) in
            if negb lock_free then (Err E_LOCK, s1)
            else
              match ro_wal_open (fs_bytes s1) h with
              | Err e => (Err e, s1)
              | Panic p => (Panic p, s1)
              | Ok w =>
                  let hd := mkHandle h (t_toc t) (t_footer_offset t) (t_generation t) w (rt_lex (t_toc t)) false ro_flag in
                  let '(hd1, s2) := init_tantivy hd s1 in
                  (Ok hd1, s2)
              end
        end
    end.

  Definition open_ro_on (lock_free : bool) (s0 : fstate) : outcome handle * fstate :=
    open_ro_gen ro_header_read true lock_free s0.

  (* the read-only open as it was before ced2099 / e2af843: header read with in-place repair, and an
     align_footer_with_catalog that did not look at read_only *)
  Definition open_ro_unfixed (lock_free : bool) (file : bytes) : outcome handle * fstate :=
    open_ro_gen header_read_repair false lock_free (mkFS file []).

  Definition open_ro (lock_free : bool) (file : bytes) : outcome handle * fstate :=
    open_ro_on lock_free (mkFS file []).

  (* what a read-only handle shows *)
  Definition ro_view (hd : handle) : list frame := rt_frames (hd_toc hd).

  (* ---------------------------------------------------------------- read APIs of the handle *)
  Inductive rop :=
  | RFrameCount
  | RFrameById (id : N)
  | RPayload (id : N)             (* frame_canonical_payload: read_range on the payload window *)
  | RStats
  | RTimeline
  | RSearch
  | RVerify.                      (* Memvid::verify(path): a second read-only open + checks *)

  Inductive rout :=
  | OCount (n : N)
  | OFrame (f : option frame)
  | OUnit
  | OSearch (lex : bool)          (* false: Err(LexNotEnabled) *)
  | OVerify (r : outcome N).      (* Ok n: opened, n records reported pending by WalPendingRecords *)

  Definition ro_step (lock_free : bool) (st : handle * fstate) (op : rop) : (handle * fstate) * rout :=
    let '(hd, s) := st in
    match op with
    | RFrameCount => (st, OCount (N.of_nat (length (ro_view hd))))
    | RFrameById id => (st, OFrame (nth_error (ro_view hd) (N.to_nat id)))
    | RPayload _ => (st, OUnit)
    | RStats => (st, OUnit)
    | RTimeline => (st, OUnit)
    | RSearch =>
        if negb (hd_lex hd) then (st, OSearch false)
        else if hd_tantivy hd then (st, OSearch true)
        else let '(hd1, s1) := init_tantivy hd s in ((hd1, s1), OSearch true)
    | RVerify =>
        match open_ro_on lock_free s with
        | (Ok hv, s1) =>
            let r := ro_pending_count (fs_bytes s1) (hd_header hv) in
            ((hd, s1), OVerify r)
        | (Err e, s1) => ((hd, s1), OVerify (Err e))
        | (Panic p, s1) => ((hd, s1), OVerify (Panic p))
        end
    end.

  Fixpoint ro_run (lock_free : bool) (st : handle * fstate) (ops : list rop) : (handle * fstate) * list rout :=
    match ops with
    | [] => (st, [])
    | op :: r => let '(st1, o) := ro_step lock_free st op in
                 let '(st2, os) := ro_run lock_free st1 r in (st2, o :: os)
    end.

  (* a whole read-only session: open, then the calls; the final file and everything written to it *)
  Definition ro_session (lock_free : bool) (file : bytes) (ops : list rop) : outcome (list rout) * fstate :=
    match open_ro lock_free file with
    | (Ok hd, s) => let '((_, s1), outs) := ro_run lock_free (hd, s) ops in (Ok outs, s1)
    | (Err e, s) => (Err e, s)
    | (Panic p, s) => (Panic p, s)
    end.

  (* ---------------------------------------------------------------- the two write triggers of the code BEFORE the repairs, as predicates on the file
     (regression inputs of the harness; the current code writes in neither class) *)
  Definition legacy_trigger (file : bytes) : bool :=
    Nat.leb HEADER_SIZE (length file) && legacy_dirty (firstn HEADER_SIZE file).

  (* the TOC of the last valid footer names catalog bytes ending beyond that footer's offset *)
  Definition catalog_trigger (file : bytes) : bool :=
    match load_tail_snapshot file with
    | Ok t =>
        match header_decode (firstn HEADER_SIZE file) with
        | Ok h0 => t_footer_offset t <? catalog_data_end (with_footer h0 (t_footer_offset t) (rt_checksum (t_toc t))) (t_toc t)
        | _ => false
        end
    | _ => false
    end.

  Definition known_class (file : bytes) : bool := legacy_trigger file || catalog_trigger file.

  (* the image a commit leaves (rewrite_toc_footer: ... TOC, footer, set_len to the footer's end) *)
  Definition commit_image (pre tb : bytes) (g : N) : bytes :=
    pre ++ tb ++ footer_encode (mkFooter (N.of_nat (length tb)) (H tb) g).
End RO.
