(* M-Content (C07): byte-level model of the payload region.
   Follows, line by line,
     src/memvid/mutation.rs : prepare_canonical_payload(_with_level), the offset / checksum /
                              parent / index-text parts of apply_records, the log entries that
                              put_internal builds for a whole payload, a chunked text and a
                              payload-reusing update, mark_frame_superseded / mark_frame_deleted;
     src/lib.rs             : decode_canonical_bytes;
     src/memvid/frame.rs    : validate_frame_bounds, read_frame_payload_bytes, frame_canonical_bytes,
                              document_chunk_frames, document_chunk_payloads, blob_reader_from_frame
                              (+ BlobReader::read to the end), frame_canonical_text, frame_content.
   Definitions only.  External things are Section variables: zstd (encoder with a level, decoder
   that may fail), BLAKE3, UTF-8 validity (std::str::from_utf8(..).is_ok()), render_binary_summary.
   The file is the whole .mv2 as a byte list; offsets are absolute, as in the code. *)
From MV Require Import Base.Prelude.
Local Open Scope N_scope.

Inductive enc := Plain | Zstd.
Definition enc_eqb (a b : enc) : bool :=
  match a, b with Plain, Plain => true | Zstd, Zstd => true | _, _ => false end.

Definition MAX_FRAME_BYTES : N := 256 * 1024 * 1024.   (* src/lib.rs *)
Definition U64_MAX : N := 2 ^ 64 - 1.
Definition U32_MAX : N := 2 ^ 32 - 1.

Definition blen {A} (b : list A) : N := N.of_nat (length b).
Definition is_some {A} (o : option A) : bool := match o with Some _ => true | None => false end.
Definition null {A} (l : list A) : bool := match l with [] => true | _ => false end.
Definition get {A} (l : list A) (i : N) : option A := nth_error l (N.to_nat i).

(* error kinds (MemvidError::InvalidFrame reasons and I/O) *)
Definition E_TOO_LONG : N := 1.       (* payload length exceeds maximum *)
Definition E_WAL_OVERFLOW : N := 2.   (* wal region overflow *)
Definition E_OVERLAPS_WAL : N := 3.   (* payload overlaps wal region *)
Definition E_RANGE_OVERFLOW : N := 4. (* payload range overflow *)
Definition E_PAST_DATA : N := 5.      (* payload extends past data region *)
Definition E_PAST_FILE : N := 6.      (* payload extends past file length *)
Definition E_IO : N := 7.             (* read_exact: unexpected end of file *)
Definition E_DECODE : N := 8.         (* failed to decode canonical payload *)
Definition E_CLEN : N := 9.           (* canonical length mismatch *)
Definition E_NO_MANIFEST : N := 10.   (* document missing chunk manifest *)
Definition E_NO_CHILDREN : N := 11.   (* document chunk manifest missing children *)
Definition E_MANIFEST_LEN : N := 12.  (* chunk manifest length mismatch *)
Definition E_CHUNK_CLEN : N := 13.    (* chunk canonical length mismatch *)
Definition E_REUSE_INLINE : N := 14.  (* reused payload entry contained inline bytes *)
Definition E_REUSE_MISSING : N := 15. (* reused payload source missing *)
Definition E_SUPERSEDE_MISSING : N := 16.
Definition E_TOMB_NOREF : N := 17.    (* tombstone missing frame reference *)
Definition E_DELETE_MISSING : N := 18.

Record frame := mkFrame {
  f_id : N;
  f_off : N;                 (* payload_offset *)
  f_len : N;                 (* payload_length *)
  f_sum : bytes;             (* checksum *)
  f_enc : enc;               (* canonical_encoding *)
  f_clen : option N;         (* canonical_length *)
  f_role : N;                (* 0 Document, 1 DocumentChunk, 2 ExtractedImage *)
  f_manifest : option N;     (* chunk_manifest: Some (number of ranges) *)
  f_parent : option N;       (* parent_id *)
  f_cidx : option N;         (* chunk_index *)
  f_status : N;              (* 0 Active, 1 Superseded, 2 Deleted *)
  f_supersedes : option N;
  f_superseded_by : option N;
  f_stext : option bytes;    (* search_text (its UTF-8 bytes) *)
  f_mime : option bool       (* metadata.mime: None = no metadata / no mime, Some b = mime_is_text *)
}.

Record store := mkStore {
  s_file : bytes;
  s_wal_off : N;             (* header.wal_offset *)
  s_wal_size : N;            (* header.wal_size *)
  s_data_end : N;
  s_frames : list frame;     (* toc.frames *)
  s_lex : bool               (* self.tantivy.is_some() *)
}.

(* a decoded WalEntryData, the fields apply_records uses for offsets / checksums / reads *)
Record entry := mkEntry {
  e_payload : bytes;
  e_enc : enc;
  e_clen : option N;
  e_reuse : option N;        (* reuse_payload_from *)
  e_role : N;
  e_manifest : option N;
  e_cidx : option N;
  e_parent_seq : option N;
  e_supersedes : option N;
  e_stext : option bytes;
  e_mime : option bool
}.

Inductive record :=
| RInsert (seq : N) (e : entry)        (* WalEntry::Frame, op Insert *)
| RTombstone (target : option N)       (* WalEntry::Frame, op Tombstone *)
| RLex.                                (* WalEntry::Lex: no effect on frames / payload region *)

(* file.seek(off); file.write_all(p): overwrite, extending (zero fill) when needed; an empty
   buffer writes nothing *)
Definition write_at (file : bytes) (off : nat) (p : bytes) : bytes :=
  match p with
  | [] => file
  | _ => let padded := file ++ repeat 0 (off - length file) in
         firstn off padded ++ p ++ skipn (off + length p) padded
  end.

(* sort_by_key, stable: insertion sort on a key, `<=` keeps the earlier element first *)
Definition key_le (a b : N * N) : bool :=
  (fst a <? fst b) || ((fst a =? fst b) && (snd a <=? snd b)).
Fixpoint insert_by {A} (key : A -> N * N) (x : A) (l : list A) : list A :=
  match l with
  | [] => [x]
  | y :: r => if key_le (key x) (key y) then x :: l else y :: insert_by key x r
  end.
Definition sort_by {A} (key : A -> N * N) (l : list A) : list A :=
  fold_right (insert_by key) [] l.

Section Content.
  Variable zenc : Z -> bytes -> bytes.        (* zstd::encode_all(payload, level) *)
  Variable zdec : bytes -> option bytes.      (* zstd::decode_all; None = error *)
  Variable H : bytes -> bytes.                (* blake3::hash *)
  Variable is_utf8 : bytes -> bool.           (* std::str::from_utf8(b).is_ok() *)
  Variable summary : N -> bytes.              (* Memvid::render_binary_summary(len) *)

  (* ---------- mutation.rs: prepare_canonical_payload_with_level ---------- *)
  Definition prepare (level : Z) (p : bytes) : bytes * enc * option N :=
    if (level =? 0)%Z then (p, Plain, Some (blen p))
    else if is_utf8 p then (zenc level p, Zstd, Some (blen p))
    else (p, Plain, Some (blen p)).
  Definition prepare_default (p : bytes) := prepare 3%Z p.

  (* ---------- lib.rs: decode_canonical_bytes ---------- *)
  Definition decode_canonical (e : enc) (raw : bytes) : outcome bytes :=
    match e with
    | Plain => Ok raw
    | Zstd => match zdec raw with Some x => Ok x | None => Err E_DECODE end
    end.

  (* ---------- frame.rs: validate_frame_bounds ---------- *)
  Definition validate_frame_bounds (st : store) (f : frame) : outcome unit :=
    if f_len f =? 0 then Ok tt
    else if MAX_FRAME_BYTES <? f_len f then Err E_TOO_LONG
    else if U64_MAX <? s_wal_off st + s_wal_size st then Err E_WAL_OVERFLOW
    else if f_off f <? s_wal_off st + s_wal_size st then Err E_OVERLAPS_WAL
    else if U64_MAX <? f_off f + f_len f then Err E_RANGE_OVERFLOW
    else if s_data_end st <? f_off f + f_len f then Err E_PAST_DATA
    else if blen (s_file st) <? f_off f + f_len f then Err E_PAST_FILE
    else Ok tt.

  (* ---------- frame.rs: read_frame_payload_bytes ---------- *)
  Definition window (file : bytes) (off len : N) : bytes :=
    slice file (N.to_nat off) (N.to_nat len).
  Definition read_payload (st : store) (f : frame) : outcome bytes :=
    match validate_frame_bounds st f with
    | Ok _ =>
        let buf := window (s_file st) (f_off f) (f_len f) in
        if blen buf =? f_len f then Ok buf else Err E_IO
    | Err k => Err k
    | Panic s => Panic s
    end.

  (* decode + canonical length check (shared shape of frame_canonical_bytes and
     document_chunk_payloads; the error kind differs) *)
  Definition decode_checked (ek : N) (f : frame) (raw : bytes) : outcome bytes :=
    match decode_canonical (f_enc f) raw with
    | Ok d =>
        match f_clen f with
        | Some n => if blen d =? n then Ok d else Err ek
        | None => Ok d
        end
    | Err k => Err k
    | Panic s => Panic s
    end.

  (* ---------- frame.rs: document_chunk_frames ---------- *)
  Definition child_key (c : frame) : N * N :=
    (match f_cidx c with Some i => i | None => U32_MAX end, f_id c).
  Definition is_child_of (pid : N) (c : frame) : bool :=
    (f_status c =? 0) && (f_role c =? 1) &&
    match f_parent c with Some p => p =? pid | None => false end.
  Definition document_chunk_frames (st : store) (pid : N) : list frame :=
    sort_by child_key (filter (is_child_of pid) (s_frames st)).

  (* ---------- frame.rs: document_chunk_payloads ---------- *)
  Fixpoint read_children (st : store) (cs : list frame) : outcome (list (frame * bytes)) :=
    match cs with
    | [] => Ok []
    | c :: r =>
        match read_payload st c with
        | Ok raw =>
            match decode_checked E_CHUNK_CLEN c raw with
            | Ok d =>
                match read_children st r with
                | Ok l => Ok ((c, d) :: l)
                | Err k => Err k
                | Panic s => Panic s
                end
            | Err k => Err k
            | Panic s => Panic s
            end
        | Err k => Err k
        | Panic s => Panic s
        end
    end.

  Definition document_chunk_payloads (st : store) (f : frame) : outcome (list (frame * bytes)) :=
    match f_manifest f with
    | None => Err E_NO_MANIFEST
    | Some n =>
        let children := document_chunk_frames st (f_id f) in
        if null children then Err E_NO_CHILDREN
        else if negb (blen children =? n) then Err E_MANIFEST_LEN
        else read_children st (sort_by child_key children)   (* children.sort_by_key again *)
    end.

  (* ---------- frame.rs: frame_canonical_bytes ---------- *)
  Definition is_chunked_doc (f : frame) : bool := (f_role f =? 0) && is_some (f_manifest f).

  Definition frame_canonical_bytes (st : store) (f : frame) : outcome bytes :=
    if is_chunked_doc f then
      match document_chunk_payloads st f with
      | Ok l => Ok (concat (map snd l))
      | Err k => Err k
      | Panic s => Panic s
      end
    else
      match read_payload st f with
      | Ok raw => decode_checked E_CLEN f raw
      | Err k => Err k
      | Panic s => Panic s
      end.

  (* ---------- frame.rs: blob_reader_from_frame, BlobReader::read to the end ---------- *)
  Inductive blob := BFile (start len : N) | BMem (b : bytes).

  Definition blob_reader (st : store) (f : frame) : outcome blob :=
    match f_enc f with
    | Plain => Ok (BFile (f_off f) (f_len f))          (* no bounds validation on this path *)
    | Zstd =>
        match frame_canonical_bytes st f with
        | Ok b => Ok (BMem b)
        | Err k => Err k
        | Panic s => Panic s
        end
    end.
  Definition blob_len (b : blob) : N :=
    match b with BFile _ l => l | BMem x => blen x end.
  (* read_to_end: the file window, cut short where the file ends *)
  Definition blob_read_to_end (st : store) (b : blob) : bytes :=
    match b with
    | BFile s l => window (s_file st) s l
    | BMem x => x
    end.

  (* ---------- frame.rs: frame_canonical_text, frame_content (Strings as UTF-8 bytes) ---------- *)
  Definition text_or_summary (b : bytes) : bytes := if is_utf8 b then b else summary (blen b).

  Definition frame_canonical_text (st : store) (f : frame) : outcome bytes :=
    if is_chunked_doc f then
      match frame_canonical_bytes st f with
      | Ok b => Ok (text_or_summary b)
      | Err k => Err k
      | Panic s => Panic s
      end
    else
      match f_stext f with
      | Some s => Ok s
      | None =>
          match f_mime f with
          | Some false =>
              Ok (summary (match f_clen f with Some n => n | None => f_len f end))
          | _ =>
              match frame_canonical_bytes st f with
              | Ok b => Ok (text_or_summary b)
              | Err k => Err k
              | Panic s => Panic s
              end
          end
      end.

  Definition frame_content (st : store) (f : frame) : outcome bytes :=
    match (match f_stext f with Some s => if null s then None else Some s | None => None end) with
    | Some s => Ok s
    | None =>
        if (f_len f =? 0) && negb (is_some (f_manifest f)) then Ok []
        else frame_canonical_text st f
    end.

  (* ---------- mutation.rs: apply_records ---------- *)
  Record lstate := mkL {
    l_file : bytes;
    l_frames : list frame;
    l_cursor : N;                  (* data_cursor *)
    l_dend : N;                    (* self.data_end: advanced inside the loop after every written payload *)
    l_seqmap : list (N * N);       (* sequence_to_frame, newest binding first *)
    l_inserted : list N            (* delta.inserted_frames, in push order *)
  }.

  (* self as seen from inside the loop *)
  Definition view (st0 : store) (file : bytes) (dend : N) (frames : list frame) : store :=
    mkStore file (s_wal_off st0) (s_wal_size st0) dend frames (s_lex st0).

  Fixpoint lookup (k : N) (m : list (N * N)) : option N :=
    match m with
    | [] => None
    | (a, b) :: r => if a =? k then Some b else lookup k r
    end.

  Definition is_manifest_doc (frames : list frame) (cid : N) : bool :=
    match get frames cid with
    | Some c => (f_role c =? 0) && is_some (f_manifest c)
    | None => false
    end.

  Definition set_status (frames : list frame) (i : N) (status : N) (by_ : option N) : option (list frame) :=
    match get frames i with
    | None => None
    | Some f =>
        let f' := mkFrame (f_id f) (f_off f) (f_len f) (f_sum f) (f_enc f) (f_clen f) (f_role f)
                          (f_manifest f) (f_parent f) (f_cidx f) status (f_supersedes f) by_
                          (f_stext f) (f_mime f) in
        Some (firstn (N.to_nat i) frames ++ f' :: skipn (S (N.to_nat i)) frames)
    end.

  Definition or_else {A} (a b : option A) : option A := match a with Some _ => a | None => b end.

  Definition apply_insert (st0 : store) (l : lstate) (seq : N) (e : entry) : outcome lstate :=
    let frame_id := blen (l_frames l) in
    let placed : outcome (bytes * N * N * N * N * bytes * N) :=
      match e_reuse e with
      | Some src =>
          if negb (null (e_payload e)) then Err E_REUSE_INLINE
          else match get (l_frames l) src with
               | None => Err E_REUSE_MISSING
               | Some s =>
                   Ok (l_file l, l_cursor l, l_dend l, f_off s, f_len s, f_sum s,
                       match or_else (e_clen e) (f_clen s) with Some n => n | None => f_len s end)
               end
      | None =>
          let file' := write_at (l_file l) (N.to_nat (l_cursor l)) (e_payload e) in
          let plen := blen (e_payload e) in
          match (match e_enc e with
                 | Zstd => match e_clen e with
                           | Some n => Ok n
                           | None => match decode_canonical Zstd (e_payload e) with
                                     | Ok d => Ok (blen d)
                                     | Err k => Err k
                                     | Panic s => Panic s
                                     end
                           end
                 | Plain => Ok (match e_clen e with Some n => n | None => plen end)
                 end) with
          | Ok cl =>
              (* data_cursor += payload_length; self.data_end = self.data_end.max(data_cursor) *)
              Ok (file', l_cursor l + plen, N.max (l_dend l) (l_cursor l + plen), l_cursor l, plen,
                  H (e_payload e), cl)
          | Err k => Err k
          | Panic s => Panic s
          end
      end in
    match placed with
    | Err k => Err k
    | Panic s => Panic s
    | Ok (file', cursor', dend', off, len, sum, cl) =>
        let parent :=
          match e_parent_seq e with
          | None => None
          | Some ps =>
              match lookup ps (l_seqmap l) with
              | Some pid => Some pid
              | None =>
                  if e_role e =? 1
                  then find (is_manifest_doc (l_frames l)) (rev (l_inserted l))
                  else None
              end
          end in
        let frame := mkFrame frame_id off len sum (e_enc e) (Some cl) (e_role e) (e_manifest e)
                             parent (e_cidx e) 0 (e_supersedes e) None (e_stext e) (e_mime e) in
        (* index text: `Some(self.frame_content(&frame)?)` when the engine is present and the
           entry carries no search text; only its error matters here *)
        let index_read : outcome unit :=
          if s_lex st0 then
            match e_stext e with
            | Some _ => Ok tt
            | None => match frame_content (view st0 file' dend' (l_frames l)) frame with
                      | Ok _ => Ok tt
                      | Err k => Err k
                      | Panic s => Panic s
                      end
            end
          else Ok tt in
        match index_read with
        | Err k => Err k
        | Panic s => Panic s
        | Ok _ =>
            match (match e_supersedes e with
                   | None => Some (l_frames l)
                   | Some p => set_status (l_frames l) p 1 (Some frame_id)
                   end) with
            | None => Err E_SUPERSEDE_MISSING
            | Some frames1 =>
                Ok (mkL file' (frames1 ++ [frame]) cursor' dend' ((seq, frame_id) :: l_seqmap l)
                        (l_inserted l ++ [frame_id]))
            end
        end
    end.

  Definition apply_one (st0 : store) (l : lstate) (r : record) : outcome lstate :=
    match r with
    | RLex => Ok l
    | RInsert seq e => apply_insert st0 l seq e
    | RTombstone None => Err E_TOMB_NOREF
    | RTombstone (Some t) =>
        match set_status (l_frames l) t 2 None with
        | None => Err E_DELETE_MISSING
        | Some fr => Ok (mkL (l_file l) fr (l_cursor l) (l_dend l) (l_seqmap l) (l_inserted l))
        end
    end.

  Fixpoint apply_loop (st0 : store) (l : lstate) (rs : list record) : outcome lstate :=
    match rs with
    | [] => Ok l
    | r :: rest =>
        match apply_one st0 l r with
        | Ok l' => apply_loop st0 l' rest
        | Err k => Err k
        | Panic s => Panic s
        end
    end.

  (* second pass: orphan DocumentChunk frames get the most recent earlier active manifest document *)
  Fixpoint find_candidate (frames : list frame) (n : nat) : option N :=
    match n with
    | O => None
    | S k =>
        match nth_error frames k with
        | Some c => if (f_role c =? 0) && is_some (f_manifest c) && (f_status c =? 0)
                    then Some (N.of_nat k) else find_candidate frames k
        | None => find_candidate frames k
        end
    end.
  Definition set_parent (f : frame) (p : N) : frame :=
    mkFrame (f_id f) (f_off f) (f_len f) (f_sum f) (f_enc f) (f_clen f) (f_role f) (f_manifest f)
            (Some p) (f_cidx f) (f_status f) (f_supersedes f) (f_superseded_by f) (f_stext f) (f_mime f).
  Definition resolve_orphan (orig : list frame) (inserted : list N) (f : frame) : frame :=
    if existsb (N.eqb (f_id f)) inserted && (f_role f =? 1) && negb (is_some (f_parent f)) then
      match find_candidate orig (N.to_nat (f_id f)) with
      | Some p => set_parent f p
      | None => f
      end
    else f.
  Definition resolve_orphans (frames : list frame) (inserted : list N) : list frame :=
    map (resolve_orphan frames inserted) frames.

  Definition apply_records (st : store) (rs : list record) : outcome store :=
    match rs with
    | [] => Ok st
    | _ =>
        match apply_loop st (mkL (s_file st) (s_frames st) (s_data_end st) (s_data_end st) [] []) rs with
        | Ok l =>
            Ok (mkStore (l_file l) (s_wal_off st) (s_wal_size st)
                        (N.max (l_dend l) (l_cursor l))
                        (resolve_orphans (l_frames l) (l_inserted l)) (s_lex st))
        | Err k => Err k
        | Panic s => Panic s
        end
    end.

  (* ---------- mutation.rs: the log entries put_internal / update_frame build ---------- *)
  (* what the extractor / augment_search_text produced for an entry: oracle inputs *)
  Record meta := mkMeta { m_stext : option bytes; m_mime : option bool }.

  (* payload stored whole: (prepared, encoding, length) of prepare; role Document *)
  Definition whole_entry (level : Z) (p : bytes) (m : meta) (supersedes : option N) : entry :=
    let '(stored, e, cl) := prepare level p in
    mkEntry stored e cl None 0 None None None supersedes (m_stext m) (m_mime m).

  (* chunked text: the parent stores nothing (Vec::new(), Plain, Some(0)) and carries the manifest *)
  Definition parent_entry (nchunks : N) (m : meta) (supersedes : option N) : entry :=
    mkEntry [] Plain (Some 0) None 0 (Some nchunks) None None supersedes (m_stext m) (m_mime m).
  (* chunk idx: prepare_canonical_payload(chunk_text.as_bytes()) -- always level 3 *)
  Definition chunk_entry (parent_seq : N) (idx : N) (c : bytes) (m : meta) : entry :=
    let '(stored, e, cl) := prepare_default c in
    mkEntry stored e cl None 1 None (Some idx) (Some parent_seq) None (m_stext m) (m_mime m).

  Fixpoint chunk_records (parent_seq : N) (idx : N) (cs : list (bytes * meta)) : list record :=
    match cs with
    | [] => []
    | (c, m) :: r =>
        RInsert (parent_seq + 1 + idx) (chunk_entry parent_seq idx c m)
        :: chunk_records parent_seq (idx + 1) r
    end.

  (* the records one put_internal call appends, starting at log sequence `seq` *)
  Definition put_whole_records (seq : N) (level : Z) (p : bytes) (m : meta) (sup : option N) : list record :=
    [RInsert seq (whole_entry level p m sup)].
  Definition put_chunked_records (seq : N) (cs : list (bytes * meta)) (m : meta) (sup : option N) : list record :=
    RInsert seq (parent_entry (blen cs) m sup) :: chunk_records seq 0 cs.

  (* a payload that is not UTF-8 (no raw chunk plan) whose extracted text is long enough to be
     planned (`chunk_plan = plan_text_chunks(doc.text)`): the parent stores the prepared payload
     AND carries the manifest of the extracted text's chunks *)
  Definition with_manifest (e : entry) (n : N) : entry :=
    mkEntry (e_payload e) (e_enc e) (e_clen e) (e_reuse e) (e_role e) (Some n) (e_cidx e)
            (e_parent_seq e) (e_supersedes e) (e_stext e) (e_mime e).
  Definition put_extracted_records (seq : N) (level : Z) (p : bytes) (cs : list (bytes * meta))
             (m : meta) (sup : option N) : list record :=
    RInsert seq (with_manifest (whole_entry level p m sup) (blen cs)) :: chunk_records seq 0 cs.

  (* a put whose payload is stored in the parent frame: `plan` = the chunk plan made from the
     extracted text (None for the ordinary case) *)
  Definition put_stored_records (seq : N) (level : Z) (p : bytes) (plan : option (list (bytes * meta)))
             (m : meta) (sup : option N) : list record :=
    match plan with
    | None => put_whole_records seq level p m sup
    | Some cs => put_extracted_records seq level p cs m sup
    end.
  (* known finding F-C07-2: the stored payload is shadowed by the chunk manifest *)
  Definition known_class (plan : option (list (bytes * meta))) : bool := is_some plan.

  (* update_frame without payload: (Vec::new(), frame.canonical_encoding, frame.canonical_length,
     Some(frame.id)) ; role = options.role (Document) *)
  Definition reuse_entry (src : frame) (m : meta) : entry :=
    mkEntry [] (f_enc src) (f_clen src) (Some (f_id src)) 0 None None None (Some (f_id src))
            (m_stext m) (m_mime m).

  (* ---------- the one read during apply that cannot succeed ---------- *)
  (* entry.search_text is None on a chunked parent: frame_content goes to document_chunk_payloads
     while the chunk frames are not inserted yet ("manifest missing children").  put_internal never
     builds such an entry: with a chunk plan the parent's search text is the first chunk's. *)
  Definition parent_without_text (e : entry) : bool :=
    match e_stext e with
    | Some _ => false
    | None => (e_role e =? 0) && is_some (e_manifest e)
    end.

  (* ---------- log growth: shift_data_for_wal_growth + adjust_offsets_after_wal_growth ---------- *)
  (* frames: `if frame.payload_offset != 0 { frame.payload_offset += delta }` ; file: everything
     from the old end of the log region moves up by delta, the gap is zero-filled *)
  Definition shift_frame (delta : N) (f : frame) : frame :=
    mkFrame (f_id f) (if f_off f =? 0 then f_off f else f_off f + delta) (f_len f) (f_sum f) (f_enc f) (f_clen f) (f_role f)
            (f_manifest f) (f_parent f) (f_cidx f) (f_status f) (f_supersedes f) (f_superseded_by f)
            (f_stext f) (f_mime f).
  Definition grow_wal (st : store) (delta : N) : store :=
    if delta =? 0 then st else
    let data_start := N.to_nat (s_wal_off st + s_wal_size st) in
    mkStore (firstn data_start (s_file st) ++ repeat 0 (N.to_nat delta) ++ skipn data_start (s_file st))
            (s_wal_off st) (s_wal_size st + delta) (s_data_end st + delta)
            (map (shift_frame delta) (s_frames st)) (s_lex st).
End Content.
