(* Model of src/text.rs: normalize_text and truncate_at_grapheme_boundary.
   Definitions only; proofs are in Proofs/TextProofs.v.

   A &str is the list of its code points (cp = N).  Byte lengths (`str::len`) are computed with
   the exact UTF-8 width of every code point, so limits are real byte limits.

   Unicode tables are NOT modelled; they are Section variables (oracles):
     nfkc          : list cp -> list cp           unicode_normalization  .nfkc()
     is_control    : cp -> bool                   char::is_control
     is_whitespace : cp -> bool                   char::is_whitespace
     graphemes     : list cp -> list (list cp)    unicode_segmentation   .graphemes(true)
   The correspondence run instantiates them with finite tables of the real values for exactly the
   strings of each case (Corr/C33.v). *)
From MV Require Import Base.Prelude.
Local Open Scope N_scope.

Definition cp := N.

Definition NL : cp := 10.   (* '\n' *)
Definition CR : cp := 13.   (* '\r' *)
Definition TAB : cp := 9.   (* '\t' *)
Definition SP : cp := 32.   (* ' '  *)

(* char::len_utf8 *)
Definition utf8_width (c : cp) : N :=
  if c <? 128 then 1 else if c <? 2048 then 2 else if c <? 65536 then 3 else 4.

(* str::len *)
Fixpoint byte_len (s : list cp) : N :=
  match s with
  | [] => 0
  | c :: r => utf8_width c + byte_len r
  end.

Fixpoint drop_while (p : cp -> bool) (s : list cp) : list cp :=
  match s with
  | [] => []
  | c :: r => if p c then drop_while p r else s
  end.

(* `cleaned` is kept REVERSED (head = last pushed char) so that push / pop / ends_with are O(1) *)
Definition ends_with (rc : list cp) (c : cp) : bool :=
  match rc with
  | x :: _ => x =? c
  | [] => false
  end.

(* while cleaned.ends_with(' ') { cleaned.pop(); } *)
Fixpoint pop_spaces (rc : list cp) : list cp :=
  match rc with
  | c :: r => if c =? SP then pop_spaces r else rc
  | [] => []
  end.

(* loop state: (reversed cleaned, last_was_space, last_was_newline) *)
Definition cstate := (list cp * bool * bool)%type.

Section Oracles.
  Variable nfkc : list cp -> list cp.
  Variable is_control : cp -> bool.
  Variable is_whitespace : cp -> bool.
  Variable graphemes : list cp -> list (list cp).

  (* the two `if ch == ..` substitutions at the top of the loop body *)
  Definition map_ch (ch0 : cp) : cp :=
    let ch := if ch0 =? CR then NL else ch0 in
    if ch =? TAB then SP else ch.

  (* `ch.is_control() && ch != '\n'` -> continue *)
  Definition removed (ch : cp) : bool := is_control ch && negb (ch =? NL).

  (* one iteration of `for mut ch in normalised.chars()` *)
  Definition clean_step (st : cstate) (ch0 : cp) : cstate :=
    let '(rc, lws, lwn) := st in
    let ch := map_ch ch0 in
    if removed ch then st
    else if ch =? NL then
      if lwn then st
      else (NL :: pop_spaces rc, false, true)
    else if is_whitespace ch then
      if lws || ends_with rc NL then st
      else (SP :: rc, true, false)
    else (ch :: rc, false, false).

  Fixpoint clean_loop (st : cstate) (s : list cp) : cstate :=
    match s with
    | [] => st
    | c :: r => clean_loop (clean_step st c) r
    end.

  Definition clean (s : list cp) : list cp :=
    let '(rc, _, _) := clean_loop ([], false, false) s in rev rc.

  (* cleaned.trim_matches(|c| c.is_whitespace()) *)
  Definition trim_ws (s : list cp) : list cp :=
    rev (drop_while is_whitespace (rev (drop_while is_whitespace s))).

  (* `for grapheme in trimmed.graphemes(true)`: returns (out, truncated).
     `consumed + grapheme.len()` cannot overflow: it is at most trimmed.len() <= isize::MAX. *)
  Fixpoint take_graphemes (limit consumed : N) (gs : list (list cp)) : list cp * bool :=
    match gs with
    | [] => ([], false)
    | g :: r =>
        let next := consumed + byte_len g in
        if limit <? next then ([], true)
        else let '(o, t) := take_graphemes limit next r in (g ++ o, t)
    end.

  (* the text between trimming and truncation *)
  Definition trimmed_of (input : list cp) : list cp := trim_ws (clean (nfkc input)).

  (* normalize_text: None, or Some (text, truncated) *)
  Definition normalize_text (input : list cp) (limit0 : N) : option (list cp * bool) :=
    let limit := N.max limit0 1 in
    let trimmed := trimmed_of input in
    match trimmed with
    | [] => None
    | _ :: _ =>
        let gs := graphemes trimmed in
        let '(out, truncated) := take_graphemes limit 0 gs in
        match out with
        | [] =>
            (* fallback: the first grapheme even if it exceeds the limit *)
            match gs with
            | first :: _ => Some (first, true)
            | [] => Some ([], truncated)
            end
        | _ :: _ => Some (out, truncated)
        end
    end.

  (* `for (idx, grapheme) in s.grapheme_indices(true)`: idx is the byte offset of the grapheme,
     i.e. the byte length of the graphemes before it *)
  Fixpoint trunc_loop (limit idx end_ : N) (gs : list (list cp)) : N :=
    match gs with
    | [] => end_
    | g :: r =>
        let next := idx + byte_len g in
        if limit <? next then end_ else trunc_loop limit next next r
    end.

  Definition truncate_at_grapheme_boundary (s : list cp) (limit : N) : N :=
    if byte_len s <=? limit then byte_len s
    else
      let end_ := trunc_loop limit 0 0 (graphemes s) in
      if end_ =? 0 then
        match graphemes s with
        | first :: _ => byte_len first
        | [] => 0
        end
      else end_.

  (* ---- known-finding classes (decided with the oracles) ---- *)

  (* some code point of nfkc(input) is dropped by the control-character filter *)
  Definition removes_control (input : list cp) : bool :=
    existsb (fun c => removed (map_ch c)) (nfkc input).

  Definition cps_eqb (a b : list cp) : bool := list_eqb N.eqb a b.

  (* F-C33-1: a removed control character shielded its neighbours from NFKC: the output is not
     NFKC-normalized *)
  Definition known_shield (input : list cp) (limit : N) : bool :=
    match normalize_text input limit with
    | Some (out, _) => removes_control input && negb (cps_eqb (nfkc out) out)
    | None => false
    end.

  (* F-C33-2: the truncation cut falls right after a whitespace grapheme: trailing whitespace *)
  Definition known_trailing (input : list cp) (limit : N) : bool :=
    match normalize_text input limit with
    | Some (out, tr) => tr && is_whitespace (last out 0)
    | None => false
    end.

End Oracles.

(* ---- concrete predicates of the Rust standard library (tiny tables; used for the refutation
   witnesses and compared with char::is_control / char::is_whitespace on every code point of the
   correspondence run) ---- *)

(* General_Category = Cc *)
Definition std_is_control (c : cp) : bool := (c <? 32) || ((127 <=? c) && (c <? 160)).

(* White_Space property *)
Definition std_is_whitespace (c : cp) : bool :=
  ((9 <=? c) && (c <=? 13)) || (c =? 32) || (c =? 133) || (c =? 160) || (c =? 5760) ||
  ((8192 <=? c) && (c <=? 8202)) || (c =? 8232) || (c =? 8233) || (c =? 8239) || (c =? 8287) ||
  (c =? 12288).

(* toy oracles for witnesses: every code point its own grapheme, except that U+0301 (an Extend
   character) joins the code point before it; NFKC composes "a" + U+0301 into U+00E1.  On the
   witness strings these agree with the real crates (re-checked in every correspondence run). *)
Fixpoint toy_graphemes_from (cur : list cp) (s : list cp) : list (list cp) :=
  match s with
  | [] => [rev cur]
  | c :: r => if c =? 769 then toy_graphemes_from (c :: cur) r
              else rev cur :: toy_graphemes_from [c] r
  end.
Definition toy_graphemes (s : list cp) : list (list cp) :=
  match s with
  | [] => []
  | c :: r => toy_graphemes_from [c] r
  end.

Fixpoint toy_nfkc (s : list cp) : list cp :=
  match s with
  | [] => []
  | c :: r =>
      match r with
      | d :: r' => if (c =? 97) && (d =? 769) then 225 :: toy_nfkc r' else c :: toy_nfkc r
      | [] => [c]
      end
  end.
