(* Model of what Memvid::search does with the search engine's answer (C10):
     src/memvid/search/tantivy.rs  try_tantivy_search, from `for hit in search_hits` to the
                                   response (post-evaluation, snippet slices, hit assembly,
                                   ranks), uri_matches;
     src/memvid/frame.rs           resolve_chunk_context, document_chunk_payloads,
                                   document_chunk_frames;
     src/memvid/search/helpers.rs  collect_token_occurrences (sort_unstable + dedup on top of
                                   C35's find loop);
     src/memvid/search/fallback.rs search_with_lex_fallback and search_with_filters_only (the
                                   second pipeline).
   Imported, not redone: the query parser / evaluator (Model/Query.v, C32), the snippet slices,
   str slicing and the occurrence find loop (Model/Snippet.v, C35), parse_cursor
   (Model/SearchPage.v, C16).

   Strings.  Query.v works on code points (`str`), Snippet.v on UTF-8 bytes.  A Rust String
   is kept as its code points; `utf8` below is the UTF-8 encoder, so byte offsets (`str::len`,
   `str::find`, `&s[a..b]`) are those of the real string.

   Oracles (everything the code reads from outside the function):
     * the engine answer: ANY list of (frame id, f32 score bits)            -> argument `cands`
     * engine.analyse_text on the query tokens (Tantivy's analyser)         -> argument `tokens`
     * the frame table toc.frames                                           -> argument `tbl`
     * per frame, read_frame_payload_bytes + decode_canonical_bytes (file, zstd) followed by
       String::from_utf8_lossy: `f_payload = Some (decoded byte length, lossy text)`, None = Err
     * parse_content_date_to_timestamp                                      -> Section variable
     * the f32 recency re-sort (sort_by on combined scores)                 -> Section variable
       `resort`; the theorems assume only that it returns members of its input
     * char::is_alphanumeric / parse_date_value (C32's oracles)             -> Section variables
     * LexIndex::compute_matches (legacy index)                             -> argument `matches`
   Executable definitions only. *)
From MV Require Import Base.Prelude Base.SortFacts Model.Query Model.Snippet.
From MV Require Model.SearchPage.
Local Open Scope N_scope.

(* ---------------------------------------------------------------- UTF-8 *)
Definition utf8_cp (c : N) : bytes :=
  if c <? 128 then [c]
  else if c <? 2048 then [192 + c / 64; 128 + c mod 64]
  else if c <? 65536 then [224 + c / 4096; 128 + (c / 64) mod 64; 128 + c mod 64]
  else [240 + c / 262144; 128 + (c / 4096) mod 64; 128 + (c / 64) mod 64; 128 + c mod 64].
Definition utf8 (s : str) : bytes := flat_map utf8_cp s.

Definition llen {A} (l : list A) : N := N.of_nat (length l).

(* ---------------------------------------------------------------- frames *)
(* status: 0 Active, 1 Superseded, 2 Deleted;  role: 0 Document, 1 DocumentChunk, 2 ExtractedImage *)
Record frame := mkFrame {
  f_id : N;
  f_status : N;
  f_role : N;
  f_uri : option str;
  f_track : option str;
  f_tags : list str;
  f_labels : list str;
  f_ts : Z;
  f_dates : list str;              (* content_dates *)
  f_search_text : option str;
  f_parent : option N;             (* parent_id *)
  f_chunk_index : option N;
  f_manifest : option N;           (* chunk_manifest.map(|m| m.chunks.len()) *)
  f_canon_len : option N;          (* canonical_length *)
  f_payload : option (N * str)     (* decoded payload: (bytes.len(), from_utf8_lossy(bytes)) *)
}.

Definition table := list frame.
(* toc.frames.get(usize::try_from(id).unwrap_or(usize::MAX)) *)
Definition get (tbl : table) (id : N) : option frame := nth_error tbl (N.to_nat id).
Definition is_active (tbl : table) (id : N) : bool :=
  match get tbl id with Some f => f_status f =? 0 | None => false end.

Definition E_INVALID_FRAME : N := 20.
Definition E_LEX_NOT_ENABLED : N := 21.

Definition optN_eqb (a b : option N) : bool :=
  match a, b with Some x, Some y => x =? y | None, None => true | _, _ => false end.

(* ---------------------------------------------------------------- frame.rs *)
Definition U32_MAX : N := 4294967295.
(* sort_by_key(|f| (f.chunk_index.unwrap_or(u32::MAX), f.id)) *)
Definition child_key (f : frame) : N * N :=
  (match f_chunk_index f with Some i => i | None => U32_MAX end, f_id f).
Definition pair_leb (a b : N * N) : bool :=
  (fst a <? fst b) || ((fst a =? fst b) && (snd a <=? snd b)).
Definition child_leb (a b : frame) : bool := pair_leb (child_key a) (child_key b).

(* document_chunk_frames: Active DocumentChunk frames of that parent, sorted (the second, identical
   stable sort in document_chunk_payloads leaves a sorted list unchanged) *)
Definition document_chunk_frames (tbl : table) (pid : N) : list frame :=
  isort child_leb
        (filter (fun c => (f_status c =? 0) && (f_role c =? 1) && optN_eqb (f_parent c) (Some pid)) tbl).

(* read_frame_payload_bytes + decode_canonical_bytes + the canonical_length check *)
Definition decoded_payload (f : frame) : outcome (N * str) :=
  match f_payload f with
  | None => Err E_INVALID_FRAME
  | Some (n, s) =>
      match f_canon_len f with
      | Some expected => if n =? expected then Ok (n, s) else Err E_INVALID_FRAME
      | None => Ok (n, s)
      end
  end.

Fixpoint collect_payloads (children : list frame) : outcome (list (frame * (N * str))) :=
  match children with
  | [] => Ok []
  | c :: r =>
      match decoded_payload c with
      | Ok p => match collect_payloads r with
                | Ok ps => Ok ((c, p) :: ps)
                | Err k => Err k
                | Panic k => Panic k
                end
      | Err k => Err k
      | Panic k => Panic k
      end
  end.

Definition document_chunk_payloads (tbl : table) (f : frame) : outcome (list (frame * (N * str))) :=
  match f_manifest f with
  | None => Err E_INVALID_FRAME
  | Some nchunks =>
      let children := document_chunk_frames tbl (f_id f) in
      match children with
      | [] => Err E_INVALID_FRAME
      | _ => if llen children =? nchunks then collect_payloads children else Err E_INVALID_FRAME
      end
  end.

(* ChunkInfo { start, end, text } *)
Record chunk_info := mkCi { ci_start : N; ci_end : N; ci_text : str }.

(* `end = search_text.len()` *)
Definition ci_of_text (s : str) : chunk_info := mkCi 0 (len (utf8 s)) s.
(* `end = offset + bytes.len(); text = from_utf8_lossy(bytes)` *)
Definition ci_of_payload (start : N) (p : N * str) : chunk_info := mkCi start (start + fst p) (snd p).

(* the two identical tails: search_text, else the frame's own canonical bytes *)
Definition own_ci (f : frame) : outcome chunk_info :=
  match f_search_text f with
  | Some s => Ok (ci_of_text s)
  | None => match decoded_payload f with
            | Ok p => Ok (ci_of_payload 0 p)
            | Err k => Err k
            | Panic k => Panic k
            end
  end.

(* for (_, bytes) in payloads.iter().take(idx) { offset += bytes.len() } *)
Definition offset_of (payloads : list (frame * (N * str))) (idx : nat) : N :=
  fold_left (fun acc p => acc + fst (snd p)) (firstn idx payloads) 0.

(* DocumentChunk, "new format": position inside the parent's concatenated chunks *)
Definition chunk_via_parent (tbl : table) (f : frame) : option chunk_info :=
  match f_parent f with
  | None => None
  | Some pid =>
      match get tbl pid with
      | None => None
      | Some parent =>
          match f_manifest parent with
          | None => None
          | Some _ =>
              match document_chunk_payloads tbl parent with
              | Ok payloads =>
                  match f_chunk_index f with
                  | None => None
                  | Some idx =>
                      match nth_error payloads (N.to_nat idx) with
                      | Some (_, p) => Some (ci_of_payload (offset_of payloads (N.to_nat idx)) p)
                      | None => None
                      end
                  end
              | _ => None
              end
          end
      end
  end.

Definition resolve_chunk_context (tbl : table) (f : frame) : outcome chunk_info :=
  if f_role f =? 0 then
    match f_manifest f with
    | Some _ =>
        match document_chunk_payloads tbl f with
        | Ok [] => Err E_INVALID_FRAME
        | Ok ((_, p) :: _) => Ok (ci_of_payload 0 p)
        | Err k => Err k
        | Panic k => Panic k
        end
    | None => own_ci f
    end
  else if f_role f =? 1 then
    match chunk_via_parent tbl f with
    | Some ci => Ok ci
    | None => own_ci f
    end
  else Ok (mkCi 0 0 []).

(* ---------------------------------------------------------------- helpers.rs *)
Definition pair_eqb (a b : N * N) : bool := (fst a =? fst b) && (snd a =? snd b).
(* Vec::dedup: drops every element equal to its predecessor *)
Fixpoint dedup (l : list (N * N)) : list (N * N) :=
  match l with
  | x :: r => match r with
              | y :: _ => if pair_eqb x y then dedup r else x :: dedup r
              | [] => [x]
              end
  | [] => []
  end.
(* occurrences.sort_unstable(); occurrences.dedup();   (tokens are the analyser's output: trim is
   the identity on them, empty ones are skipped by the find loop) *)
Definition collect_token_occurrences (hay : bytes) (tokens : list bytes) : list (N * N) :=
  dedup (isort pair_leb (collect_token_occurrences_unsorted hay tokens)).

(* ---------------------------------------------------------------- request *)
Record request := mkRq {
  rq_top_k : N;
  rq_snippet_chars : N;
  rq_uri : option str;
  rq_scope : option str;
  rq_cursor : SearchPage.cursor
}.

Definition c_hash : N := 35.

(* fn uri_matches(candidate: Option<&str>, expected: &str) *)
Definition uri_matches (candidate : option str) (expected : str) : bool :=
  match candidate with
  | None => false
  | Some uri =>
      if existsb (N.eqb c_hash) expected then eq_ignore_case uri expected
      else is_prefix (lower expected) (lower uri)
  end.

Definition uri_filter (rq : request) : option str := rq_uri rq.
Definition scope_filter (rq : request) : option str :=
  match rq_uri rq with Some _ => None | None => rq_scope rq end.

(* the uri / scope cull of the evaluation loop *)
Definition passes_filters (rq : request) (f : frame) : bool :=
  match uri_filter rq with
  | Some expected => uri_matches (f_uri f) expected
  | None =>
      match scope_filter rq with
      | Some scope => match f_uri f with Some uri => is_prefix scope uri | None => false end
      | None => true
      end
  end.

(* eval_text = frame.search_text.map(to_ascii_lowercase).unwrap_or_else(|| chunk_info.text.to_ascii_lowercase()) *)
Definition eval_text (f : frame) (ci : chunk_info) : str :=
  match f_search_text f with Some s => lower s | None => lower (ci_text ci) end.

(* EvaluationContext { frame, content_lower } as C32's document *)
Definition doc_of (f : frame) (content_lower : str) : doc :=
  mkDoc (f_uri f) (f_track f) (f_tags f) (f_labels f) (f_ts f) (f_dates f) content_lower.

(* an element of `evaluated` *)
Record ev := mkEv {
  ev_frame : N; ev_score : N; ev_occ : list (N * N); ev_slices : list (N * N);
  ev_ci : chunk_info; ev_ts : Z }.

Record hit := mkHit {
  h_rank : N; h_frame : N; h_range : N * N; h_text : bytes; h_matches : N;
  h_chunk_range : N * N; h_chunk_text : bytes; h_score : N }.

Record response := mkResp { r_hits : list hit; r_total : N; r_next : option N; r_engine : N }.
Definition ENGINE_TANTIVY : N := 0.
Definition ENGINE_LEX_FALLBACK : N := 1.
Definition empty_response (engine : N) : response := mkResp [] 0 None engine.

Definition total_slices (evs : list ev) : N := fold_right (fun d acc => llen (ev_slices d) + acc) 0 evs.

Section Pipeline.
  Variable parse_date : str -> option Z.            (* parse_date_value (C32) *)
  Variable content_ts : list str -> option Z.       (* parse_content_date_to_timestamp *)
  Variable resort : list ev -> list ev.             (* the recency re-sort *)

  Variable tbl : table.
  Variable parsed : expr.                           (* parse_query(&request.query) *)
  Variable tokens : list bytes.                     (* stemmed_tokens *)
  Variable rq : request.

  Definition snippet_window : N := N.max (rq_snippet_chars rq) 80.
  Definition max_snippets_per_doc : N := N.max (rq_top_k rq) 1.

  (* body of `for hit in search_hits`: Ok None = `continue` *)
  Definition post_eval_one (c : N * N) : outcome (option ev) :=
    match get tbl (fst c) with
    | None => Ok None                                            (* stale frame id *)
    | Some frame_meta =>
        if negb (passes_filters rq frame_meta) then Ok None
        else
          match resolve_chunk_context tbl frame_meta with
          | Err _ => Ok None                                     (* warn!, continue *)
          | Panic s => Panic s
          | Ok chunk_info =>
              let et := eval_text frame_meta chunk_info in
              if negb (eval parse_date parsed (doc_of frame_meta et)) then Ok None
              else
                let occurrences := collect_token_occurrences (utf8 et) tokens in
                match compute_snippet_slices (utf8 (ci_text chunk_info)) occurrences
                                             snippet_window max_snippets_per_doc with
                | Panic s => Panic s
                | Err k => Err k
                | Ok [] => Ok None
                | Ok slices =>
                    let effective_ts := match content_ts (f_dates frame_meta) with
                                        | Some t => t | None => f_ts frame_meta end in
                    Ok (Some (mkEv (fst c) (snd c) occurrences slices chunk_info effective_ts))
                end
          end
    end.

  Fixpoint evaluate_all (cands : list (N * N)) : outcome (list ev) :=
    match cands with
    | [] => Ok []
    | c :: r =>
        match post_eval_one c with
        | Ok o => match evaluate_all r with
                  | Ok l => Ok (match o with Some d => d :: l | None => l end)
                  | Err k => Err k
                  | Panic s => Panic s
                  end
        | Err k => Err k
        | Panic s => Panic s
        end
    end.

  (* ---- hit assembly ---- *)
  Variable k : N.        (* effective_top_k *)
  Variable offset : N.   (* parse_cursor(..) *)

  Definition pstate := (list hit * N)%type.    (* hits, produced *)

  (* occurrences.iter().filter(|(s, e)| *s >= local_start && *e <= local_end).count().max(1) *)
  Definition matches_in (occ : list (N * N)) (ls le : N) : N :=
    N.max (llen (filter (fun o => (ls <=? fst o) && (snd o <=? le)) occ)) 1.

  (* for (start, end) in slices { ... } *)
  Fixpoint inner_loop (d : ev) (sls : list (N * N)) (st : pstate) : outcome pstate :=
    match sls with
    | [] => Ok st
    | (start, end_) :: r =>
        let '(hits, produced) := st in
        if produced <? offset then inner_loop d r (hits, produced + 1)
        else if llen hits =? k then Ok st
        else
          let chunk_bytes := utf8 (ci_text (ev_ci d)) in
          let local_start := N.min start (len chunk_bytes) in
          let local_end := N.min end_ (len chunk_bytes) in
          if local_end <=? local_start then inner_loop d r (hits, produced + 1)
          else
            let global_start := ci_start (ev_ci d) + local_start in
            let global_end := ci_start (ev_ci d) + local_end in
            if global_end <=? global_start then inner_loop d r (hits, produced + 1)
            else
              match str_slice chunk_bytes local_start local_end with     (* chunk_text[local_start..local_end] *)
              | Ok snippet_text =>
                  let h := mkHit (llen hits + 1) (ev_frame d) (global_start, global_end) snippet_text
                                 (matches_in (ev_occ d) local_start local_end)
                                 (ci_start (ev_ci d), ci_end (ev_ci d)) chunk_bytes (ev_score d) in
                  inner_loop d r (hits ++ [h], produced + 1)
              | Err e => Err e
              | Panic s => Panic s
              end
    end.

  (* for (hit, occurrences, slices, chunk_info, _) in evaluated { ... } *)
  Fixpoint outer_loop (evs : list ev) (st : pstate) : outcome pstate :=
    match evs with
    | [] => Ok st
    | d :: r =>
        let '(hits, produced) := st in
        if (llen hits =? k) && (offset <=? produced) then Ok st
        else
          match get tbl (ev_frame d) with
          | None => outer_loop r st                       (* stale frame id in snippet assembly *)
          | Some _ =>
              match inner_loop d (ev_slices d) st with
              | Ok st' => outer_loop r st'
              | Err e => Err e
              | Panic s => Panic s
              end
          end
    end.
End Pipeline.

(* try_tantivy_search after the engine call.  Ok None = "the legacy pipeline answers". *)
Definition tantivy_post (parse_date : str -> option Z) (content_ts : list str -> option Z)
           (resort : list ev -> list ev) (has_lex_data : bool)
           (tbl : table) (parsed : expr) (tokens : list bytes) (rq : request) (cands : list (N * N))
  : outcome (option response) :=
  match cands with
  | [] => if has_lex_data then Ok None else Ok (Some (empty_response ENGINE_TANTIVY))
  | _ =>
      match evaluate_all parse_date content_ts tbl parsed tokens rq cands with
      | Panic s => Panic s
      | Err e => Err e
      | Ok evaluated0 =>
          let evaluated := if 1 <? llen evaluated0 then resort evaluated0 else evaluated0 in
          match evaluated with
          | [] => Ok None
          | _ =>
              let total := total_slices evaluated in
              if total =? 0 then Ok None
              else
                match SearchPage.parse_cursor (rq_cursor rq) total with
                | Err e => Err e
                | Panic s => Panic s
                | Ok offset =>
                    match outer_loop tbl (N.max (rq_top_k rq) 1) offset evaluated ([], 0) with
                    | Ok (hits, produced) =>
                        Ok (Some (mkResp hits total (if produced <? total then Some produced else None)
                                         ENGINE_TANTIVY))
                    | Err e => Err e
                    | Panic s => Panic s
                    end
                end
          end
      end
  end.

(* ---------------------------------------------------------------- fallback.rs *)
(* LexMatch { frame_id, score, content, occurrences, chunk_offset } as the legacy index returns it
   (compute_matches applies the uri / scope filter itself: part of the oracle) *)
Record lex_match := mkLm {
  lm_frame : N; lm_score : N; lm_content : str; lm_occ : list (N * N); lm_chunk_offset : N }.

(* frame_content: search_text if non-empty; empty if no payload and no manifest; else
   frame_canonical_text (an oracle for everything but the search_text case: `canonical`) *)
Section Fallback.
  Variable parse_date : str -> option Z.
  Variable canonical_text : frame -> outcome str.     (* frame_canonical_text *)
  Variable tbl : table.
  Variable parsed : expr.
  Variable rq : request.
  Variable candidate_filter : option (list N).

  Definition frame_content (f : frame) : outcome str :=
    match f_search_text f with
    | Some (c :: s) => Ok (c :: s)
    | _ => canonical_text f
    end.

  Definition in_filter (id : N) : bool :=
    match candidate_filter with Some l => existsb (N.eqb id) l | None => true end.

  (* the first loop of search_with_lex_fallback *)
  Definition lex_eval_one (m : lex_match) : outcome (option (lex_match * list (N * N))) :=
    if negb (in_filter (lm_frame m)) then Ok None
    else match get tbl (lm_frame m) with
         | None => Ok None
         | Some frame_meta =>
             if negb (eval parse_date parsed (doc_of frame_meta (lower (lm_content m)))) then Ok None
             else match compute_snippet_slices (utf8 (lm_content m)) (lm_occ m)
                                               (N.max (rq_snippet_chars rq) 80) (N.max (rq_top_k rq) 1) with
                  | Ok sl => Ok (Some (m, sl))
                  | Err e => Err e
                  | Panic s => Panic s
                  end
         end.

  Fixpoint lex_evaluate (ms : list lex_match) : outcome (list (lex_match * list (N * N))) :=
    match ms with
    | [] => Ok []
    | m :: r =>
        match lex_eval_one m with
        | Ok o => match lex_evaluate r with
                  | Ok l => Ok (match o with Some x => x :: l | None => l end)
                  | Err e => Err e
                  | Panic s => Panic s
                  end
        | Err e => Err e
        | Panic s => Panic s
        end
    end.

  Variable k : N.
  Variable offset : N.

  (* String::from_utf8_lossy(&canonical_bytes[a..b]): a byte slice never panics for a <= b <= len *)
  Definition byte_slice (b : bytes) (a e : N) : bytes := firstn (N.to_nat (e - a)) (skipn (N.to_nat a) b).

  Fixpoint lex_inner (m : lex_match) (fm : frame) (canonical : bytes) (sls : list (N * N)) (st : list hit * N)
    : list hit * N :=
    match sls with
    | [] => st
    | (start, end_) :: r =>
        let '(hits, produced) := st in
        if produced <? offset then lex_inner m fm canonical r (hits, produced + 1)
        else if llen hits =? k then st
        else
          let canonical_limit := match f_canon_len fm with Some l => l | None => len canonical end in
          let effective_len := N.min canonical_limit (len canonical) in
          let chunk_start := lm_chunk_offset m in
          let chunk_end := N.min (chunk_start + len (utf8 (lm_content m))) effective_len in
          if chunk_end <=? chunk_start then lex_inner m fm canonical r (hits, produced + 1)
          else
            let global_start := N.min (chunk_start + start) chunk_end in
            let global_end := N.min (chunk_start + end_) chunk_end in
            if global_end <=? global_start then lex_inner m fm canonical r (hits, produced + 1)
            else
              let h := mkHit (llen hits + 1) (lm_frame m) (global_start, global_end)
                             (byte_slice canonical global_start global_end)
                             (N.max (llen (filter (fun o => (start <=? fst o) && (snd o <=? end_)) (lm_occ m))) 1)
                             (chunk_start, chunk_end) (byte_slice canonical chunk_start chunk_end) (lm_score m) in
              lex_inner m fm canonical r (hits ++ [h], produced + 1)
    end.

  Fixpoint lex_outer (evs : list (lex_match * list (N * N))) (st : list hit * N) : outcome (list hit * N) :=
    match evs with
    | [] => Ok st
    | (m, sls) :: r =>
        match get tbl (lm_frame m) with
        | None => lex_outer r st
        | Some fm =>
            match frame_content fm with
            | Ok canonical => lex_outer r (lex_inner m fm (utf8 canonical) sls st)
            | Err e => Err e
            | Panic s => Panic s
            end
        end
    end.
End Fallback.

Definition lex_fallback (parse_date : str -> option Z) (canonical_text : frame -> outcome str)
           (tbl : table) (parsed : expr) (rq : request) (candidate_filter : option (list N))
           (matches : option (list lex_match))     (* None: memvid.lex_index is None *)
  : outcome response :=
  match matches with
  | None => Err E_LEX_NOT_ENABLED
  | Some ms =>
      match lex_evaluate parse_date tbl parsed rq candidate_filter ms with
      | Err e => Err e
      | Panic s => Panic s
      | Ok evaluated =>
          let total := fold_right (fun x acc => llen (snd x) + acc) 0 evaluated in
          if total =? 0 then Ok (empty_response ENGINE_LEX_FALLBACK)
          else
            match SearchPage.parse_cursor (rq_cursor rq) total with
            | Err e => Err e
            | Panic s => Panic s
            | Ok offset =>
                match lex_outer canonical_text tbl (N.max (rq_top_k rq) 1) offset evaluated ([], 0) with
                | Ok (hits, produced) =>
                    Ok (mkResp hits total (if produced <? total then Some produced else None) ENGINE_LEX_FALLBACK)
                | Err e => Err e
                | Panic s => Panic s
                end
            end
      end
  end.

(* search_with_filters_only (as repaired by /repo dcf427c): every frame of the table (or of the
   candidate filter) that is Active and passes the request's uri / scope filter -- the same two culls
   as the Tantivy pipeline, applied before frame_search_text / evaluate; frame_search_text is an oracle. *)
Section FiltersOnly.
  Variable parse_date : str -> option Z.
  Variable frame_search_text : frame -> outcome str.
  Variable parsed : expr.
  Variable rq : request.

  Fixpoint fo_matches (frames : list frame) : outcome (list (frame * str)) :=
    match frames with
    | [] => Ok []
    | f :: r =>
        if negb (f_status f =? 0) then fo_matches r                 (* frame.status != Active: continue *)
        else if negb (passes_filters rq f) then fo_matches r        (* uri_matches / scope prefix: continue *)
        else
        match frame_search_text f with
        | Ok st =>
            match fo_matches r with
            | Ok l => Ok (if eval parse_date parsed (doc_of f (lower st)) then (f, st) :: l else l)
            | Err e => Err e
            | Panic s => Panic s
            end
        | Err e => Err e
        | Panic s => Panic s
        end
    end.

  (* search_text.chars().take(snippet_limit).collect() *)
  Definition fo_hit (rank : N) (x : frame * str) : hit :=
    let snippet := utf8 (firstn (N.to_nat (N.max (rq_snippet_chars rq) 80)) (snd x)) in
    mkHit rank (f_id (fst x)) (0, len snippet) snippet 1 (0, len snippet) snippet 0.

  Fixpoint fo_hits (k : nat) (rank : N) (ms : list (frame * str)) : list hit :=
    match k, ms with
    | S k', x :: r => fo_hit rank x :: fo_hits k' (rank + 1) r
    | _, _ => []
    end.
End FiltersOnly.

Definition filters_only (parse_date : str -> option Z) (frame_search_text : frame -> outcome str)
           (tbl : table) (parsed : expr) (rq : request) (candidate_filter : option (list N))
  : outcome response :=
  let frames := match candidate_filter with
                | Some l => filter (fun f => existsb (N.eqb (f_id f)) l) tbl
                | None => tbl
                end in
  match fo_matches parse_date frame_search_text parsed rq frames with
  | Err e => Err e
  | Panic s => Panic s
  | Ok ms =>
      let total := llen ms in
      if total =? 0 then Ok (empty_response ENGINE_LEX_FALLBACK)
      else
        match SearchPage.parse_cursor (rq_cursor rq) total with
        | Err e => Err e
        | Panic s => Panic s
        | Ok offset =>
            let hits := fo_hits rq (N.to_nat (N.max (rq_top_k rq) 1)) 1 (skipn (N.to_nat offset) ms) in
            let produced := llen hits in
            Ok (mkResp hits total (if offset + produced <? total then Some (offset + produced) else None)
                       ENGINE_LEX_FALLBACK)
        end
  end.

(* ---------------------------------------------------------------- which pipeline answers *)
(* Memvid::search from `try_tantivy_search(..)` on.  `engine` = Some (the candidates) when the
   Tantivy engine exists and search_documents returned Ok; None when search_documents returned Err
   (try_tantivy_search then returns Ok(None)).  has_text_terms = the query has a text token. *)
Definition search_pipelines (parse_date : str -> option Z) (content_ts : list str -> option Z)
           (resort : list ev -> list ev) (canonical_text frame_search_text : frame -> outcome str)
           (tbl : table) (parsed : expr) (tokens : list bytes) (rq : request)
           (candidate_filter : option (list N)) (has_lex_data has_text_terms : bool)
           (engine : option (list (N * N))) (matches : option (list lex_match)) : outcome response :=
  match engine with
  | Some cands =>
      match tantivy_post parse_date content_ts resort has_lex_data tbl parsed tokens rq cands with
      | Ok (Some r) => Ok r
      | Ok None => lex_fallback parse_date canonical_text tbl parsed rq candidate_filter matches
      | Err e => Err e
      | Panic s => Panic s
      end
  | None =>
      if has_text_terms then lex_fallback parse_date canonical_text tbl parsed rq candidate_filter matches
      else filters_only parse_date frame_search_text tbl parsed rq candidate_filter
  end.
