(* M-Bulk (C40): the bulk-ingestion entry points of src/memvid/mutation.rs on top of the
   frame-table model (Model/Store.v):
     begin_batch / end_batch / PutManyOpts     batch options are STATE: skip_sync (durability only:
                                               the `unsynced` counter), disable_auto_checkpoint (no
                                               commit at the end of a put), compression_level (changes
                                               the stored bytes only: content tags are tags of the
                                               canonical = decoded payload, zstd is an oracle),
                                               wal_pre_size_bytes (ensure_wal_capacity)
     ensure_wal_capacity                       next power of two, shift_data_for_wal_growth,
                                               adjust_offsets_after_wal_growth
     commit / commit_from_records              apply_records, rebuild_indexes iff the delta is not empty
     commit_skip_indexes(_inner)               apply_records WITHOUT the Tantivy engine; the embeddings of
                                               the returned delta are folded into the IN-MEMORY vector
                                               index (fix ed861c9; before it the delta was dropped:
                                               commit_skip_unfixed), every index manifest is cleared, the
                                               in-memory engine stays as it was
     finalize_indexes                          rebuild_indexes(&[], &[]) from the committed frame table
     rebuild_indexes                           time index from the table, three Tantivy branches,
                                               build_vec_artifact (old in-memory entries + new docs)
     Drop / open / recover_wal                 commit when dirty; reload the persisted indexes; replay
   A document is what the caller passes (uri, content tag, number of chunk frames it is split into,
   timestamp, whether the index text of the document / of its chunks holds the probe word,
   embedding, instant_index); the per-path oracle inputs of a put (automatic checkpoint happened,
   log region grew) are observed on the implementation and universally quantified in the theorems.
   Definitions only; proofs are in Proofs/BulkProofs.v. *)
From MV Require Import Base.Prelude Model.Store Model.VecStore Model.Timeline.
Local Open Scope N_scope.

(* ---------------------------------------------------------------- options, documents *)
Record opts := mkOpts { o_skip_sync : bool; o_no_auto : bool; o_level : Z; o_presize : N }.

Record info := mkInfo { i_ts : Z; i_text : bool; i_emb : option emb }.
Definition info0 : info := mkInfo 0%Z false None.

Record doc := mkDoc {
  d_uri : option N; d_tag : N; d_nchunks : N; d_ts : Z;
  d_text : bool; d_ctext : list bool; (* index text of the document frame / of the i-th chunk frame holds the probe word *)
  d_emb : option emb; d_instant : bool }.

(* put_internal: `embedding.filter(|vector| !vector.is_empty())` -- an empty vector is no embedding *)
Definition eff_emb (o : option emb) : option emb := match o with Some [] => None | _ => o end.

(* the frames a document becomes: the Document frame, then its chunk frames (same timestamp, no embedding) *)
Definition doc_infos (d : doc) : list info :=
  mkInfo (d_ts d) (d_text d) (eff_emb (d_emb d))
    :: map (fun j => mkInfo (d_ts d) (nth j (d_ctext d) false) None) (seq 0 (N.to_nat (d_nchunks d))).

(* ---------------------------------------------------------------- ensure_wal_capacity *)
(* u64::next_power_of_two: the smallest power of two >= n (1 for 0) *)
Definition next_pow2 (n : N) : N := 2 ^ N.log2_up n.

(* new log-region size after ensure_wal_capacity(min_bytes) *)
Definition ensure_wal_capacity (wal_size min_bytes : N) : N :=
  if min_bytes <=? wal_size then wal_size
  else let target := next_pow2 min_bytes in
       if target - wal_size =? 0 then wal_size else target.

(* adjust_offsets_after_wal_growth on the payload offsets of the frame table *)
Definition adjust_offsets (delta : N) (offs : list N) : list N :=
  map (fun o => if o =? 0 then 0 else o + delta) offs.
(* shift_data_for_wal_growth on symbolic extents (offset, length, owner): everything from
   data_start on moves up by delta *)
Definition shift_data (data_start delta : N) (ext : list (N * N * N)) : list (N * N * N) :=
  map (fun x => let '(o, l, t) := x in if data_start <=? o then (o + delta, l, t) else x) ext.
(* the owner of the extent at (off, len) *)
Fixpoint owner_at (ext : list (N * N * N)) (off len : N) : option N :=
  match ext with
  | [] => None
  | (o, l, t) :: r => if (o =? off) && (l =? len) then Some t else owner_at r off len
  end.

(* ---------------------------------------------------------------- state *)
Record batch := mkBat { bopts : option opts; wal_size : N; wal_skip : bool; unsynced : N }.

Record idx := mkIdx {
  tix : option (list tentry);     (* toc.time_index: None = no manifest, Some = the sorted track *)
  lex : list N;                   (* documents of the in-memory Tantivy engine *)
  lex_disk : list N;              (* documents of the engine segments last embedded in the file *)
  tdirty : bool;                  (* tantivy_dirty *)
  venabled : bool;                (* vec_enabled *)
  vtoc : manifest;                (* toc.indexes.vec: None / placeholder (bytes_length 0) / encoded index *)
  vidx : option docs }.           (* Memvid.vec_index (in memory) *)

Record bst := mkB {
  base : store;
  finf : list info;               (* one per committed frame, by id *)
  pinf : list info;               (* one per pending log record, in log order (info0 for a lex record) *)
  bat : batch;
  ix : idx }.

Definition WAL_SIZE0 : N := 65536.
Definition idx0 : idx := mkIdx None [] [] false false None None.
Definition bst0 : bst := mkB store0 [] [] (mkBat None WAL_SIZE0 false 0) idx0.

Definition set_base (s : bst) (b : store) : bst := mkB b (finf s) (pinf s) (bat s) (ix s).
Definition set_bat (s : bst) (t : batch) : bst := mkB (base s) (finf s) (pinf s) t (ix s).
Definition set_ix (s : bst) (x : idx) : bst := mkB (base s) (finf s) (pinf s) (bat s) x.

(* ---------------------------------------------------------------- index contents *)
Definition info_of (il : list info) (i : N) : info := nth (N.to_nat i) il info0.
Definition ids (n : nat) : list N := map N.of_nat (seq 0 n).
Definition is_document (frames : list frame) (i : N) : bool :=
  match get frames i with Some f => f_role f =? 0 | None => false end.

(* rebuild_indexes: status == Active && role == Document, then time_index_append sorts *)
Definition tix_full (frames : list frame) (il : list info) : list tentry :=
  sort_entries (map (fun i => (i_ts (info_of il i), i))
                    (filter (fun i => frame_is_active frames i && is_document frames i) (ids (length frames)))).
(* rebuild_tantivy_engine: active frames with (probe-word) index text, in id order *)
Definition lex_full (frames : list frame) (il : list info) : list N :=
  filter (fun i => frame_is_active frames i && i_text (info_of il i)) (ids (length frames)).

Definition opt_doc (id : N) (oe : option emb) : docs := match oe with Some e => [(id, e)] | None => [] end.
(* (frame id, embedding given to it), ids counted from `next` *)
Fixpoint vec_from (next : N) (il : list info) : docs :=
  match il with
  | [] => []
  | x :: r => opt_doc next (i_emb x) ++ vec_from (next + 1) r
  end.
Definition vec_full (il : list info) : docs := vec_from 0 il.

(* ---------------------------------------------------------------- apply_records, per record *)
(* infos of the frames the pending records insert, in order (a lex record inserts nothing) *)
Fixpoint new_infos (recs : list (N * entry)) (pi : list info) : list info :=
  match recs, pi with
  | (_, e) :: r, x :: pr => if is_insert e then x :: new_infos r pr else new_infos r pr
  | _, _ => []
  end.
Definition inserted_ids (n0 : N) (k : nat) : list N := map (fun j => n0 + N.of_nat j) (seq 0 k).
Definition has_insert (recs : list (N * entry)) : bool := existsb (fun se => is_insert (snd se)) recs.

(* flush_tantivy: engine.commit + embedded snapshot (when dirty) *)
Definition flush (x : idx) : idx :=
  if tdirty x then mkIdx (tix x) (lex x) (lex x) false (venabled x) (vtoc x) (vidx x) else x.

(* rebuild_indexes(new_vec_docs, inserted_frame_ids) over the table `frames` with infos `il` *)
Definition rebuild (x : idx) (frames : list frame) (il : list info) (newd : docs) (inserted : list N) : idx :=
  let lex2 :=
    if tdirty x then lex_full frames il                                (* full rebuild: ids were log sequence numbers *)
    else match inserted with
         | _ :: _ => lex x ++ filter (fun i => frame_is_active frames i && i_text (info_of il i)) inserted   (* incremental *)
         | [] => lex_full frames il                                     (* full rebuild *)
         end in
  (* tantivy_dirty = true; flush_tantivy *)
  match build_vec_artifact (venabled x) frames (vidx x) newd with
  | Some d => mkIdx (Some (tix_full frames il)) lex2 lex2 false (venabled x) (Some (Some d)) (Some d)
  | None => mkIdx (Some (tix_full frames il)) lex2 lex2 false (venabled x) None None
  end.

(* enable_vec: vec_enabled = true, placeholder manifest if there is none *)
Definition enable (x : idx) : idx :=
  mkIdx (tix x) (lex x) (lex_disk x) (tdirty x) true (match vtoc x with None => Some None | m => m end) (vidx x).
Definition nonempty_docs (d : docs) : bool := match d with [] => false | _ => true end.

(* commit_from_records; recover_wal replays through the same function *)
Definition commit_full (s : bst) (extra : N) : bst :=
  let b := base s in
  let recs := pending b in
  let frames' := view b in                                             (* apply_records *)
  let ni := new_infos recs (pinf s) in
  let il' := finf s ++ ni in
  let n0 := len (committed b) in
  let ins := inserted_ids n0 (length ni) in
  let newd := vec_from n0 ni in                                        (* delta.inserted_embeddings *)
  (* `if !delta.inserted_embeddings.is_empty() && !self.vec_enabled { self.enable_vec()?; }` *)
  let x := if nonempty_docs newd && negb (venabled (ix s)) then enable (ix s) else ix s in
  (* apply_records with the engine present: add_frame for every insert (delete for every
     tombstone), each setting tantivy_dirty = true *)
  let x1 := mkIdx (tix x) (lex x ++ filter (fun i => i_text (info_of il' i)) ins) (lex_disk x)
                  (tdirty x || delta_nonempty recs) (venabled x) (vtoc x) (vidx x) in
  let x2 := if delta_nonempty recs then rebuild x1 frames' il' newd ins else flush x1 in
  mkB (do_commit b extra) il' [] (mkBat (bopts (bat s)) (wal_size (bat s)) (wal_skip (bat s)) 0) x2.

(* commit_skip_indexes: early return, else commit_skip_indexes_inner *)
Definition zero_manifest (m : manifest) : manifest := match m with Some _ => Some None | None => None end.
Definition commit_skip (s : bst) : bst :=
  let b := base s in
  match pending b, dirty b with
  | [], false => s
  | _, _ =>
      let ni := new_infos (pending b) (pinf s) in
      let x := ix s in
      let newd := vec_from (len (committed b)) ni in                    (* delta.inserted_embeddings *)
      (* the engine is taken away during apply_records and restored unchanged; tantivy_dirty = false;
         `if !delta.inserted_embeddings.is_empty() && self.vec_enabled { self.ensure_vec_index()?;
            if let Some((_, index)) = self.build_vec_artifact(&delta.inserted_embeddings)? { self.vec_index = Some(index); } }`
         ensure_vec_index loads the index from the manifest when none is in memory *)
      let cur := match vidx x with Some d => Some d | None => index_of (vtoc x) end in
      let vi := if nonempty_docs newd && venabled x
                then match build_vec_artifact (venabled x) (view b) cur newd with Some d => Some d | None => cur end
                else vidx x in
      (* time index, lex, vec (data pointers), clip, segment catalogs, tracks: cleared in the TOC *)
      let x1 := mkIdx None (lex x) [] false (venabled x) (zero_manifest (vtoc x)) vi in
      mkB (do_commit b 0) (finf s ++ ni) [] (mkBat (bopts (bat s)) (wal_size (bat s)) (wal_skip (bat s)) 0) x1
  end.

(* the same before fix ed861c9: `let _delta = result?;` -- the inserted embeddings were dropped *)
Definition commit_skip_unfixed (s : bst) : bst :=
  let b := base s in
  match pending b, dirty b with
  | [], false => s
  | _, _ =>
      let ni := new_infos (pending b) (pinf s) in
      let x := ix s in
      let x1 := mkIdx None (lex x) [] false (venabled x) (zero_manifest (vtoc x)) (vidx x) in
      mkB (do_commit b 0) (finf s ++ ni) [] (mkBat (bopts (bat s)) (wal_size (bat s)) (wal_skip (bat s)) 0) x1
  end.

(* finalize_indexes: rebuild_indexes(&[], &[]) over the COMMITTED table; flush_tantivy appends a
   lex-batch record to the log and nothing checkpoints it *)
Definition finalize (s : bst) (extra : N) : bst :=
  let b := base s in
  let x := rebuild (ix s) (committed b) (finf s) [] [] in
  let b' := mkStore (committed b) (pending b ++ lex_recs (N.to_nat (seqno b) + 1) (N.to_nat extra))
                    (seqno b + extra) (pending_inserts b) (dirty b) in
  mkB b' (finf s) (pinf s ++ repeat info0 (N.to_nat extra)) (bat s) x.

(* ---------------------------------------------------------------- operations *)
Inductive bop :=
| BPut (d : doc) (auto : option N) (grew : option N)     (* oracles: automatic checkpoint (+ its lex records), new log size if it grew *)
| BBegin (o : opts)
| BEnd
| BCommit (extra : N) (grew : option N)
| BSkip
| BFinalize (extra : N) (grew : option N)
| BReopen (extra : N).

Definition grow (s : bst) (g : option N) : bst :=
  match g with
  | Some w => set_bat s (mkBat (bopts (bat s)) w (wal_skip (bat s)) (unsynced (bat s)))
  | None => s
  end.

Definition suppress (s : bst) : bool := match bopts (bat s) with Some o => o_no_auto o | None => false end.

(* put_internal up to and including the log appends *)
Definition put_append (s : bst) (d : doc) : bst * outcome N :=
  let '(b1, o) := sstep (base s) (OPut (d_uri d) (d_tag d) (d_nchunks d) 0 None) in
  let x := ix s in
  (* a non-empty embedding enables the vector index (placeholder manifest) *)
  let en := incoming_dimension (d_emb d) None in
  let x1 := if en && negb (venabled x)
            then mkIdx (tix x) (lex x) (lex_disk x) (tdirty x) true (match vtoc x with None => Some None | m => m end) (vidx x)
            else x in
  (* instant_index: a temporary engine document whose id is the LOG SEQUENCE number *)
  let x2 := if d_instant d
            then mkIdx (tix x1) (lex x1 ++ [seqno (base s) + 1]) (lex_disk x1) true (venabled x1) (vtoc x1) (vidx x1)
            else x1 in
  let n := 1 + d_nchunks d in
  let t := bat s in
  (mkB b1 (finf s) (pinf s ++ doc_infos d)
       (mkBat (bopts t) (wal_size t) (wal_skip t) (if wal_skip t then unsynced t + n else 0)) x2,
   fst (fst o)).

Definition bstep (s : bst) (op : bop) : bst * sout :=
  match op with
  | BPut d auto g =>
      let '(s1, r) := put_append (grow s g) d in
      (* `if !suppress_checkpoint && self.wal.should_checkpoint() { self.commit()?; }` *)
      let s2 := match auto with
                | Some extra => if suppress s then s1 else commit_full s1 extra
                | None => s1
                end in
      (s2, observe (base s2) r)
  | BBegin o =>
      let t := bat s in
      let w := if 0 <? o_presize o then ensure_wal_capacity (wal_size t) (o_presize o) else wal_size t in
      let s1 := set_bat s (mkBat (Some o) w (o_skip_sync o) (unsynced t)) in
      (s1, observe (base s1) (Ok 0))
  | BEnd =>
      let t := bat s in
      let s1 := set_bat s (mkBat None (wal_size t) false 0) in            (* wal.flush(); set_skip_sync(false) *)
      (s1, observe (base s1) (Ok 0))
  | BCommit extra g =>
      let b := base s in
      let s1 := match pending b, dirty b with
                | [], false => if tdirty (ix s) then commit_full s extra else set_base s (bump b extra)
                | _, _ => commit_full s extra
                end in
      let s2 := grow s1 g in
      (s2, observe (base s2) (Ok 0))
  | BSkip =>
      let s1 := commit_skip s in
      (s1, observe (base s1) (Ok 0))
  | BFinalize extra g =>
      let s1 := grow (finalize s extra) g in
      (s1, observe (base s1) (Ok 0))
  | BReopen extra =>
      let b := base s in
      (* Drop: commit when dirty *)
      let s1 := if dirty b then commit_full s extra else set_base s (bump b extra) in
      (* open: batch options gone, persisted indexes reloaded.  init_tantivy: with no Tantivy segment in
         the TOC (never written, or cleared by commit_skip_indexes -- in the model: exactly when there is
         no time index manifest) the expected document count is unknown and the engine is REBUILT from
         the frame table; recover_wal / commit_from_records then flushes it (tantivy_dirty) *)
      let x := ix s1 in
      let lx := match tix x with
                | None => lex_full (committed (base s1)) (finf s1)
                | Some _ => lex_disk x
                end in
      let x1 := mkIdx (tix x) lx lx false (is_some (vtoc x)) (vtoc x) (index_of (vtoc x)) in
      let s2 := mkB (base s1) (finf s1) (pinf s1) (mkBat None (wal_size (bat s1)) false 0) x1 in
      (* recover_wal *)
      let s3 := match pending (base s2) with [] => s2 | _ => commit_full s2 0 end in
      (s3, observe (base s3) (Ok 0))
  end.

Fixpoint brun (s : bst) (ops : list bop) : bst * list (bst * sout) :=
  match ops with
  | [] => (s, [])
  | op :: r => let '(s1, o) := bstep s op in
               let '(s2, os) := brun s1 r in (s2, (s1, o) :: os)
  end.
Definition bfinal (ops : list bop) : bst := fst (brun bst0 ops).

(* ---------------------------------------------------------------- what a reader sees *)
(* timeline (no filter, forward): the time index entries, or -- without a manifest -- every active frame in table order *)
Definition timeline_ids (s : bst) : list N :=
  match tix (ix s) with
  | Some t => map snd t
  | None => filter (frame_is_active (committed (base s))) (ids (length (committed (base s))))
  end.
(* frames, timestamps, timeline, engine documents, vector documents *)
Definition bview (s : bst) : list frame * list Z * list N * list N * docs :=
  (view (base s), map i_ts (finf s), timeline_ids s, lex (ix s), docs_of (vidx (ix s))).

Definition docs_of_ops (ops : list bop) : list doc :=
  flat_map (fun op => match op with BPut d _ _ => [d] | _ => [] end) ops.

(* ---------------------------------------------------------------- the boundary *)
Definition is_skip (op : bop) : bool := match op with BSkip => true | _ => false end.
(* Between commit_skip_indexes and the next finalize_indexes the indexes of the batch exist in memory
   only (the log records are checkpointed, the manifests cleared).  scan w ops follows that window:
   None = the memory was closed and reopened inside it; Some w = fine, w = "inside the window now". *)
Fixpoint scan (w : bool) (ops : list bop) : option bool :=
  match ops with
  | [] => Some w
  | BSkip :: r => scan true r
  | BFinalize _ _ :: r => scan false r
  | BReopen _ :: r => if w then None else scan false r
  | _ :: r => scan w r
  end.
