(* C22: the parts of Memvid::open / open_read_only that look at raw file bytes and are not
   modelled elsewhere, with EVERY Rust `+`, `-`, `*`, `%`, index and slice written as a checked
   operation (debug profile: overflow / out-of-range = Panic), so that "never panics" is a
   statement to prove and not a property of the notation:

     io/wal.rs            EmbeddedWal::scan_records, open_internal      (scan_chk, wal_open_chk)
     memvid/lifecycle.rs  verify_toc_prefix, read_toc, locate_footer_window,
                          ensure_non_overlapping_frames, open_locked's control flow
     encryption/types.rs  Mv2eHeader::decode (reached only with the `encryption` feature; open()
                          itself only compares the first four bytes with "MV2E")

   Files are `bytes`; the OS calls are: seek (fails with EINVAL above i64::MAX), read_exact
   (fails with UnexpectedEof), metadata().len().  BLAKE3 is the Section variable H. *)
From MV Require Import Base.Prelude Model.Footer Model.Header.
From MV Require Model.Sketch.
Local Open Scope N_scope.

Definition U64_LIM : N := 2 ^ 64.
Definition I64_MAX : N := 2 ^ 63 - 1.

(* panic sites *)
Definition P_ADD : N := 1.
Definition P_SUB : N := 2.
Definition P_MUL : N := 3.
Definition P_REM : N := 4.
Definition P_SLICE : N := 5.

Definition add_chk (a b : N) : outcome N := if U64_LIM <=? a + b then Panic P_ADD else Ok (a + b).
Definition sub_chk (a b : N) : outcome N := if a <? b then Panic P_SUB else Ok (a - b).
Definition mul_chk (a b : N) : outcome N := if U64_LIM <=? a * b then Panic P_MUL else Ok (a * b).
Definition rem_chk (a b : N) : outcome N := if b =? 0 then Panic P_REM else Ok (a mod b).
Definition sat_add (a b : N) : N := N.min (a + b) (U64_LIM - 1).
Definition sat_mul (a b : N) : N := N.min (a * b) (U64_LIM - 1).

Definition obind {A B} (o : outcome A) (f : A -> outcome B) : outcome B :=
  match o with Ok a => f a | Err k => Err k | Panic s => Panic s end.

(* error kinds *)
Definition E_IO : N := 9.             (* std::io::Error: EOF in read_exact, EINVAL in seek *)
Definition E_FUEL : N := 99.          (* the model's loop ran out of fuel (excluded by theorem) *)
Definition E_WAL_LEN : N := 4.        (* "wal record length invalid" *)
Definition E_WAL_SUM : N := 5.        (* "wal record checksum mismatch" *)
Definition E_WAL_ZERO : N := 7.       (* "wal_size must be non-zero" *)
Definition E_WAL_REGION : N := 8.     (* "wal region extends past end of file" *)

(* file.seek(SeekFrom::Start(pos)); file.read_exact(&mut [0; n]) *)
Definition seek_ok (pos : N) : bool := pos <=? I64_MAX.
Definition read_at (file : bytes) (pos n : N) : option bytes :=
  if N.of_nat (length file) <? pos + n then None else Some (slice file (N.to_nat pos) (N.to_nat n)).

(* ------------------------------------------------------------------ io/wal.rs *)
Definition EH : N := 48.    (* ENTRY_HEADER_SIZE *)

Section WalChk.
  Variable H : bytes -> bytes.

  (* scan_records(file, offset, size): entries as (sequence, total_size) and the final cursor.
       while cursor + 48 <= size {
         file.seek(Start(offset + cursor))?; file.read_exact(&mut header)?;
         if sequence == 0 && length == 0 { break }
         if length == 0 || cursor + 48 + length > size { return Err(length invalid) }
         let mut payload = vec![0; length]; file.read_exact(&mut payload)?;
         if blake3(payload) != checksum { return Err(checksum mismatch) }
         records.push(.. total_size: 48 + length); cursor += 48 + length; }                   *)
  Fixpoint scan_chk (fuel : nat) (file : bytes) (offset size cursor : N) : outcome (list (N * N) * N) :=
    match fuel with
    | O => Err E_FUEL
    | S f =>
        obind (add_chk cursor EH) (fun c48 =>
        if size <? c48 then Ok ([], cursor)
        else
          obind (add_chk offset cursor) (fun pos =>
          if negb (seek_ok pos) then Err E_IO
          else match read_at file pos 48 with
               | None => Err E_IO
               | Some hd =>
                   let seq := le_decode (firstn 8 hd) in
                   let len := le_decode (slice hd 8 4) in
                   if (seq =? 0) && (len =? 0) then Ok ([], cursor)
                   else if len =? 0 then Err E_WAL_LEN
                   else
                     obind (add_chk c48 len) (fun e =>
                     if size <? e then Err E_WAL_LEN
                     else match read_at file (pos + 48) len with
                          | None => Err E_IO
                          | Some payload =>
                              if negb (bytes_eqb (H payload) (slice hd 16 32)) then Err E_WAL_SUM
                              else
                                obind (add_chk EH len) (fun total =>       (* total_size *)
                                obind (add_chk cursor total) (fun cursor' => (* cursor += .. *)
                                match scan_chk f file offset size cursor' with
                                | Ok (l, c) => Ok ((seq, total) :: l, c)
                                | Err k => Err k
                                | Panic s => Panic s
                                end))
                          end)
               end))
    end.

  (* entries.iter().filter(|e| e.sequence > checkpoint_sequence).map(|e| e.total_size).sum() *)
  Fixpoint sum_chk (l : list N) (acc : N) : outcome N :=
    match l with
    | [] => Ok acc
    | x :: r => obind (add_chk acc x) (fun a => sum_chk r a)
    end.

  (* open_internal, read-only flavour (no sentinel write): (pending_bytes, sequence, checkpoint_head).
       if header.wal_size == 0 { return Err(InvalidHeader "wal_size must be non-zero") }
       let file_len = clone.metadata()?.len();
       if region_offset.checked_add(region_size).map_or(true, |end| end > file_len)
          { return Err(InvalidHeader "wal region extends past end of file") }        (since 03a10a9) *)
  Definition wal_open_chk (file : bytes) (offset size ckpt_pos ckpt_seq : N) : outcome (N * N * N) :=
    if size =? 0 then Err E_WAL_ZERO
    else if (U64_LIM <=? offset + size) || (N.of_nat (length file) <? offset + size) then Err E_WAL_REGION
    else
      obind (scan_chk (S (length file)) file offset size 0) (fun en =>
      let entries := fst en in
      obind (sum_chk (map snd (filter (fun e => ckpt_seq <? fst e) entries)) 0) (fun pending =>
      obind (rem_chk ckpt_pos size) (fun ckpt_head =>          (* wal_checkpoint_pos % region_size *)
      Ok (pending, last (map fst entries) ckpt_seq, ckpt_head)))).
End WalChk.

(* ------------------------------------------------------------------ verify_toc_prefix *)
Definition MAX_SEGMENTS : N := 1000000.
Definition MAX_FRAMES : N := 1000000.
Definition MIN_SEGMENT_META_BYTES : N := 32.
Definition MIN_FRAME_BYTES : N := 64.
Definition E_PFX_SMALL : N := 20.     (* "toc trailer too small" *)
Definition E_PFX_RANGE : N := 21.     (* "... missing or truncated" (bytes.get(range) = None) *)
Definition E_PFX_VERSION : N := 22.   (* "toc version unreasonable" *)
Definition E_PFX_SEGMENTS : N := 23.  (* "segment count unreasonable" *)
Definition E_PFX_FRAMES : N := 24.    (* "frame count unreasonable" *)
Definition E_PFX_COUNTS : N := 25.    (* "toc payload inconsistent with counts" *)

(* bytes.get(lo..lo+8) then try_into::<[u8; 8]>() *)
Definition get_u64 (b : bytes) (lo : nat) : option N :=
  if Nat.ltb (length b) (lo + 8) then None else Some (le_decode (slice b lo 8)).

Definition verify_toc_prefix (b : bytes) : outcome unit :=
  if Nat.ltb (length b) 24 then Err E_PFX_SMALL
  else match get_u64 b 0 with
       | None => Err E_PFX_RANGE
       | Some ver =>
           if 32 <? ver then Err E_PFX_VERSION
           else match get_u64 b 8 with
                | None => Err E_PFX_RANGE
                | Some segs =>
                    if MAX_SEGMENTS <? segs then Err E_PFX_SEGMENTS
                    else match get_u64 b 16 with
                         | None => Err E_PFX_RANGE
                         | Some frames =>
                             if MAX_FRAMES <? frames then Err E_PFX_FRAMES
                             else
                               let required := sat_add (sat_mul segs MIN_SEGMENT_META_BYTES)
                                                       (sat_mul frames MIN_FRAME_BYTES) in
                               if N.of_nat (length b) <? required then Err E_PFX_COUNTS else Ok tt
                         end
                end
       end.

(* ------------------------------------------------------------------ read_toc *)
Definition MAX_INDEX_BYTES : N := 512 * 1024 * 1024.
Definition E_TOC_BEYOND : N := 30.    (* "footer offset beyond file length" *)
Definition E_TOC_LIMIT : N := 31.     (* "toc region exceeds safety limit" *)
Definition E_TOC_NOFOOTER : N := 32.  (* "region too small to contain footer" *)
Definition E_TOC_FOOTER : N := 33.    (* "failed to decode commit footer" *)
Definition E_TOC_LEN : N := 34.       (* "toc length mismatch" *)
Definition E_TOC_HASH : N := 35.      (* "commit footer toc hash mismatch" *)

Section ReadToc.
  Variable H : bytes -> bytes.
  Context {TOC : Type}.
  Variable toc_dec : bytes -> outcome TOC.      (* Toc::decode (Model/Toc.v for the concrete one) *)

  Definition read_toc (file : bytes) (footer_offset : N) : outcome TOC :=
    let len := N.of_nat (length file) in
    if len <? footer_offset then Err E_TOC_BEYOND
    else if negb (seek_ok footer_offset) then Err E_IO
    else
      obind (sub_chk len footer_offset) (fun total =>            (* (len - footer_offset) as usize *)
      if MAX_INDEX_BYTES <? total then Err E_TOC_LIMIT
      else if total <? N.of_nat FOOTER_SIZE then Err E_TOC_NOFOOTER
      else
        let buf := skipn (N.to_nat footer_offset) file in        (* read_to_end *)
        obind (sub_chk (N.of_nat (length buf)) (N.of_nat FOOTER_SIZE)) (fun fs =>   (* buf.len() - FOOTER_SIZE *)
        let footer_start := N.to_nat fs in
        if Nat.ltb (length buf) footer_start then Panic P_SLICE   (* &buf[footer_start..] *)
        else
          match footer_decode (skipn footer_start buf) with
          | None => Err E_TOC_FOOTER
          | Some f =>
              let toc_bytes := firstn footer_start buf in         (* &buf[..footer_start] *)
              if negb (N.of_nat (length toc_bytes) =? toc_len f) then Err E_TOC_LEN
              else if negb (bytes_eqb (H toc_bytes) (toc_hash f)) then Err E_TOC_HASH
              else match verify_toc_prefix toc_bytes with
                   | Ok _ => toc_dec toc_bytes
                   | Err k => Err k
                   | Panic s => Panic s
                   end
          end)).
End ReadToc.

(* ------------------------------------------------------------------ locate_footer_window *)
Definition MAX_SEARCH_SIZE : N := 16 * 1024 * 1024.

Section Locate.
  Context {A : Type}.
  Variable find : bytes -> option A.      (* find_last_valid_footer (Model/Footer.v) *)

  (* loop { let start = mmap.len() - window; if let Some(s) = find(&mmap[start..]) { return Some((s, start)) }
            if window == mmap.len() { break } window = (window * 2).min(mmap.len()); }            *)
  Fixpoint locate_loop (fuel : nat) (mmap : bytes) (window : N) : outcome (option (A * N)) :=
    match fuel with
    | O => Err E_FUEL
    | S f =>
        obind (sub_chk (N.of_nat (length mmap)) window) (fun start =>
        if Nat.ltb (length mmap) (N.to_nat start) then Panic P_SLICE
        else match find (skipn (N.to_nat start) mmap) with
             | Some s => Ok (Some (s, start))
             | None =>
                 if window =? N.of_nat (length mmap) then Ok None
                 else obind (mul_chk window 2) (fun w2 => locate_loop f mmap (N.min w2 (N.of_nat (length mmap))))
             end)
    end.

  (* fuel: the window at least doubles until it is the whole file: 65 rounds cover 2^64 *)
  Definition locate_footer_window (mmap : bytes) : outcome (option (A * N)) :=
    match mmap with
    | [] => Ok None
    | _ => locate_loop 65 mmap (N.min MAX_SEARCH_SIZE (N.of_nat (length mmap)))
    end.
End Locate.

(* ------------------------------------------------------------------ ensure_non_overlapping_frames *)
Definition E_FR_OVERFLOW : N := 40.   (* "frame payload offsets overflow" *)
Definition E_FR_BEYOND : N := 41.     (* "frame payload exceeds file length" *)
Definition E_FR_OVERLAP : N := 42.    (* "frame .. payload overlaps with previous frame" *)

(* (active, payload_offset, payload_length) *)
Definition fr := (bool * N * N)%type.
Fixpoint insert_by_off (x : fr) (l : list fr) : list fr :=
  match l with
  | [] => [x]
  | y :: r => if snd (fst x) <? snd (fst y) then x :: l else y :: insert_by_off x r
  end.
(* sort_by_key(|f| f.payload_offset): stable *)
Definition sort_by_off (l : list fr) : list fr := fold_right insert_by_off [] l.

Fixpoint overlap_loop (l : list fr) (file_len prev_start prev_end : N) : outcome unit :=
  match l with
  | [] => Ok tt
  | (_, off, len) :: r =>
      if U64_LIM <=? off + len then Err E_FR_OVERFLOW                 (* checked_add *)
      else let e := off + len in
           if file_len <? e then Err E_FR_BEYOND
           else if (off =? prev_start) && (e =? prev_end) then overlap_loop r file_len prev_start prev_end
           else if off <? prev_end then Err E_FR_OVERLAP
           else overlap_loop r file_len off e
  end.

Definition ensure_non_overlapping (frames : list fr) (file_len : N) : outcome unit :=
  overlap_loop (sort_by_off (filter (fun f => fst (fst f) && (0 <? snd f)) frames)) file_len 0 0.

(* ------------------------------------------------------------------ Mv2eHeader::decode *)
Definition MV2E_MAGIC : bytes := [77; 86; 50; 69].     (* "MV2E" *)
Definition E_MV2E_SHORT : N := 50.    (* not a [u8; 64] (excluded by the Rust type) *)
Definition E_MV2E_MAGIC : N := 51.
Definition E_MV2E_VERSION : N := 52.
Definition E_MV2E_KDF : N := 53.
Definition E_MV2E_CIPHER : N := 54.

(* (salt, nonce, original_size, reserved) *)
Definition mv2e_decode (b : bytes) : outcome (bytes * bytes * N * bytes) :=
  if negb (Nat.eqb (length b) 64) then Err E_MV2E_SHORT
  else if negb (bytes_eqb (slice b 0 4) MV2E_MAGIC) then Err E_MV2E_MAGIC
  else if negb (le_decode (slice b 4 2) =? 1) then Err E_MV2E_VERSION
  else if negb (nth 6 b 0 =? 1) then Err E_MV2E_KDF
  else if negb (nth 7 b 0 =? 1) then Err E_MV2E_CIPHER
  else Ok (slice b 8 32, slice b 40 12, le_decode (slice b 52 8), slice b 60 4).

(* what open_locked does: read_exact 4 bytes, compare *)
(* ------------------------------------------------------------------ sizing arithmetic of search (since 9b4da04, 51f7ee1) *)
Definition USIZE_LAST : N := U64_LIM - 1.
(* sketch pre-filter: max_candidates: params.top_k.saturating_mul(10).max(500) *)
Definition sketch_max_candidates (top_k : N) : N := N.max (sat_mul top_k 10) 500.
(* let base_docs = request.top_k.max(1).saturating_add(offset_hint);
   let mut doc_limit = base_docs.saturating_mul(4).max(20);
   if let Some(filter) = candidate_filter { doc_limit = doc_limit.min(filter.len().max(1)) } *)
Definition search_doc_limit (top_k hint : N) (flt : option N) : N :=
  let base := sat_add (N.max top_k 1) hint in
  let l := N.max (sat_mul base 4) 20 in
  match flt with Some f => N.min l (N.max f 1) | None => l end.
(* engine.rs: let doc_limit = limit.min(index_docs).max(1); TopDocs::with_limit(doc_limit)
   (Tantivy allocates 2 * doc_limit entries up front and panics on a limit of 0) *)
Definition collector_limit (limit index_docs : N) : N := N.max (N.min limit index_docs) 1.
(* let age_seconds = max_ts.saturating_sub(timestamp).max(0)   on i64 *)
Definition sat_sub_i64 (a b : Z) : Z := Z.max (- 2 ^ 63) (Z.min (a - b) (2 ^ 63 - 1)).
Definition recency_age (max_ts ts : Z) : Z := Z.max (sat_sub_i64 max_ts ts) 0.

(* ------------------------------------------------------------------ time index read_track (since b6c8721) *)
(* restated here against local definitions (the byte layout is C30's Model/TimeIndex.v):
   magic "MVTI", u64 count, count * (i64 timestamp, u64 frame id).  The allocator is an oracle:
   try_reserve_exact answers Err for more than isize::MAX bytes and whenever the allocator refuses. *)
Definition TI_MAGIC : bytes := [77; 86; 84; 73].
Definition E_TI_MAGIC : N := 1.
Definition E_TI_SHORT : N := 2.
Definition E_TI_OVERFLOW : N := 3.   (* "entry count overflow": checked_mul / usize::try_from *)
Definition E_TI_LENGTH : N := 4.
Definition E_TI_UNSORTED : N := 5.
Definition E_TI_TOO_LARGE : N := 6.  (* "entry count too large": try_reserve_exact failed *)
Definition ti_i64 (u : N) : Z := if u <? 2 ^ 63 then Z.of_N u else (Z.of_N u - 2 ^ 64)%Z.

Fixpoint ti_read_entries (fuel : nat) (bs : bytes) (count : N) (prev : option (Z * N)) : outcome (list (Z * N)) :=
  if count =? 0 then Ok []
  else match fuel with
       | O => Err E_IO
       | S f =>
           let chunk := firstn 16 bs in
           if negb (Nat.eqb (length chunk) 16) then Err E_IO
           else
             let e := (ti_i64 (le_decode (firstn 8 chunk)), le_decode (skipn 8 chunk)) in
             let bad := match prev with
                        | Some p => (fst e <? fst p)%Z || ((fst e =? fst p)%Z && (snd e <? snd p))
                        | None => false
                        end in
             if bad then Err E_TI_UNSORTED
             else match ti_read_entries f (skipn 16 bs) (count - 1) (Some e) with
                  | Ok l => Ok (e :: l)
                  | Err k => Err k
                  | Panic s => Panic s
                  end
       end.

Section TimeIndexRead.
  Variable alloc_ok : N -> bool.      (* does the allocator grant this many bytes? *)

  Definition ti_read_track (file : bytes) (offset : nat) (length_arg : N) : outcome (list (Z * N)) :=
    let avail := skipn offset file in
    if Nat.ltb (length avail) 4 then Err E_IO
    else if negb (bytes_eqb (firstn 4 avail) TI_MAGIC) then Err E_TI_MAGIC
    else if Nat.ltb (length avail) 12 then Err E_IO
    else
      let count := le_decode (slice avail 4 8) in
      if length_arg <? 12 then Err E_TI_SHORT
      else
        let payload_bytes := length_arg - 12 in
        if U64_LIM <=? count * 16 then Err E_TI_OVERFLOW                      (* checked_mul *)
        else if negb (payload_bytes =? count * 16) then Err E_TI_LENGTH
        else if U64_LIM <=? count then Err E_TI_OVERFLOW                      (* usize::try_from *)
        else if (2 ^ 63 <=? count * 16) || negb (alloc_ok (count * 16)) then Err E_TI_TOO_LARGE   (* try_reserve_exact *)
        else ti_read_entries (length avail) (skipn 12 avail) count None.
End TimeIndexRead.

(* ------------------------------------------------------------------ read_sketch_track (since bc37f0b) *)
(* the header layout, entry parsing and the entry loop are C39's Model/Sketch.v (definitions only);
   restated here is the function body with the repaired length computation:
     header.entry_count.checked_mul(entry_size).and_then(|e| e.checked_add(SIZE)).ok_or(InvalidSketchTrack ..)? *)
Definition E_SK_OVERFLOW : N := 6.    (* "Sketch track entry count .. overflows" *)
Definition read_sketch_track (file : bytes) (offset len : N) : outcome Sketch.track :=
  if N.of_nat (length file) <? offset then Err Sketch.ERR_IO else
  let r := skipn (N.to_nat offset) file in
  if Nat.ltb (length r) Sketch.SKETCH_HEADER_SIZE then Err Sketch.ERR_IO else
  let hb := firstn Sketch.SKETCH_HEADER_SIZE r in
  if negb (bytes_eqb (slice hb 0 4) Sketch.SKETCH_TRACK_MAGIC) then Err Sketch.ERR_MAGIC else
  let esz := Sketch.u16_at hb 6 in
  let count := Sketch.u64_at hb 8 in
  match Sketch.variant_of_size esz with
  | None => Err Sketch.ERR_ENTRY_SIZE
  | Some v =>
      let prod := count * esz in
      if U64_LIM <=? prod then Err E_SK_OVERFLOW else                                   (* checked_mul *)
      if U64_LIM <=? prod + N.of_nat Sketch.SKETCH_HEADER_SIZE then Err E_SK_OVERFLOW else  (* checked_add *)
      if len <? prod + N.of_nat Sketch.SKETCH_HEADER_SIZE then Err Sketch.ERR_LENGTH else
      let rest := skipn Sketch.SKETCH_HEADER_SIZE r in
      if N.of_nat (length rest) / N.of_nat (Sketch.entry_size v) <? count then Err Sketch.ERR_IO else
      match Sketch.read_entries v (N.to_nat count) 0 rest [] with
      | Ok es => Ok (Sketch.mkTrack v es)
      | Err k => Err k
      | Panic s => Panic s
      end
  end.

Definition sniff_mv2e (file : bytes) : bool :=
  match read_at file 0 4 with Some m => bytes_eqb m MV2E_MAGIC | None => false end.

(* ------------------------------------------------------------------ open_locked as a decision procedure *)
Definition E_ENCRYPTED : N := 60.     (* MemvidError::EncryptedFile *)
Definition E_CHECKSUM : N := 61.      (* Toc::verify_checksum failed after recovery *)

Section OpenCtl.
  Context {TOC ST : Type}.
  (* every component is an abstract decoder / loader with the three-valued outcome *)
  Record components := mkComponents {
    c_sniff : bool;                                   (* first four bytes = "MV2E" *)
    c_seek0 : outcome unit;                           (* file.seek(Start(0)) *)
    c_header : outcome header;                        (* HeaderCodec::read *)
    c_read_toc : header -> outcome TOC;               (* read_toc *)
    c_recoverable : N -> bool;                        (* error is Decode(_) | InvalidToc{..} *)
    c_recover : header -> outcome (TOC * N);          (* recover_toc(file, Some(footer_offset)) *)
    c_toc_sum : TOC -> bytes;                         (* toc.toc_checksum *)
    c_persist : header -> outcome unit;               (* persist_header *)
    c_verify : TOC -> bool;                           (* toc.verify_checksum().is_ok() *)
    c_nonoverlap : TOC -> outcome unit;               (* ensure_non_overlapping_frames *)
    c_wal : header -> outcome unit;                   (* EmbeddedWal::open *)
    c_generation : outcome N;                         (* detect_generation *)
    c_init : header -> TOC -> N -> ST;                (* the struct literal + compute_data_end .. *)
    (* load_lex_index_from_manifest, init_tantivy, load_vec.., load_clip.., load_memories_track,
       load_logic_mesh, load_sketch_track, recover_wal, ensure_temporal_track_loaded: in order *)
    c_loaders : list (ST -> outcome ST);
    c_final_toc : ST -> TOC;
    c_final_header : ST -> header;
    c_sync : outcome unit
  }.

  Fixpoint run_loaders (ls : list (ST -> outcome ST)) (s : ST) : outcome ST :=
    match ls with
    | [] => Ok s
    | f :: r => obind (f s) (run_loaders r)
    end.

  Definition set_footer (h : header) (off : N) (sum : bytes) : header :=
    mkHeader (h_magic h) (h_version h) off (h_wal_offset h) (h_wal_size h)
             (h_wal_checkpoint_pos h) (h_wal_sequence h) sum.

  Definition open_locked (c : components) : outcome ST :=
    obind (c_seek0 c) (fun _ =>
    if c_sniff c then Err E_ENCRYPTED
    else
      obind (c_header c) (fun h =>
      let toc_r : outcome (header * TOC) :=
        match c_read_toc c h with
        | Ok t => Ok (h, t)
        | Panic s => Panic s
        | Err k =>
            if c_recoverable c k then
              obind (c_recover c h) (fun tr =>
              let '(t, off) := tr in
              if negb (off =? h_footer_offset h) || negb (bytes_eqb (h_toc_checksum h) (c_toc_sum c t)) then
                let h' := set_footer h off (c_toc_sum c t) in
                obind (c_persist c h') (fun _ => Ok (h', t))
              else Ok (h, t))
            else Err k
        end in
      obind toc_r (fun ht =>
      let '(h1, t) := ht in
      let checksum_ok := c_verify c t in
      obind (c_nonoverlap c t) (fun _ =>
      obind (c_wal c h1) (fun _ =>
      obind (c_generation c) (fun g =>
      obind (run_loaders (c_loaders c) (c_init c h1 t g)) (fun st =>
      if checksum_ok then Ok st
      else if negb (c_verify c (c_final_toc c st)) then Err E_CHECKSUM
      else if negb (bytes_eqb (c_toc_sum c (c_final_toc c st)) (h_toc_checksum (c_final_header c st))) then
        let hf := c_final_header c st in
        obind (c_persist c (set_footer hf (h_footer_offset hf) (c_toc_sum c (c_final_toc c st))))
              (fun _ => obind (c_sync c) (fun _ => Ok st))
      else Ok st))))))).
End OpenCtl.
