(* Model of src/types/memories_track.rs + src/types/memory_card.rs (queries),
   src/types/logic_mesh.rs (merge, serialisation order) and of the card/mesh part of
   commit / drop / open in src/memvid/{memory,mesh,mutation,lifecycle}.rs.
   Definitions only; proofs are in Proofs/MemoriesProofs.v.

   Strings are ASCII (Rust's to_lowercase on an ASCII string is ASCII lower-casing);
   fields of MemoryCard that no query reads (kind, polarity, source fields, engine names) are not
   carried.  The HashMap of SlotIndex is an association list with unique keys: its order
   only matters to the legacy fallback scan, and every theorem holds for every order. *)
From MV Require Import Base.Prelude Base.SortFacts.
From Coq Require Import String Ascii.
Local Open Scope string_scope.

(* ---------------- memory_card.rs ---------------- *)
Inductive vrel := Sets | Updates | Extends | Retracts.

Record card := mkCard {
  c_id : N;
  c_entity : string;
  c_slot : string;
  c_value : string;
  c_event : option Z;          (* event_date *)
  c_doc : option Z;            (* document_date *)
  c_vkey : option string;      (* version_key *)
  c_rel : vrel;                (* version_relation *)
  c_conf : option (option N);  (* confidence: None | Some (Some bits) finite f32 | Some None NaN/inf *)
  c_created : Z                (* created_at *)
}.

(* effective_timestamp: event_date.or(document_date).unwrap_or(created_at) *)
Definition eff (c : card) : Z :=
  match c_event c with
  | Some t => t
  | None => match c_doc c with Some t => t | None => c_created c end
  end.

Definition is_retracted (c : card) : bool :=
  match c_rel c with Retracts => true | _ => false end.
Definition not_retracted (c : card) : bool := negb (is_retracted c).

(* default_version_key: format!("{}:{}", entity, slot) -- not lower-cased *)
Definition default_version_key (c : card) : string := c_entity c ++ ":" ++ c_slot c.

(* ---------------- slot keys ---------------- *)
Definition lower_ascii (a : ascii) : ascii :=
  let n := N_of_ascii a in
  if (N.leb 65 n && N.leb n 90)%bool then ascii_of_N (n + 32) else a.
Fixpoint lower (s : string) : string :=
  match s with
  | EmptyString => EmptyString
  | String a r => String (lower_ascii a) (lower r)
  end.
(* slot_key: format!("{}:{}", entity.to_lowercase(), slot.to_lowercase()) *)
Definition slot_key (e s : string) : string := lower e ++ ":" ++ lower s.
Definition card_key (c : card) : string := slot_key (c_entity c) (c_slot c).

(* ---------------- SlotIndex ---------------- *)
Definition index := list (string * list N).

(* entries.entry(key).or_default().insert(0, id) *)
Fixpoint index_insert (idx : index) (k : string) (id : N) : index :=
  match idx with
  | [] => [(k, [id])]
  | (k', ids) :: r =>
      if String.eqb k' k then (k', id :: ids) :: r else (k', ids) :: index_insert r k id
  end.

Fixpoint index_lookup (idx : index) (k : string) : option (list N) :=
  match idx with
  | [] => None
  | (k', ids) :: r => if String.eqb k' k then Some ids else index_lookup r k
  end.

(* SlotIndex::get: exact match on the lower-cased key, else the first entry (in map
   iteration order) whose lower-cased key matches *)
Definition index_get (idx : index) (e s : string) : option (list N) :=
  let key := slot_key e s in
  match index_lookup idx key with
  | Some ids => Some ids
  | None =>
      match find (fun kv => String.eqb (lower (fst kv)) key) idx with
      | Some kv => Some (snd kv)
      | None => None
      end
  end.

(* ---------------- MemoriesTrack ---------------- *)
Record track := mkTrack {
  t_cards : list card;
  t_next : N;
  t_index : index
}.
Definition empty_track : track := mkTrack [] 0%N [].

Definition set_id_vkey (c : card) (id : N) : card :=
  mkCard id (c_entity c) (c_slot c) (c_value c) (c_event c) (c_doc c)
         (match c_vkey c with Some k => Some k | None => Some (default_version_key c) end)
         (c_rel c) (c_conf c) (c_created c).

(* add_card (next_id is a u64; the increment is unbounded here) *)
Definition add_card (tr : track) (c : card) : track :=
  let id := t_next tr in
  let c' := set_id_vkey c id in
  mkTrack (t_cards tr ++ [c']) (id + 1)%N (index_insert (t_index tr) (card_key c') id).

Definition build (cs : list card) : track := fold_left add_card cs empty_track.

(* self.cards.iter().find(|c| c.id == *id) *)
Definition find_card (cards : list card) (id : N) : option card :=
  find (fun c => N.eqb (c_id c) id) cards.

Fixpoint filter_map {A B} (f : A -> option B) (l : list A) : list B :=
  match l with
  | [] => []
  | x :: r => match f x with Some y => y :: filter_map f r | None => filter_map f r end
  end.

Definition get_cards (tr : track) (e s : string) : list card :=
  match index_get (t_index tr) e s with
  | Some ids => filter_map (find_card (t_cards tr)) ids
  | None => []
  end.

(* cards.sort_by(|a, b| b.effective_timestamp().cmp(&a.effective_timestamp())):
   a sorts before-or-with b iff eff b <= eff a.  sort_by is stable; by
   SortFacts.stable_sort_unique its result is [isort desc_leb]. *)
Definition desc_leb (a b : card) : bool := Z.leb (eff b) (eff a).

Definition get_current (tr : track) (e s : string) : option card :=
  find not_retracted (isort desc_leb (get_cards tr e s)).

Definition get_at_time (tr : track) (e s : string) (t : Z) : option card :=
  find not_retracted
       (isort desc_leb (filter (fun c => Z.leb (eff c) t) (get_cards tr e s))).

(* ---------------- LogicMesh ---------------- *)
Record mnode := mkNode {
  n_id : N; n_name : string; n_display : string; n_kind : N; n_conf : N;
  n_frames : list N; n_mentions : list (N * N * N)
}.
Record medge := mkEdge {
  e_from : N; e_to : N; e_link : string (* LinkType::as_str *); e_custom : bool;
  e_conf : N; e_frame : N
}.
Record mesh := mkMesh { m_nodes : list mnode; m_edges : list medge }.
Definition empty_mesh : mesh := mkMesh [] [].
Definition mesh_is_empty (m : mesh) : bool :=
  match m_nodes m, m_edges m with [], [] => true | _, _ => false end.

Definition memN (x : N) (l : list N) : bool := existsb (N.eqb x) l.
Fixpoint push_new (acc add : list N) : list N :=
  match add with
  | [] => acc
  | f :: r => if memN f acc then push_new acc r else push_new (acc ++ [f]) r
  end.

(* merge_node: dedupe by (canonical_name, kind) *)
Fixpoint merge_node (ns : list mnode) (n : mnode) : list mnode :=
  match ns with
  | [] => [n]
  | x :: r =>
      if (String.eqb (n_name x) (n_name n) && N.eqb (n_kind x) (n_kind n))%bool then
        mkNode (n_id x) (n_name x) (n_display x) (n_kind x) (N.max (n_conf x) (n_conf n))
               (push_new (n_frames x) (n_frames n)) (n_mentions x ++ n_mentions n) :: r
      else x :: merge_node r n
  end.

(* merge_edge: dedupe by (from, to, link.as_str()) *)
Definition same_edge (a b : medge) : bool :=
  (N.eqb (e_from a) (e_from b) && N.eqb (e_to a) (e_to b) && String.eqb (e_link a) (e_link b))%bool.
Definition merge_edge (es : list medge) (e : medge) : list medge :=
  if existsb (fun x => same_edge x e) es then es else es ++ [e].

(* byte-wise lexicographic order on strings (str::cmp) *)
Fixpoint str_leb (a b : string) : bool :=
  match a, b with
  | EmptyString, _ => true
  | String _ _, EmptyString => false
  | String x a', String y b' =>
      if N.ltb (N_of_ascii x) (N_of_ascii y) then true
      else if N.eqb (N_of_ascii x) (N_of_ascii y) then str_leb a' b' else false
  end.

Definition node_leb (a b : mnode) : bool := N.leb (n_id a) (n_id b).
Definition edge_leb (a b : medge) : bool :=
  if N.ltb (e_from a) (e_from b) then true
  else if N.eqb (e_from a) (e_from b) then
    if N.ltb (e_to a) (e_to b) then true
    else if N.eqb (e_to a) (e_to b) then str_leb (e_link a) (e_link b) else false
  else false.

(* LogicMesh::serialize sorts a copy (sort_by_key id; sort_by (from,to,link)) -- both stable --
   and deserialize returns that copy *)
Definition persist_mesh (m : mesh) : mesh :=
  mkMesh (isort node_leb (m_nodes m)) (isort edge_leb (m_edges m)).

(* ---------------- persistence of the card track ---------------- *)
(* serde_json writes a non-finite f32 as null, which reads back as None *)
Definition persist_card (c : card) : card :=
  match c_conf c with
  | Some None => mkCard (c_id c) (c_entity c) (c_slot c) (c_value c) (c_event c) (c_doc c)
                        (c_vkey c) (c_rel c) None (c_created c)
  | _ => c
  end.
Definition persist_track (tr : track) : track :=
  mkTrack (map persist_card (t_cards tr)) (t_next tr) (t_index tr).

Definition conf_finite (c : card) : bool :=
  match c_conf c with Some None => false | _ => true end.

(* ---------------- Memvid: what commit / drop / open do to cards and mesh ---------------- *)
Inductive mop :=
| PutCard (c : card)            (* put_memory_card *)
| PutCards (cs : list card)     (* put_memory_cards *)
| AddNode (n : mnode)           (* add_mesh_node *)
| AddEdge (e : medge)           (* add_mesh_edge *)
| PutFrame                      (* put_bytes: one WAL record, dirty *)
| Commit
| Reopen                        (* drop (commits when dirty) then Memvid::open *)
| CrashReopen.                  (* the process dies (no drop); Memvid::open on the file as it is *)

Record mstate := mkState {
  s_track : track; s_mesh : mesh;         (* in memory *)
  d_track : track; d_mesh : mesh;         (* what the last written TOC points to *)
  s_pending : nat;                        (* frame records in the WAL after the last checkpoint *)
  s_dirty : bool
}.
Definition init_state : mstate := mkState empty_track empty_mesh empty_track empty_mesh 0 false.

(* commit_from_records: memories track written iff card_count > 0 (else manifest = None),
   mesh written iff not empty.  A track without cards reloads as MemoriesTrack::new(). *)
Definition disk_track (tr : track) : track :=
  match t_cards tr with [] => empty_track | _ => persist_track tr end.
Definition disk_mesh (m : mesh) : mesh :=
  if mesh_is_empty m then empty_mesh else persist_mesh m.

Definition do_commit (s : mstate) : mstate :=
  match s_pending s, s_dirty s with
  | O, false => s                           (* nothing pending, not dirty: early return *)
  | _, _ => mkState (s_track s) (s_mesh s) (disk_track (s_track s)) (disk_mesh (s_mesh s)) 0 false
  end.

(* open_locked: load_memories_track / load_logic_mesh read what the TOC points to, THEN
   recover_wal replays pending frame records (rebuild_indexes re-persists both tracks from
   memory, i.e. the values just loaded) *)
Definition do_open (s : mstate) : mstate :=
  mkState (d_track s) (d_mesh s) (d_track s) (d_mesh s) 0 false.

Definition mstep (s : mstate) (o : mop) : mstate :=
  match o with
  | PutCard c => mkState (add_card (s_track s) c) (s_mesh s) (d_track s) (d_mesh s) (s_pending s) true
  | PutCards cs => mkState (fold_left add_card cs (s_track s)) (s_mesh s) (d_track s) (d_mesh s) (s_pending s) true
  | AddNode n => mkState (s_track s) (mkMesh (merge_node (m_nodes (s_mesh s)) n) (m_edges (s_mesh s)))
                         (d_track s) (d_mesh s) (s_pending s) true
  | AddEdge e => mkState (s_track s) (mkMesh (m_nodes (s_mesh s)) (merge_edge (m_edges (s_mesh s)) e))
                         (d_track s) (d_mesh s) (s_pending s) true
  | PutFrame => mkState (s_track s) (s_mesh s) (d_track s) (d_mesh s) (S (s_pending s)) true
  | Commit => do_commit s
  | Reopen => do_open (do_commit s)
  | CrashReopen => do_open s
  end.

Definition mrun (ops : list mop) : mstate := fold_left mstep ops init_state.
