(* Byte-exact model of src/io/wal.rs (EmbeddedWal), following the code function by
   function.  BLAKE3 is the Section variable H.  The file's WAL region is `region`
   (length = region size); everything outside it is never touched by this module. *)
From MV Require Import Base.Prelude.
Local Open Scope N_scope.

Definition EH : N := 48.                      (* ENTRY_HEADER_SIZE *)
Definition U32_MAX : N := 4294967295.

Record wrec := mkRec { r_seq : N; r_payload : bytes }.
Definition rec_size (r : wrec) : N := EH + N.of_nat (length (r_payload r)).

Record wal := mkWal {
  region : bytes; wsize : N; write_head : N; checkpoint_head : N; pending_bytes : N;
  sequence : N; ckpt_seq : N; appends : N }.

(* the two header fields the log reads at open and writes at checkpoint *)
Record whdr := mkHdr { h_ckpt_pos : N; h_seq : N }.

Definition zeros (n : nat) : bytes := repeat 0 n.

(* file.seek(region_offset + pos); file.write_all(b) -- always inside the region here *)
Definition write_at (r : bytes) (pos : nat) (b : bytes) : bytes :=
  firstn pos r ++ b ++ skipn (pos + length b) r.

Definition set_region (w : wal) (r : bytes) : wal :=
  mkWal r (wsize w) (write_head w) (checkpoint_head w) (pending_bytes w) (sequence w) (ckpt_seq w) (appends w).
Definition set_head (w : wal) (h : N) : wal :=
  mkWal (region w) (wsize w) h (checkpoint_head w) (pending_bytes w) (sequence w) (ckpt_seq w) (appends w).

Section Wal.
  Variable H : bytes -> bytes.

  (* write_record: [seq u64][len u32][4 reserved zero bytes][32-byte digest] ++ payload *)
  Definition image (seq : N) (payload : bytes) : bytes :=
    le_encode 8 seq ++ le_encode 4 (N.of_nat (length payload)) ++ zeros 4 ++ H payload ++ payload.

  (* scan_records: always starts at offset 0 of the region; `rest` = region bytes from cursor *)
  Fixpoint scan_from (fuel : nat) (rest : bytes) (cursor size : N) : outcome (list wrec * N) :=
    match fuel with
    | O => Err 99
    | S f =>
        if size <? cursor + EH then Ok ([], cursor)
        else
          let hd := firstn 48 rest in
          let seq := le_decode (firstn 8 hd) in
          let len := le_decode (slice hd 8 4) in
          if (seq =? 0) && (len =? 0) then Ok ([], cursor)
          else if (len =? 0) || (size <? cursor + EH + len) then Err 4
          else
            let payload := slice rest 48 (N.to_nat len) in
            if negb (bytes_eqb (H payload) (slice hd 16 32)) then Err 5
            else match scan_from f (skipn (48 + N.to_nat len) rest) (cursor + EH + len) size with
                 | Ok (l, c) => Ok (mkRec seq payload :: l, c)
                 | Err e => Err e
                 | Panic s => Panic s
                 end
    end.

  Definition scan_records (r : bytes) (size : N) : outcome (list wrec * N) :=
    scan_from (S (length r)) r 0 size.

  Definition pending_sum (ck : N) (l : list wrec) : N :=
    fold_right (fun e acc => if ck <? r_seq e then rec_size e + acc else acc) 0 l.
  Definition last_seq (l : list wrec) (d : N) : N := last (map r_seq l) d.

  (* write_zero_header (fixed code): returns (region, pos) *)
  Definition write_zero_header (w : wal) (position : N) : bytes * N :=
    let pos := N.min position (wsize w) in
    let remaining := wsize w - pos in
    if remaining <? EH then
      (if 0 <? remaining then write_at (region w) (N.to_nat pos) (zeros (N.to_nat remaining)) else region w, pos)
    else (write_at (region w) (N.to_nat pos) (zeros 48), pos).

  Definition maybe_write_sentinel (w : wal) : wal :=
    if wsize w =? 0 then w
    else if wsize w <=? pending_bytes w then w
    else let '(r, p) := write_zero_header w (write_head w) in set_head (set_region w r) p.

  Definition open_wal (r : bytes) (size : N) (h : whdr) : outcome wal :=
    if size =? 0 then Err 7
    else match scan_records r size with
         | Err e => Err e
         | Panic s => Panic s
         | Ok (entries, next_head) =>
             let w := mkWal r size (N.min next_head size) (h_ckpt_pos h mod size)
                            (pending_sum (h_seq h) entries) (last_seq entries (h_seq h)) (h_seq h) 0 in
             Ok (maybe_write_sentinel w)
         end.

  (* append_entry: Err 3 too large, 6 empty, 1 too small, 2 full *)
  Definition append_entry (w : wal) (payload : bytes) : wal * outcome N :=
    let len := N.of_nat (length payload) in
    if U32_MAX <? len then (w, Err 3)
    else if len =? 0 then (w, Err 6)
    else
      let es := EH + len in
      if wsize w <? es then (w, Err 1)
      else if wsize w <? pending_bytes w + es then (w, Err 2)
      else
        let wrapping := wsize w <? write_head w + es in
        if wrapping && (0 <? pending_bytes w) then (w, Err 2)
        else
          let head := if wrapping then 0 else write_head w in
          let nseq := sequence w + 1 in
          let r := write_at (region w) (N.to_nat head) (image nseq payload) in
          let w1 := mkWal r (wsize w) (head + es) (checkpoint_head w) (pending_bytes w + es) nseq (ckpt_seq w) (appends w + 1) in
          (maybe_write_sentinel w1, Ok nseq).

  Definition record_checkpoint (w : wal) : wal * whdr :=
    let w1 := mkWal (region w) (wsize w) (write_head w) (write_head w) 0 (sequence w) (sequence w) 0 in
    (maybe_write_sentinel w1, mkHdr (write_head w) (sequence w)).

  Definition records_after (w : wal) (n : N) : wal * outcome (list wrec) :=
    match scan_records (region w) (wsize w) with
    | Err e => (w, Err e)
    | Panic s => (w, Panic s)
    | Ok (entries, next_head) =>
        let w1 := mkWal (region w) (wsize w) (N.min next_head (wsize w)) (checkpoint_head w)
                        (pending_sum (ckpt_seq w) entries) (last_seq entries (sequence w)) (ckpt_seq w) (appends w) in
        (maybe_write_sentinel w1, Ok (filter (fun e => n <? r_seq e) entries))
    end.

  Definition pending_records (w : wal) : wal * outcome (list wrec) := records_after w (ckpt_seq w).

  (* should_checkpoint: pending/size >= num/den  (exact for sizes below 2^50) *)
  Definition should_checkpoint (thr : N * N) (period : N) (w : wal) : bool :=
    if wsize w =? 0 then false
    else (fst thr * wsize w <=? snd thr * pending_bytes w) || (period <=? appends w).

  (* ---- op language ---- *)
  Inductive wop := WAppend (len fill : N) | WCheckpoint | WStats | WPending | WRecordsAfter (n : N) | WReopen | WShould.
  Inductive wout :=
  | OSeq (r : outcome N)                       (* append: sequence / checkpoint: new checkpoint sequence *)
  | ORecs (r : outcome (list wrec))
  | OStats (pending seq : N)
  | OBool (b : bool)
  | OOpen (r : outcome N).

  Definition payload_of (len fill : N) : bytes := repeat fill (N.to_nat len).

  Definition wstep (thr : N * N) (period : N) (st : wal * whdr) (op : wop) : (wal * whdr) * wout :=
    let '(w, h) := st in
    match op with
    | WAppend len fill => let '(w', o) := append_entry w (payload_of len fill) in ((w', h), OSeq o)
    | WCheckpoint => let '(w', h') := record_checkpoint w in ((w', h'), OSeq (Ok (h_seq h')))
    | WStats => ((w, h), OStats (pending_bytes w) (sequence w))
    | WPending => let '(w', o) := pending_records w in ((w', h), ORecs o)
    | WRecordsAfter n => let '(w', o) := records_after w n in ((w', h), ORecs o)
    | WReopen => match open_wal (region w) (wsize w) h with
                 | Ok w' => ((w', h), OOpen (Ok 0))
                 | Err e => ((w, h), OOpen (Err e))
                 | Panic s => ((w, h), OOpen (Panic s))
                 end
    | WShould => ((w, h), OBool (should_checkpoint thr period w))
    end.

  Fixpoint wrun (thr : N * N) (period : N) (st : wal * whdr) (ops : list wop) : list wout :=
    match ops with
    | [] => []
    | op :: r => let '(st', o) := wstep thr period st op in o :: wrun thr period st' r
    end.
End Wal.
