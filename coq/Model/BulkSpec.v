(* Reference for C40: what plain puts of the same documents give.  The frame table is the
   reference table of Model/StoreSpec.v (one ref_put per document); the infos (timestamp, text
   flag, embedding) of the frames follow from the documents; the indexes are the full indexes of
   that table: time index = sorted (timestamp, id) of the active Document frames, engine = active
   frames with index text, vector index = (frame, embedding given to it) in frame order.
   Also: the three ingestion paths of the property as op lists. *)
From MV Require Import Base.Prelude Model.Store Model.StoreSpec Model.VecStore Model.Timeline Model.Bulk.
Local Open Scope N_scope.

Definition ref_doc (R : list frame) (d : doc) : list frame := ref_put R (d_uri d) (d_tag d) (d_nchunks d) 0.
Definition ref_table (ds : list doc) : list frame := fold_left ref_doc ds [].
Definition ref_infos (ds : list doc) : list info := flat_map doc_infos ds.

Definition spec_view (ds : list doc) : list frame * list Z * list N * list N * docs :=
  let R := ref_table ds in let F := ref_infos ds in
  (R, map i_ts F, map snd (tix_full R F), lex_full R F, vec_full F).

(* a document with the oracle inputs of its put on one path *)
Definition pdoc := (doc * option N * option N)%type.
Definition pd_doc (x : pdoc) : doc := fst (fst x).
Definition put_ops (xs : list pdoc) : list bop := map (fun x => BPut (fst (fst x)) (snd (fst x)) (snd x)) xs.

(* plain puts, then commit *)
Definition plain_path (xs : list pdoc) (extra : N) (g : option N) : list bop := put_ops xs ++ [BCommit extra g].
(* begin_batch, puts, end_batch, commit  (end_first) / begin_batch, puts, commit, end_batch *)
Definition batch_path (o : opts) (xs : list pdoc) (end_first : bool) (extra : N) (g : option N) : list bop :=
  BBegin o :: put_ops xs ++ (if end_first then [BEnd; BCommit extra g] else [BCommit extra g; BEnd]).
(* segments of puts each followed by commit_skip_indexes, then finalize_indexes *)
Definition skip_path (segs : list (list pdoc)) (extra : N) (g : option N) : list bop :=
  flat_map (fun xs => put_ops xs ++ [BSkip]) segs ++ [BFinalize extra g].

