(* C24: the capacity bookkeeping of a memory, following
     src/memvid/mutation.rs  put_internal (capacity part), payload_region_end, capacity_limit, tier,
                             ensure_mutation_allowed, apply_records (payload placement),
                             rebuild_indexes (data_end reset), grow_wal_region, ensure_wal_capacity
     src/memvid/ticket.rs    apply_ticket (sequence check, capacity/issuer fields), stats
     src/memvid/lifecycle.rs create / open (data_end, cached_payload_end)
     src/types/common.rs     Tier::capacity_bytes
   The model keeps the quantities the code keeps.  Everything the capacity logic does not look at
   (payload bytes, frame table, indexes) is left out; sizes that come out of zstd / the chunk
   planner, log growth and automatic checkpoints are inputs of each op (observed on the
   implementation, universally quantified in the theorems).

   [fixed : bool] selects the put check:
     true  = the code AS IT IS NOW (since fix f25e235): payload_tail = max(cached_payload_end, data_end)
             + pending_payload_bytes; first check on prepared.len() (whole payload), second check
             on stored_payload_bytes (parent stored payload + chunk payloads), both before anything
             is appended; pending_payload_bytes += stored after the appends, reset by apply_records.
     false = the check before the fix: projected = cached_payload_end + prepared.len() only
             (kept for the historical refutations and as the regression reference).
   u64 saturating additions are modelled unbounded (sizes are far below 2^64). *)
From MV Require Import Base.Prelude.
Local Open Scope N_scope.

Definition WAL_OFFSET : N := 4096.
Definition WAL_SIZE_TINY : N := 65536.
Definition WAL_SIZE_MEDIUM : N := 4194304.
Definition WAL_SIZE_LARGE : N := 16777216.
Definition TIER_FREE_CAP : N := 52428800.         (* 50 * 1024 * 1024 *)
Definition TIER_DEV_CAP : N := 2147483648.        (* 2 GiB *)
Definition TIER_ENTERPRISE_CAP : N := 10737418240. (* 10 GiB *)
(* start of the data region of a freshly created memory *)
Definition BASE0 : N := WAL_OFFSET + WAL_SIZE_TINY.

(* issuer of the ticket in force, as far as ensure_mutation_allowed looks at it *)
Definition ISS_FREE : N := 0.   (* "free-tier" *)
Definition ISS_BLANK : N := 1.  (* trim().is_empty() *)
Definition ISS_OTHER : N := 2.

Record cstate := mkC {
  cpe : N;          (* cached_payload_end: absolute file offset *)
  dend : N;         (* data_end: where apply_records starts writing payloads *)
  wal : N;          (* header.wal_size *)
  tcap : N;         (* toc.ticket_ref.capacity_bytes (0 = none) *)
  tseq : N;         (* toc.ticket_ref.seq_no *)
  iss : N;          (* toc.ticket_ref.issuer class *)
  vec : bool;       (* vec_enabled *)
  pend : list N;    (* stored payload length of each pending insert record, in log order *)
  stored : N;       (* sum of payload_length over committed frames (stats().payload_bytes) *)
  fend : N          (* max(payload_offset + payload_length) over frames that store bytes, 0 if none:
                       what compute_payload_region_end() finds at open *)
}.

Definition sum (l : list N) : N := fold_right N.add 0 l.

(* Memvid::create: lifecycle.rs empty_toc() has the free-tier ticket (seq 1, 50 MiB) *)
Definition init : cstate :=
  mkC BASE0 BASE0 WAL_SIZE_TINY TIER_FREE_CAP 1 ISS_FREE false [] 0 0.

(* tier() + Tier::capacity_bytes *)
Definition tier_cap (w : N) : N :=
  if WAL_SIZE_LARGE <=? w then TIER_ENTERPRISE_CAP
  else if WAL_SIZE_MEDIUM <=? w then TIER_DEV_CAP
  else TIER_FREE_CAP.
Definition tier_is_free (w : N) : bool := w <? WAL_SIZE_MEDIUM.

(* capacity_limit *)
Definition limit (s : cstate) : N := if tcap s =? 0 then tier_cap (wal s) else tcap s.
(* start of the data region: wal_offset + wal_size *)
Definition base (s : cstate) : N := WAL_OFFSET + wal s.

(* ensure_mutation_allowed *)
Definition mutation_allowed (s : cstate) : bool :=
  (iss s =? ISS_FREE) || tier_is_free (wal s) || negb (iss s =? ISS_BLANK).

Definition set_vec (s : cstate) : cstate :=
  mkC (cpe s) (dend s) (wal s) (tcap s) (tseq s) (iss s) true (pend s) (stored s) (fend s).
Definition add_pend (s : cstate) (l : list N) : cstate :=
  mkC (cpe s) (dend s) (wal s) (tcap s) (tseq s) (iss s) (vec s) (pend s ++ l) (stored s) (fend s).
(* frames move with the data (adjust_offsets_after_wal_growth) *)
Definition move (d : N) (fe : N) : N := if fe =? 0 then 0 else fe + d.
(* grow_wal_region: payloads, data_end and (since the fix) cached_payload_end move by delta *)
Definition shift (d : N) (s : cstate) : cstate :=
  mkC (cpe s + d) (dend s + d) (wal s + d) (tcap s) (tseq s) (iss s) (vec s) (pend s) (stored s) (move d (fend s)).
Definition set_dend (d : N) (s : cstate) : cstate :=
  mkC (cpe s) d (wal s) (tcap s) (tseq s) (iss s) (vec s) (pend s) (stored s) (fend s).
Definition set_ticket (sq cap i : N) (s : cstate) : cstate :=
  mkC (cpe s) (dend s) (wal s) cap sq i (vec s) (pend s) (stored s) (fend s).

(* apply_records: data_cursor starts at data_end; per inline record
     data_cursor += payload_length; cached_payload_end = max(cached_payload_end, data_cursor) *)
Fixpoint apply_pend (cur cp : N) (l : list N) : N * N :=
  match l with
  | [] => (cur, cp)
  | x :: r => apply_pend (cur + x) (N.max cp (cur + x)) r
  end.

(* the frames apply_records creates: record of length x at the cursor; only frames that store
   bytes count for compute_payload_region_end *)
Fixpoint frames_end (cur fe : N) (l : list N) : N :=
  match l with
  | [] => fe
  | x :: r => frames_end (cur + x) (if x =? 0 then fe else N.max fe (cur + x)) r
  end.

(* commit with pending frame records: apply_records, then rebuild_indexes sets
   data_end = payload_region_end(); without frame records nothing of this state moves *)
Definition commit (s : cstate) : cstate :=
  match pend s with
  | [] => s
  | _ => let cp := snd (apply_pend (dend s) (cpe s) (pend s)) in
         mkC cp cp (wal s) (tcap s) (tseq s) (iss s) (vec s) [] (stored s + sum (pend s))
             (frames_end (dend s) (fend s) (pend s))
  end.

(* results: 0 Ok | 1 CapacityExceeded current limit required | 2 TicketRequired | 3 TicketSequence *)
Definition res := (N * N * N * N)%type.
Definition r_ok : res := (0, 0, 0, 0).
Definition r_cap (cur lim req : N) : res := (1, cur, lim, req).
Definition r_ticket_required : res := (2, 0, 0, 0).
Definition r_ticket_sequence : res := (3, 0, 0, 0).
Definition code (r : res) : N := fst (fst (fst r)).

(* what the put check takes as the current end of the payload region *)
Definition tail (fixed : bool) (s : cstate) : N :=
  if fixed then N.max (cpe s) (dend s) + sum (pend s) else cpe s.

(* put_internal with a payload.
     emb    : an embedding is supplied (enable_vec runs before the capacity check)
     chk    : prepared.len(), the stored size of the WHOLE payload (what the code checks)
     st     : payload lengths of the records it appends (one record; or the empty parent
              followed by the separately compressed chunks)
     grow   : by how much append_wal_entry grew the log region during this call
     auto   : the call ended with an automatic checkpoint (wal.should_checkpoint()) *)
Definition put (fixed : bool) (s : cstate) (emb : bool) (chk : N) (st : list N) (grow : N) (auto : bool)
  : cstate * res :=
  if negb (mutation_allowed s) then (s, r_ticket_required)
  else
    let s1 := if emb then set_vec s else s in
    let t := tail fixed s in
    if limit s <? t + chk then (s1, r_cap t (limit s) chk)
    else if fixed && (limit s <? t + sum st) then (s1, r_cap t (limit s) (sum st))
    else
      let s2 := shift grow (add_pend s1 st) in
      ((if auto then commit s2 else s2), r_ok).

(* apply_ticket *)
Definition ticket (s : cstate) (sq : N) (cap : option N) (i : N) : cstate * res :=
  if sq <=? tseq s then (s, r_ticket_sequence)
  else (set_ticket sq (match cap with Some c => c | None => 0 end) i s, r_ok).

(* close (Drop commits what is pending) and open: data_end = compute_data_end(toc) = d, observed;
   cached_payload_end = compute_payload_region_end(toc, header) = max(wal_offset + wal_size, frame ends) *)
Definition reopen (s : cstate) (d : N) : cstate :=
  let c := commit s in
  mkC (N.max (base c) (fend c)) d (wal c) (tcap c) (tseq c) (iss c) (vec c) (pend c) (stored c) (fend c).

(* begin_batch(wal_pre_size_bytes = m) -> ensure_wal_capacity: data_end and cached_payload_end move
   with the data (as in grow_wal_region) *)
Definition presize (s : cstate) (m : N) : cstate :=
  if m <=? wal s then s
  else let target := 2 ^ N.log2_up m in
       let d := target - wal s in
       mkC (cpe s + d) (dend s + d) target (tcap s) (tseq s) (iss s) (vec s) (pend s) (stored s) (move d (fend s)).

Inductive cop :=
| OPut (emb : bool) (chk : N) (st : list N) (grow : N) (auto : bool)
| OCommit (grow : N)      (* grow: flush_tantivy's own log record made the region grow *)
| OTicket (sq : N) (cap : option N) (i : N)
| OReopen (d : N)
| OPresize (m : N).

Definition step (fixed : bool) (s : cstate) (o : cop) : cstate * res :=
  match o with
  | OPut emb chk st grow auto => put fixed s emb chk st grow auto
  | OCommit grow => (shift grow (commit s), r_ok)
  | OTicket sq cap i => ticket s sq cap i
  | OReopen d => (reopen s d, r_ok)
  | OPresize m => (presize s m, r_ok)
  end.

Fixpoint run (fixed : bool) (s : cstate) (ops : list cop) : cstate :=
  match ops with
  | [] => s
  | o :: r => run fixed (fst (step fixed s o)) r
  end.

(* the two machines, by name *)
Definition step_fixed := step true.    (* the code as it is (f25e235) *)
Definition run_fixed := run true.
Definition step_old := step false.     (* the check before the fix *)
Definition run_old := run false.

(* ---- the property, as predicates on states ---- *)

(* where the next commit will have put this put's bytes: what the fixed check projects *)
Definition full_projection (s : cstate) (st : list N) : N :=
  N.max (cpe s) (dend s) + sum (pend s) + sum st.

(* an accepted put whose full projection exceeds the limit: "a put that would exceed the limit" *)
Definition undercounted (s : cstate) (o : cop) : bool :=
  match o with
  | OPut emb chk st grow auto =>
      mutation_allowed s && negb (limit s <? cpe s + chk) && (limit s <? full_projection s st)
  | _ => false
  end.
(* the three ways the old check under-counted *)
Definition by_pending (s : cstate) : bool := 0 <? sum (pend s).
Definition by_stale_end (s : cstate) : bool := cpe s <? dend s.
Definition by_chunks (chk : N) (st : list N) : bool := chk <? sum st.

(* known class of a history: somewhere an under-counted put is accepted *)
Fixpoint known_class (s : cstate) (ops : list cop) : bool :=
  match ops with
  | [] => false
  | o :: r => undercounted s o || known_class (fst (step false s o)) r
  end.

(* a ticket is applied only when what is stored and promised fits the new limit
   (a ticket that lowers the capacity below the present use makes "payload end <= capacity"
   false without any put) *)
Definition top (s : cstate) : N := N.max (cpe s) (fend s).   (* payload end: cached, or real *)
Definition fits (s : cstate) : Prop :=
  BASE0 <= limit s /\
  top s + BASE0 <= limit s + base s /\
  (pend s <> [] -> N.max (top s) (dend s) + sum (pend s) + BASE0 <= limit s + base s).
(* ... and the data_end found at open is not before the frames (compute_data_end takes the
   maximum over the log end, the footer offset, every active frame and every segment) *)
Definition ticket_ok (s : cstate) (o : cop) : Prop :=
  match o with
  | OTicket sq cap i => tseq s < sq -> fits (fst (ticket s sq cap i))
  | OReopen d => N.max (base (commit s)) (fend (commit s)) <= d
  | _ => True
  end.
Fixpoint tickets_ok (fixed : bool) (s : cstate) (ops : list cop) : Prop :=
  match ops with
  | [] => True
  | o :: r => ticket_ok s o /\ tickets_ok fixed (fst (step fixed s o)) r
  end.
(* boolean version for the correspondence runner / examples *)
Definition fitsb (s : cstate) : bool :=
  (BASE0 <=? limit s) && (top s + BASE0 <=? limit s + base s) &&
  (match pend s with [] => true | _ => N.max (top s) (dend s) + sum (pend s) + BASE0 <=? limit s + base s end).

(* the invariant: the payload region end, not counting log growth since creation, is within the
   capacity, and so is everything already promised to pending puts *)
Definition inv (s : cstate) : Prop := WAL_SIZE_TINY <= wal s /\ fend s <= dend s /\ fits s.

(* boolean form of tickets_ok (sound: Proofs/CapacityProofs.v tickets_okb_sound) *)
Definition ticket_okb (s : cstate) (o : cop) : bool :=
  match o with
  | OTicket sq cap i => if tseq s <? sq then fitsb (fst (ticket s sq cap i)) else true
  | OReopen d => N.max (base (commit s)) (fend (commit s)) <=? d
  | _ => true
  end.
Fixpoint tickets_okb (fixed : bool) (s : cstate) (ops : list cop) : bool :=
  match ops with
  | [] => true
  | o :: r => ticket_okb s o && tickets_okb fixed (fst (step fixed s o)) r
  end.
