(* Lexical search recall (C09): the sketch pre-filter and the recall pipeline of
   Memvid::search, followed line by line.  Definitions only.

   src/types/sketch_track.rs : SketchEntry::hamming_distance, term_filter_maybe_overlaps,
                               count_matching_top_terms, QuerySketch::from_query,
                               QuerySketch::score_entry, SketchTrack::find_candidates
   src/memvid/sketch.rs      : Memvid::find_sketch_candidates, has_sketches
   src/memvid/search/mod.rs  : the SKETCH PRE-FILTER block of Memvid::search (options
                               hamming_threshold 32, max_candidates max(500, sat(10*top_k)),
                               min_score 0.0; composition with the filter built so far)
   src/memvid/search/tantivy.rs : doc_limit, the engine call, the evaluation loop, the
                               re-sort and the page loop -- imported from Model/SearchPage.v
                               (C16); the filter stages before the sketch stage are
                               Model/AsOf.v (C11); entries, generate_sketch, the term filter
                               and the on-disk track are Model/Sketch.v (C39).

   Not computed here, hence parameters: the f32 score formula of score_entry (`score_fn`,
   instantiated bit-exactly in Model/RecallF32.v), the search engine (Tantivy:
   `engine`, a function of the candidate filter and the limit), the f32 recency formula of
   the re-sort (`combined`, as in SearchPage.v), and what the evaluation loop reads from the
   frame table per frame id (`toc`). *)
From MV Require Import Base.Prelude Base.SortFacts Model.Sketch Model.AsOf Model.SearchPage.
Local Open Scope N_scope.

(* ------------------------------------------------------------------ bit counting *)
(* (self.simhash ^ other_simhash).count_ones() *)
Fixpoint popcount_pos (p : positive) : N :=
  match p with
  | xH => 1
  | xO q => popcount_pos q
  | xI q => 1 + popcount_pos q
  end.
Definition popcount (n : N) : N := match n with N0 => 0 | Npos p => popcount_pos p end.
Definition hamming_distance (a b : N) : N := popcount (N.lxor a b).

(* self.term_filter.iter().zip(query_filter.iter()).any(|(a, b)| a & b != 0) *)
Fixpoint filters_overlap (a b : bytes) : bool :=
  match a, b with
  | x :: a', y :: b' => negb (N.land x y =? 0) || filters_overlap a' b'
  | _, _ => false
  end.

(* self.top_terms.iter().filter(|t| **t != 0 && query_terms.contains(t)).count() *)
Definition count_matching_top_terms (etop qtop : list N) : N :=
  len (filter (fun t => negb (t =? 0) && mem_id t qtop) etop).

(* ------------------------------------------------------------------ query sketch *)
Record qsketch := mkQ { q_simhash : N; q_filter : bytes; q_top : list N; q_count : N }.

Section FromQuery.
  Variable token : Type.
  Variable token_eqb : token -> token -> bool.
  Variable hash_token : token -> N.

  (* QuerySketch::from_query(query, variant) on tokens = tokenize_for_sketch(query);
     compute_token_weights(&tokens, None) *)
  Definition from_query (tokens : list token) (v : variant) : outcome qsketch :=
    match tokens with
    | [] => Ok (mkQ 0 (repeat 0 (term_filter_size v)) [] 0)
    | _ :: _ =>
        let weighted := compute_token_weights token token_eqb hash_token raw_weight_no_idf tokens in
        match build_term_filter (map fst weighted) (term_filter_size v) with
        | Ok flt => Ok (mkQ (compute_simhash weighted) flt
                            (extract_top_terms weighted (top_terms_count v))
                            (N.of_nat (length tokens)))
        | Err k => Err k
        | Panic s => Panic s
        end
    end.
End FromQuery.

(* ((token_count / 10).min(255)) *)
Definition len_bucket (token_count : N) : N := N.min (token_count / 10) 255.

(* candidates.truncate(n) with n : usize, by recursion on the list *)
Fixpoint takeN {A} (n : N) (l : list A) : list A :=
  match l with
  | [] => []
  | x :: r => if n =? 0 then [] else x :: takeN (n - 1) r
  end.

(* ------------------------------------------------------------------ scoring and candidates *)
Section Candidates.
  Variable S : Type.
  (* the f32 expression of score_entry as a function of
     (term_overlap, max_terms, hamming, query length bucket, entry length hint) *)
  Variable score_fn : N -> N -> N -> N -> N -> S.
  (* a <= b on scores (never NaN: every operand is a finite non-negative number) *)
  Variable s_le : S -> S -> bool.

  (* QuerySketch::score_entry(entry, hamming_threshold) *)
  Definition score_entry (q : qsketch) (e : entry) (thr : N) : option S :=
    if negb (filters_overlap (e_filter e) (q_filter q)) then None
    else
      let h := hamming_distance (e_simhash e) (q_simhash q) in
      if thr <? h then None
      else Some (score_fn (count_matching_top_terms (e_top e) (q_top q))
                          (N.max (len (q_top q)) 1) h (len_bucket (q_count q)) (Sketch.e_len e)).

  (* self.iter().filter_map(|entry| score_entry(..).map(|score| (entry.frame_id, score))) *)
  Definition scored (q : qsketch) (thr : N) (es : list entry) : list (N * S) :=
    flat_map (fun e => match score_entry q e thr with
                       | Some s => [(e_frame_id e, s)]
                       | None => []
                       end) es.

  (* sort_by(|a, b| b.1.partial_cmp(&a.1).unwrap_or(Equal)): stable, score descending *)
  Definition by_score_desc (a b : N * S) : bool := s_le (snd b) (snd a).

  (* SketchTrack::find_candidates(query, hamming_threshold, max_candidates) *)
  Definition find_candidates (q : qsketch) (thr maxc : N) (es : list entry) : list (N * S) :=
    takeN maxc (isort by_score_desc (scored q thr es)).

  (* self.sketch_track.get(frame_id) *)
  Definition track_get (es : list entry) (fid : N) : option entry :=
    find (fun e => e_frame_id e =? fid) es.

  (* Memvid::find_sketch_candidates(query, Some(opts)): (frame_id, score, hamming_distance,
     matching_top_terms) *)
  Definition find_sketch_candidates (q : qsketch) (es : list entry) (thr maxc : N) (min_score : S)
    : list (N * S * N * N) :=
    map (fun p =>
           let e := track_get es (fst p) in
           (fst p, snd p,
            match e with Some e => hamming_distance (e_simhash e) (q_simhash q) | None => 64 end,
            match e with Some e => count_matching_top_terms (e_top e) (q_top q) | None => 0 end))
        (filter (fun p => s_le min_score (snd p)) (find_candidates q thr maxc es)).

  (* ---------------------------------------------------------------- the stage in Memvid::search *)
  Definition SKETCH_HAMMING_THRESHOLD : N := 32.
  Definition SKETCH_MIN_CANDIDATES : N := 500.
  (* max_candidates: params.top_k.saturating_mul(10).max(500)        (repo commit 9b4da04) *)
  Definition sketch_max_candidates (top_k : N) : N :=
    N.max (N.min (top_k * 10) USIZE_MAX) SKETCH_MIN_CANDIDATES.

  Variable s_zero : S.   (* min_score: 0.0 *)

  (* sketch_candidates.iter().map(|c| c.frame_id) *)
  Definition sketch_candidate_ids (q : qsketch) (es : list entry) (maxc : N) : list N :=
    map (fun c => fst (fst (fst c))) (find_sketch_candidates q es SKETCH_HAMMING_THRESHOLD maxc s_zero).

  (* if self.has_sketches() && has_text_terms && !request.no_sketch *)
  Definition sketch_applies (es : list entry) (has_text no_sketch : bool) : bool :=
    negb (is_nil es) && has_text && negb no_sketch.

  (* if !sketch_candidates.is_empty() {
       candidate_filter = match candidate_filter {
         Some(existing) => { let filtered = existing ∩ sketch_set;
                             if filtered.is_empty() { Some(existing) } else { Some(filtered) } }
         None => Some(sketch_set) } }                 (the code after the lead's fix d76304f) *)
  Definition sketch_stage (cands : list N) (cf : option (list N)) : option (list N) :=
    if is_nil cands then cf
    else match cf with
         | Some existing =>
             let filtered := keep_in cands existing in
             if is_nil filtered then Some existing else Some filtered
         | None => Some cands
         end.

  (* the candidate filter handed to try_tantivy_search, from the filter cf0 the earlier
     stages built (None with the default options) *)
  Definition final_filter (es : list entry) (q : qsketch) (has_text no_sketch : bool) (top_k : N)
             (cf0 : option (list N)) : option (list N) :=
    if sketch_applies es has_text no_sketch then
      sketch_stage (sketch_candidate_ids q es (sketch_max_candidates top_k)) cf0
    else cf0.
End Candidates.

(* ------------------------------------------------------------------ candidate filters as sets *)
Definition in_cf (cf : option (list N)) (f : N) : bool :=
  match cf with None => true | Some l => mem_id f l end.

(* HashSet::len(): number of distinct members *)
Fixpoint dedupN (l : list N) : list N :=
  match l with
  | [] => []
  | x :: r => x :: filter (fun y => negb (x =? y)) (dedupN r)
  end.
Definition set_len (l : list N) : N := len (dedupN l).

(* the limit handed to the engine, try_tantivy_search (repo commit 9b4da04: saturating, never panics):
     let base_docs = request.top_k.max(1).saturating_add(offset_hint);
     let mut doc_limit = base_docs.saturating_mul(4).max(20);
     if let Some(filter) = candidate_filter { doc_limit = doc_limit.min(filter.len().max(1)); }
   Stated here (not imported from SearchPage.doc_limit) so that this development does not depend
   on how that definition writes its overflow branch. *)
Definition engine_limit (top_k hint : N) (flt : option N) : N :=
  let base := N.min (N.max top_k 1 + hint) USIZE_MAX in
  let l := N.max (N.min (base * 4) USIZE_MAX) 20 in
  match flt with
  | Some f => N.min l (N.max f 1)
  | None => l
  end.

(* ------------------------------------------------------------------ the pipeline *)
(* what the evaluation loop of try_tantivy_search reads from the frame table for one hit:
   survives the stale / uri / scope / parsed.evaluate culls, chunk start, chunk length, the
   snippet-slice table per cap (SearchPage.c_tab), effective timestamp *)
Record tocfacts := mkToc { t_keep : bool; t_cstart : N; t_clen : N; t_tab : list (list (N * N)); t_ts : Z }.

Definition mk_cand (toc : N -> tocfacts) (h : N * N) : cand :=
  let t := toc (fst h) in
  mkCand (fst h) (t_keep t) (snd h) (t_cstart t) (t_clen t) (t_tab t) (t_ts t).

Section Pipeline.
  Variable S : Type.
  Variable score_fn : N -> N -> N -> N -> N -> S.
  Variable s_le : S -> S -> bool.
  Variable s_zero : S.
  (* engine.search_documents(parsed, uri, scope, frame_filter, doc_limit): (frame id, score bits)
     in rank order *)
  Variable engine : option (list N) -> N -> list (N * N).
  Variable toc : N -> tocfacts.
  Variable combined : N -> Z -> N.

  Record sreq := mkSreq { r_top_k : N; r_cursor : cursor; r_has_text : bool; r_no_sketch : bool }.

  (* Memvid::search from the sketch block to the response of try_tantivy_search.
     Ok None = the legacy lex pipeline answers (search_with_lex_fallback). *)
  Definition search (es : list entry) (q : qsketch) (rq : sreq) (cf0 : option (list N)) (has_lex : bool)
    : outcome (option page) :=
    let cf := final_filter S score_fn s_le s_zero es q (r_has_text rq) (r_no_sketch rq) (r_top_k rq) cf0 in
    let limit := engine_limit (r_top_k rq) (offset_hint (r_cursor rq)) (option_map set_len cf) in
    after_engine combined has_lex (map (mk_cand toc) (engine cf limit)) (r_top_k rq) (r_cursor rq).

  Definition hit_frames (p : page) : list N := map fst (p_hits p).
End Pipeline.

(* ------------------------------------------------------------------ known classes *)
(* F-C09-1 sketch-false-negative: the sketch stage removes a matching frame from the
   candidate filter (M = the matching frames; cf0 / cf = filter before / after the stage) *)
Definition sketch_drops (M : list N) (cf0 cf : option (list N)) : bool :=
  existsb (fun f => in_cf cf0 f && negb (in_cf cf f)) M.

(* F-C09-2 snippets-exceed-top-k: the evaluated documents yield more snippets than top_k *)
Definition snippets_exceed (ev : list edoc) (top_k : N) : bool :=
  N.max top_k 1 <? len (flat_map (fun d => flat_map (fun sl => match emit_tantivy d sl with Some h => [h] | None => [] end)
                                                     (e_slices d)) ev).

(* why a frame is not a sketch candidate: its own entry fails score_entry (no filter overlap /
   Hamming distance above the threshold), is cut by max_candidates, or carries another number *)
Definition entry_passes (q : qsketch) (thr : N) (e : entry) : bool :=
  filters_overlap (e_filter e) (q_filter q) && (hamming_distance (e_simhash e) (q_simhash q) <=? thr).

(* the track as it is after close + reopen (read_sketch_track ∘ write_sketch_track) *)
Definition reopened (t : track) : track := readback t.

(* positive finite f32 values order like their bit patterns: the score domain of the
   correspondence run *)
Definition bits_le (a b : N) : bool := a <=? b.

(* ------------------------------------------------------------------ request-level classes *)
(* a snippet slice that the hit-assembly loop turns into a hit (emit_tantivy <> None) *)
Definition slice_ok (clen : N) (sl : N * N) : bool := N.min (fst sl) clen <? N.min (snd sl) clen.

(* the snippet slices of a frame under the per-document cap *)
Definition toc_slices (t : tocfacts) (cap : N) : list (N * N) :=
  nth (N.to_nat (N.min cap (len (t_tab t))) - 1) (t_tab t) [].

(* the frame survives the evaluation loop and yields at least one hit-producing slice *)
Definition evaluable (toc : N -> tocfacts) (top_k : N) (f : N) : bool :=
  t_keep (toc f) && existsb (slice_ok (t_clen (toc f))) (toc_slices (toc f) (N.max top_k 1)).

Section Classes.
  Variable S : Type.
  Variable score_fn : N -> N -> N -> N -> N -> S.
  Variable s_le : S -> S -> bool.
  Variable s_zero : S.
  Variable engine : option (list N) -> N -> list (N * N).
  Variable toc : N -> tocfacts.
  Variable combined : N -> Z -> N.

  (* the `evaluated` vector of the request after the re-sort *)
  Definition evaluated_docs (es : list entry) (q : qsketch) (rq : sreq) (cf0 : option (list N)) : list edoc :=
    let cf := final_filter S score_fn s_le s_zero es q (r_has_text rq) (r_no_sketch rq) (r_top_k rq) cf0 in
    let limit := engine_limit (r_top_k rq) (offset_hint (r_cursor rq)) (option_map set_len cf) in
    resort combined (evaluate (N.max (r_top_k rq) 1) (map (mk_cand toc) (engine cf limit))).

  (* F-C09-2 *)
  Definition known_snippets (es : list entry) (q : qsketch) (rq : sreq) (cf0 : option (list N)) : bool :=
    snippets_exceed (evaluated_docs es q rq cf0) (r_top_k rq).

  (* F-C09-1 *)
  Definition known_sketch (es : list entry) (q : qsketch) (rq : sreq) (cf0 : option (list N)) (M : list N) : bool :=
    sketch_drops M cf0 (final_filter S score_fn s_le s_zero es q (r_has_text rq) (r_no_sketch rq) (r_top_k rq) cf0).
End Classes.

(* the engine hypothesis of the recall theorems: every document of lex_docs ∩ filter whose
   indexed text contains the term (M) is among the results whenever there are at most
   `limit` such documents (the engine treats limit 0 as 1) *)
Definition engine_recall (engine : option (list N) -> N -> list (N * N)) (M : list N) : Prop :=
  forall cf limit f,
    In f M -> in_cf cf f = true ->
    len (filter (in_cf cf) M) <= N.max limit 1 ->
    In f (map fst (engine cf limit)).

(* ------------------------------------------------------------------ instances *)
(* an engine given by the finite ranked table of what it finds unfiltered: members of the
   filter, first `limit.max(1)` *)
Definition table_engine2 (tbl : list (N * N)) (cf : option (list N)) (limit : N) : list (N * N) :=
  takeN (N.max limit 1) (filter (fun h => in_cf cf (fst h)) tbl).

(* the candidate SET does not depend on the score while max_candidates does not cut: the
   score-free instance used by the correspondence run on real memories and by the witnesses *)
Definition unit_score (_ _ _ _ _ : N) : unit := tt.
Definition unit_le (_ _ : unit) : bool := true.
