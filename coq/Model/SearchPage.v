(* Model of search pagination: src/memvid/search/helpers.rs `parse_cursor`, and in
   src/memvid/search/tantivy.rs `try_tantivy_search` the `offset_hint` / `doc_limit`
   computation, the recency re-sort, the page loop with `produced`, `next_cursor`,
   `total_hits`; the page loop of src/memvid/search/fallback.rs `search_with_lex_fallback`.

   Two layers.

   LAYER (page_of): the page loop as written, over an ABSTRACT evaluated list
   (`list edoc`: what the Rust `evaluated` vector holds after the re-sort: frame id,
   score, chunk start, chunk byte length, snippet slices, effective timestamp).

   END TO END (e2e_search): everything between the engine call and the response.
   The engine (Tantivy `TopDocs::with_limit(doc_limit)`) is an oracle: a fixed ranked
   candidate list of which a request sees the first `doc_limit`.  A candidate carries
   what the evaluation loop reads from the TOC: whether it survives the stale / uri /
   `parsed.evaluate` culls (`c_keep`), chunk start and length, effective timestamp,
   BM25 score, and a table of `compute_snippet_slices(text, occurrences, window, cap)`
   for cap = 1, 2, ... (the last entry stands for every larger cap): the per-document
   cap is `max_snippets_per_doc = request.top_k.max(1)`, so the slices -- and through
   them `total_hits` -- depend on the page size.  The f32 formula of the recency re-sort
   (`bm25*0.4 + bm25*exp(-0.00000802*age)*0.6`) is a Section variable `combined`
   (score bits, age in seconds) -> key, compared as numbers (positive finite f32 values
   order like their bit patterns).

   Cursor strings are modelled by what the two parsers distinguish: `offset_hint` is
   `cursor.parse::<usize>()` WITHOUT trim, `parse_cursor` trims first. *)
From MV Require Import Base.Prelude Base.SortFacts.
Local Open Scope N_scope.

Definition USIZE_MAX : N := 2 ^ 64 - 1.
Definition I64_MAX : Z := (2 ^ 63 - 1)%Z.
Definition I64_MIN : Z := (- 2 ^ 63)%Z.

(* error kinds of the outcome *)
Definition E_CURSOR_NOT_INT : N := 1.
Definition E_CURSOR_BEYOND : N := 2.
Definition E_FALLBACK : N := 3.    (* not an error of the code: "the legacy pipeline answers" *)

(* ---------- cursor ---------- *)
(* TInt n padded : the trimmed token parses as usize n (n <= USIZE_MAX); padded = the raw
                   token has surrounding whitespace (so the un-trimmed parse fails)
   TBlank        : empty after trim
   TBad          : trimmed token is not a usize (letters, sign '-', > u64::MAX, ...) *)
Inductive ctoken := TInt (n : N) (padded : bool) | TBlank | TBad.
Definition cursor := option ctoken.

(* request.cursor.as_deref().and_then(|c| c.parse::<usize>().ok()).unwrap_or(0) *)
Definition offset_hint (c : cursor) : N :=
  match c with
  | Some (TInt n false) => n
  | _ => 0
  end.

(* fn parse_cursor(cursor, total_hits) *)
Definition parse_cursor (c : cursor) (total : N) : outcome N :=
  match c with
  | None => Ok 0
  | Some TBlank => Ok 0
  | Some TBad => Err E_CURSOR_NOT_INT
  | Some (TInt n _) => if total <? n then Err E_CURSOR_BEYOND else Ok n
  end.

(* the cursor string the code hands out: produced.to_string() *)
Definition cursor_of (n : N) : cursor := Some (TInt n false).

(* ---------- doc_limit ---------- *)
Definition DOC_LIMIT_FACTOR : N := 4.
Definition DOC_LIMIT_FLOOR : N := 20.

(* let base_docs = request.top_k.max(1).saturating_add(offset_hint);
   let mut doc_limit = base_docs.saturating_mul(4).max(20);
   if let Some(filter) = candidate_filter { doc_limit = doc_limit.min(filter.len().max(1)) }
   (since /repo 9b4da04 the add saturates; before it was unchecked and the debug build
   panicked above usize::MAX.  The result type stays `outcome N`; the value is always Ok.) *)
Definition doc_limit (top_k hint : N) (flt : option N) : outcome N :=
  let base := N.min (N.max top_k 1 + hint) USIZE_MAX in
  let l := N.max (N.min (base * DOC_LIMIT_FACTOR) USIZE_MAX) DOC_LIMIT_FLOOR in
  Ok (match flt with
      | Some f => N.min l (N.max f 1)
      | None => l
      end).

(* ---------- evaluated documents and hits ---------- *)
Record edoc := mkEdoc {
  e_frame : N;              (* hit.frame_id *)
  e_score : N;              (* hit.score, f32 bits *)
  e_cstart : N;             (* chunk_info.start *)
  e_clen : N;               (* chunk_info.text.len() *)
  e_slices : list (N * N);  (* compute_snippet_slices(...) *)
  e_ts : Z                  (* effective_ts *)
}.

(* what C16 compares of a SearchHit: (frame_id, range) *)
Definition hit := (N * (N * N))%type.

Definition len {A} (l : list A) : N := N.of_nat (length l).

(* body of `for (start, end) in slices` after the two guards, try_tantivy_search:
     local_start = start.min(chunk_bytes.len()); local_end = end.min(chunk_bytes.len());
     if local_end <= local_start { produced += 1; continue; }
     global_start = chunk_start + local_start; global_end = chunk_start + local_end;
     if global_end <= global_start { produced += 1; continue; }
     hits.push(..range: (global_start, global_end)..) *)
Definition emit_tantivy (d : edoc) (sl : N * N) : option hit :=
  let ls := N.min (fst sl) (e_clen d) in
  let le := N.min (snd sl) (e_clen d) in
  if le <=? ls then None
  else
    let gs := e_cstart d + ls in
    let ge := e_cstart d + le in
    if ge <=? gs then None else Some (e_frame d, (gs, ge)).

(* search_with_lex_fallback: e_cstart = matched.chunk_offset, e_clen = matched.content.len(),
   eff = canonical_limit.min(canonical.len()):
     chunk_end = (chunk_start + content.len()).min(effective_len);
     if chunk_end <= chunk_start { produced += 1; continue; }
     global_start = (chunk_start + start).min(chunk_end); global_end = (chunk_start + end).min(chunk_end);
     if global_end <= global_start { produced += 1; continue; } *)
Definition emit_fallback (eff : edoc -> N) (d : edoc) (sl : N * N) : option hit :=
  let ce := N.min (e_cstart d + e_clen d) (eff d) in
  if ce <=? e_cstart d then None
  else
    let gs := N.min (e_cstart d + fst sl) ce in
    let ge := N.min (e_cstart d + snd sl) ce in
    if ge <=? gs then None else Some (e_frame d, (gs, ge)).

(* ---------- the page loop ---------- *)
Section PageLoop.
  Variable emit : edoc -> N * N -> option hit.
  (* k = effective_top_k = request.top_k.max(1); offset = parse_cursor(..) *)
  Variables k offset : N.

  (* state: (hits, produced) *)
  Definition pstate := (list hit * N)%type.

  (* for (start, end) in slices {
       if produced < offset { produced += 1; continue; }
       if hits.len() == effective_top_k { break; }
       ... emit or count ...; produced += 1 } *)
  Fixpoint inner_loop (d : edoc) (sls : list (N * N)) (st : pstate) : pstate :=
    match sls with
    | [] => st
    | sl :: r =>
        let '(hits, produced) := st in
        if produced <? offset then inner_loop d r (hits, produced + 1)
        else if len hits =? k then st
        else match emit d sl with
             | None => inner_loop d r (hits, produced + 1)
             | Some h => inner_loop d r (hits ++ [h], produced + 1)
             end
    end.

  (* for (hit, occurrences, slices, chunk_info, _) in evaluated {
       if hits.len() == effective_top_k && produced >= offset { break; }     (tantivy only: early = true)
       ... inner loop ... } *)
  Fixpoint outer_loop (early : bool) (docs : list edoc) (st : pstate) : pstate :=
    match docs with
    | [] => st
    | d :: r =>
        let '(hits, produced) := st in
        if early && (len hits =? k) && (offset <=? produced) then st
        else outer_loop early r (inner_loop d (e_slices d) st)
    end.
End PageLoop.

Record page := mkPage {
  p_hits : list hit;
  p_total : N;             (* total_hits *)
  p_next : option N        (* next_cursor, as the number it prints *)
}.

(* total_slices = evaluated.iter().map(|..| slices.len()).sum() *)
Definition total_slices (ev : list edoc) : N :=
  fold_right (fun d acc => len (e_slices d) + acc) 0 ev.

(* from `let offset = parse_cursor(..)?` to the response *)
Definition page_of (early : bool) (emit : edoc -> N * N -> option hit)
           (ev : list edoc) (top_k : N) (c : cursor) : outcome page :=
  let total := total_slices ev in
  match parse_cursor c total with
  | Err e => Err e
  | Panic s => Panic s
  | Ok offset =>
      let k := N.max top_k 1 in
      let '(hits, produced) := outer_loop emit k offset early ev ([], 0) in
      Ok (mkPage hits total (if produced <? total then Some produced else None))
  end.

(* ---------- following next_cursor ---------- *)
Inductive walk_end := Done | Failed (kind : N) | Panicked | OutOfFuel.

Fixpoint follow (fuel : nat) (search : cursor -> outcome page) (c : cursor) : list page * walk_end :=
  match fuel with
  | O => ([], OutOfFuel)
  | S f =>
      match search c with
      | Err e => ([], Failed e)
      | Panic _ => ([], Panicked)
      | Ok p =>
          match p_next p with
          | None => ([p], Done)
          | Some n => let '(ps, e) := follow f search (cursor_of n) in (p :: ps, e)
          end
      end
  end.

(* ---------- end to end ---------- *)
Record cand := mkCand {
  c_frame : N;
  c_keep : bool;                    (* survives the stale / uri / scope / evaluate culls *)
  c_score : N;
  c_cstart : N;
  c_clen : N;
  c_tab : list (list (N * N));      (* slices at cap 1, 2, ...; last entry for larger caps *)
  c_ts : Z
}.

Definition slices_at (c : cand) (cap : N) : list (N * N) :=
  nth (N.to_nat (N.min cap (len (c_tab c))) - 1) (c_tab c) [].

(* the loop `for hit in search_hits` : culls, then `if slices.is_empty() { continue }` *)
Definition evaluate (cap : N) (hits : list cand) : list edoc :=
  flat_map (fun c =>
              if c_keep c then
                match slices_at c cap with
                | [] => []
                | s => [mkEdoc (c_frame c) (c_score c) (c_cstart c) (c_clen c) s (c_ts c)]
                end
              else []) hits.

Section EndToEnd.
  (* combined score of the re-sort as a function of (bm25 bits, age seconds) *)
  Variable combined : N -> Z -> N.

  (* evaluated.iter().map(ts).max().unwrap_or(0) *)
  Definition max_ts (ev : list edoc) : Z :=
    match ev with
    | [] => 0%Z
    | d :: r => fold_left (fun m x => Z.max m (e_ts x)) r (e_ts d)
    end.

  (* age_seconds = max_ts.saturating_sub(timestamp).max(0) as f32   (i64 saturation, /repo 9b4da04) *)
  Definition resort_key (mts : Z) (d : edoc) : N :=
    combined (e_score d) (Z.max (Z.max I64_MIN (Z.min (mts - e_ts d) I64_MAX)) 0).

  (* if evaluated.len() > 1 {
       let mut with_scores: Vec<(f32, _)> = evaluated.into_iter().map(|item| (combined_score, item)).collect();
       with_scores.sort_by(|a, b| b.0.partial_cmp(&a.0).unwrap_or(Equal));      stable, descending
       evaluated = with_scores.into_iter().map(|(_, item)| item).collect(); } *)
  Definition resort (ev : list edoc) : list edoc :=
    if 1 <? len ev then
      let mts := max_ts ev in
      let with_scores := map (fun d => (resort_key mts d, d)) ev in
      map snd (isort (fun a b : N * edoc => fst b <=? fst a) with_scores)
    else ev.

  Definition empty_page : page := mkPage [] 0 None.

  (* try_tantivy_search after the engine call (engine present, no engine error), then what
     Memvid::search does with an absent answer.
     Ok None = the legacy lex pipeline answers (modelled by page_of false emit_fallback). *)
  Definition after_engine (has_lex : bool) (search_hits : list cand)
             (top_k : N) (c : cursor) : outcome (option page) :=
    match search_hits with
    | [] => if has_lex then Ok None else Ok (Some empty_page)
    | _ =>
        let ev := resort (evaluate (N.max top_k 1) search_hits) in
        match ev with
        | [] => Ok None
        | _ =>
            if total_slices ev =? 0 then Ok None
            else match page_of true emit_tantivy ev top_k c with
                 | Ok p => Ok (Some p)
                 | Err e => Err e
                 | Panic s => Panic s
                 end
        end
    end.

  (* try_tantivy_search from `offset_hint` on.  `cands` = the engine's ranking for this
     query and filter; the request sees `firstn doc_limit` (engine: limit.min(num_docs).max(1),
     and the ranking never holds more than num_docs entries: written as min with len cands). *)
  Definition e2e_search (has_lex : bool) (flt : option N) (cands : list cand)
             (top_k : N) (c : cursor) : outcome (option page) :=
    match doc_limit top_k (offset_hint c) flt with
    | Err e => Err e
    | Panic s => Panic s
    | Ok limit => after_engine has_lex (firstn (N.to_nat (N.min (N.max limit 1) (len cands))) cands) top_k c
    end.

  Definition e2e_page (has_lex : bool) (flt : option N) (cands : list cand)
             (top_k : N) (c : cursor) : outcome page :=
    match e2e_search has_lex flt cands top_k c with
    | Ok (Some p) => Ok p
    | Ok None => Err E_FALLBACK
    | Err e => Err e
    | Panic s => Panic s
    end.
End EndToEnd.

(* ---------- classes of the two known findings ---------- *)
Definition slices_eqb (a b : list (N * N)) : bool :=
  list_eqb (fun x y => (fst x =? fst y) && (snd x =? snd y)) a b.

(* F-C16-1: more candidates than the first page's doc_limit *)
Definition limit_binds (cands : list cand) (top_k : N) : bool :=
  match doc_limit top_k 0 None with
  | Ok l => l <? len cands
  | _ => true
  end.

(* F-C16-2: some surviving candidate has a different slice list under the two per-document caps *)
Definition cap_binds (cands : list cand) (k K : N) : bool :=
  existsb (fun c => c_keep c && negb (slices_eqb (slices_at c (N.max k 1)) (slices_at c (N.max K 1)))) cands.

Definition known_class (cands : list cand) (k K : N) : bool :=
  limit_binds cands k || limit_binds cands K || cap_binds cands k K.

(* integer surrogate of the f32 formula for the refutation witnesses: 0.4 + 0.6 * 2^-(age / 1 day),
   scaled by 10240 (the code's decay 0.00000802 = ln 2 / 86400), whole days only *)
Definition combined_days (score : N) (age : Z) : N :=
  score * (4096 + N.shiftr 6144 (Z.to_N (age / 86400))).
