(* M-Doctor (C21): Memvid::doctor (src/memvid/doctor.rs) over a coarse abstract file.

   The abstract file records exactly the facts the doctor's decision tree looks at:
   where the header points / where the current TOC starts, the three copies of the TOC
   checksum (header field, field stored inside the TOC, checksum the TOC bytes really have),
   whether the 56 bytes at the end of the file are the commit footer of that TOC, whether the
   TOC bytes still hash to the footer's hash and still decode, an older commit (footer + TOC)
   that may have survived inside the file, the embedded log (clean / pending acknowledged
   records / unreadable), the time, lexical and vector indexes, and the frame table as rows
   (status, content tag).

   Functions follow the code: read_toc / recover_toc (lifecycle.rs), DoctorPlanner::probe and
   ::compute, Memvid::try_open = open_locked (header fix-up, log replay through commit,
   checksum re-check), try_recover_from_wal_corruption, the phases of DoctorExecutor::run in
   plan order (HeaderHealing, WalReplay, Vacuum, IndexRebuild + apply_pending_rebuilds,
   Finalize, Verify with reset_wal), the header revert on failure, Memvid::verify, and the
   status rule (Failed / Clean when the plan is a no-op / Healed).

   What commit / rebuild_indexes / vacuum do to the frame rows is taken from the properties
   that own them (C01: replay applies the pending records; C42: vacuum keeps every row's
   status and content; C14: since fix 83a83e8 a vector rebuild re-encodes the entries of the index it can
   still load -- only a damaged index, which holds the embeddings nowhere else, comes back empty).
   Payload placement is abstracted away: the model has no byte layout (no payload windows, no
   cached_payload_end / data_end, no position of the index area).  That rebuild_indexes writes the index
   area BEHIND every payload -- also when payload ranges are shared (payload-less update: a newer frame
   points at an older frame's bytes) or not monotone in the frame id (vacuum, update) -- is an assumption
   here (owned byte-exactly by C42 for vacuum); for doctor it is tied only by the property oracle on real
   files whose histories contain those idioms (harness history profiles 1-4).
   Not modelled: I/O errors, a header whose own magic/version is damaged (HeaderDecodeFailure),
   the legacy (pre-Tantivy) lexical index and the parallel-segments vector catalog, memory
   cards / mesh / sketch tracks, lock contention. *)
From MV Require Import Base.Prelude.
Local Open Scope N_scope.

(* ---------- frame rows and pending records ---------- *)
(* status: 0 Active, 1 Superseded, 2 Deleted; tag: content tag of an active frame (0 otherwise) *)
Definition row := (N * N)%type.

Inductive pop :=
| PIns (tag : N)                 (* put: a new active frame *)
| PUpd (target tag : N)          (* update with payload: target superseded, new active frame *)
| PDel (target : N).             (* delete: tombstone *)

Fixpoint set_nth {A} (n : nat) (v : A) (l : list A) : list A :=
  match l, n with
  | [], _ => []
  | _ :: r, O => v :: r
  | x :: r, S k => x :: set_nth k v r
  end.

Definition apply_pop (t : list row) (p : pop) : list row :=
  match p with
  | PIns tag => t ++ [(0, tag)]
  | PUpd tg tag => set_nth (N.to_nat tg) (1, 0) t ++ [(0, tag)]
  | PDel tg => set_nth (N.to_nat tg) (2, 0) t
  end.
Definition replay (t : list row) (ps : list pop) : list row := fold_left apply_pop ps t.

Definition is_insert (p : pop) : bool := match p with PDel _ => false | _ => true end.

(* ---------- the abstract file ---------- *)
Inductive walst := WClean | WPending (ps : list pop) | WCorrupt (ps : list pop).
Inductive ixst := IxNone | IxOk | IxBad.

Record afile := mkFile {
  f_ptr : N;              (* header.footer_offset *)
  f_toc : N;              (* offset of the current TOC (the last commit's) *)
  f_foot : N;             (* offset of its commit footer = file length - 56 *)
  f_H : N;                (* header.toc_checksum *)
  f_S : N;                (* toc.toc_checksum as stored inside the TOC bytes *)
  f_C : N;                (* the checksum those TOC bytes really have *)
  f_footer : bool;        (* magic, toc_len and toc_hash fields of the footer are intact *)
  f_tocbytes : bool;      (* the TOC bytes are the ones the footer's hash was taken of *)
  f_tocdec : bool;        (* the TOC bytes decode *)
  f_older : option (list row * N * N);   (* an older valid footer+TOC inside the file: rows, offset, checksum *)
  f_wal : walst;
  f_seq : N;              (* header.wal_sequence *)
  f_time : ixst;
  f_lex : bool;           (* Tantivy segments listed in the TOC *)
  f_vec : ixst;
  f_nvec : N;             (* embeddings of active frames in the index once the pending records are applied
                             (a damaged index contributes none: only the pending embeddings) *)
  f_rows : list row }.

Definition with_hdr (f : afile) (ptr h : N) : afile :=
  mkFile ptr (f_toc f) (f_foot f) h (f_S f) (f_C f) (f_footer f) (f_tocbytes f) (f_tocdec f) (f_older f)
         (f_wal f) (f_seq f) (f_time f) (f_lex f) (f_vec f) (f_nvec f) (f_rows f).

(* ---------- lifecycle.rs ---------- *)
(* read_toc: everything from header.footer_offset to EOF must be TOC + footer, lengths and hash must match *)
Definition read_toc (f : afile) : bool :=
  (f_ptr f =? f_toc f) && f_footer f && f_tocbytes f && f_tocdec f.

(* recover_toc(hint = header.footer_offset): last valid footer anywhere in the file; else the bytes from
   the hint to the footer position decoded without validation; else the legacy scan (never succeeds on
   files written by this version). Result: rows, stored checksum, does it verify, offset. *)
Definition recover_toc (f : afile) : option (list row * N * bool * N) :=
  if f_footer f && f_tocbytes f then
    if f_tocdec f then Some (f_rows f, f_S f, f_S f =? f_C f, f_toc f) else None
  else match f_older f with
       | Some (r, off, ck) => Some (r, ck, true, off)
       | None => if (f_ptr f =? f_toc f) && f_tocdec f
                 then Some (f_rows f, f_S f, f_S f =? f_C f, f_ptr f) else None
       end.

(* the TOC the code ends up with: (rows, stored checksum, verifies, offset, recovered) *)
Definition find_toc (f : afile) : option (list row * N * bool * N * bool) :=
  if read_toc f then Some (f_rows f, f_S f, f_S f =? f_C f, f_ptr f, false)
  else match recover_toc f with
       | Some (r, s, ok, off) => Some (r, s, ok, off, true)
       | None => None
       end.

(* ---------- options, probe, plan ---------- *)
Record opts := mkOpts { o_time : bool; o_lex : bool; o_vec : bool; o_vac : bool; o_dry : bool }.
Definition default_opts : opts := mkOpts false false false false false.

(* DoctorFindingCode, numbered in declaration order *)
Definition F_HeaderFooterOffsetMismatch : N := 0.
Definition F_HeaderTocChecksumMismatch : N := 1.
Definition F_TocDecodeFailure : N := 3.
Definition F_TocChecksumMismatch : N := 4.
Definition F_WalHasPendingRecords : N := 6.
Definition F_WalChecksumMismatch : N := 8.
Definition F_TimeIndexMissing : N := 9.
Definition F_TimeIndexChecksumMismatch : N := 10.
Definition F_VecIndexCorrupt : N := 15.
Definition F_LockContention : N := 21.
Definition F_InternalError : N := 23.

Record probe_t := mkProbe {
  p_found : bool;           (* header and TOC available *)
  p_off : N;                (* toc_offset *)
  p_S : N;                  (* toc.toc_checksum of the TOC found *)
  p_recovered : bool;
  p_findings : list N;
  p_pending : bool;         (* wal_pending > 0 *)
  p_walbad : bool;
  p_needs_time : bool; p_needs_lex : bool; p_needs_vec : bool }.

Definition nonempty {A} (l : list A) : bool := match l with [] => false | _ => true end.

Definition wal_pending (w : walst) : bool := match w with WPending ps => nonempty ps | _ => false end.
Definition wal_bad (w : walst) : bool := match w with WCorrupt _ => true | _ => false end.
Definition wal_findings (w : walst) : list N :=
  if wal_bad w then [F_WalChecksumMismatch] else if wal_pending w then [F_WalHasPendingRecords] else [].
(* inspect_time_index *)
Definition needs_time (rows : list row) (t : ixst) : bool :=
  match t with IxOk => false | IxBad => true | IxNone => nonempty rows end.
Definition time_findings (rows : list row) (t : ixst) : list N :=
  match t with IxOk => [] | IxBad => [F_TimeIndexChecksumMismatch] | IxNone => if nonempty rows then [F_TimeIndexMissing] else [] end.
(* a vector index written afresh by a replay's commit (valid, holding what could be loaded + the new
   embeddings) / by doctor's rebuild of an index that no longer decodes (nothing to re-encode) *)
Definition vec_after_replay (v : ixst) : ixst := match v with IxBad => IxOk | x => x end.
Definition vec_reencoded (v : ixst) : ixst := match v with IxBad => IxNone | x => x end.
(* inspect_vec_index *)
Definition vec_bad (v : ixst) : bool := match v with IxBad => true | _ => false end.
Definition needs_vec (o : opts) (v : ixst) : bool := match v with IxOk => false | IxBad => true | IxNone => o_vec o end.
Definition vec_findings (v : ixst) : list N := if vec_bad v then [F_VecIndexCorrupt] else [].

Definition probe (o : opts) (f : afile) : probe_t :=
  match find_toc f with
  | None => mkProbe false 0 0 false [F_TocDecodeFailure] false false false false false
  | Some (rows, s, ckok, off, rec) =>
      let fnd_toc := (if rec then [F_TocDecodeFailure] else [])
                  ++ (if rec && negb (f_ptr f =? off) then [F_HeaderFooterOffsetMismatch] else [])
                  ++ (if ckok then [] else [F_TocChecksumMismatch])
                  ++ (if f_H f =? s then [] else [F_HeaderTocChecksumMismatch]) in
      (* inspect_lex_index: Tantivy segments present -> nothing to validate; nothing at all -> only on request *)
      let nl := negb (f_lex f) && o_lex o in
      mkProbe true off s rec
              (fnd_toc ++ wal_findings (f_wal f) ++ time_findings rows (f_time f) ++ vec_findings (f_vec f))
              (wal_pending (f_wal f)) (wal_bad (f_wal f))
              (needs_time rows (f_time f)) nl (needs_vec o (f_vec f))
  end.

Record plan_t := mkPlan {
  pl_heal_ptr : option N;      (* HealHeaderPointer { target_footer_offset } *)
  pl_heal_ck : option N;       (* HealTocChecksum { expected } *)
  pl_replay : bool;
  pl_vacuum : bool;
  pl_time : bool; pl_lex : bool; pl_vec : bool;
  pl_finalize : bool;
  pl_findings : list N;
  pl_walbad : bool }.

Definition compute (o : opts) (f : afile) : plan_t :=
  let p := probe o f in
  let hp := if p_found p && negb (f_ptr f =? p_off p) then Some (p_off p) else None in
  let hc := if p_found p && negb (f_H f =? p_S p) then Some (p_S p) else None in
  let it := p_needs_time p || o_time o in
  let il := p_needs_lex p || o_lex o in
  let iv := p_needs_vec p || o_vec o in
  let any := (match hp with Some _ => true | None => false end)
          || (match hc with Some _ => true | None => false end)
          || p_pending p || o_vac o || it || il || iv in
  mkPlan hp hc (p_pending p) (o_vac o) it il iv (p_recovered p || any)
         (p_findings p ++ p_findings p) (p_walbad p).

(* DoctorPlan::is_noop: only the Verify phase *)
Definition is_noop (pl : plan_t) : bool := negb (pl_finalize pl).

(* phases of the plan, DoctorPhaseKind numbered in declaration order *)
Definition plan_phases (pl : plan_t) : list N :=
  (match pl_heal_ptr pl, pl_heal_ck pl with None, None => [] | _, _ => [1] end)
  ++ (if pl_replay pl then [2] else [])
  ++ (if pl_vacuum pl then [4] else [])
  ++ (if pl_time pl || pl_lex pl || pl_vec pl then [3] else [])
  ++ (if pl_finalize pl then [5] else [])
  ++ [6].

(* ---------- Memvid::try_open ---------- *)
(* commit_from_records on the pending records (C01): rows replayed, payloads and rebuilt indexes written
   from the old TOC offset on, so a replay that inserts a frame moves the TOC; TOC restamped, header in step *)
Definition commit_replay (f : afile) (ps : list pop) : afile :=
  let moved := existsb is_insert ps in
  let toc' := if moved then f_toc f + 1 else f_toc f in
  mkFile toc' toc' (if moved then f_foot f + 1 else f_foot f) (f_C f + 1) (f_C f + 1) (f_C f + 1) true true true None
         WClean (f_seq f + N.of_nat (length ps)) IxOk (f_lex f)
         (* rebuild_indexes in the replay's commit writes a fresh vector index: entries of the loaded index
            (none when its bytes are damaged) that belong to active frames + the replayed embeddings *)
         (vec_after_replay (f_vec f)) (f_nvec f) (replay (f_rows f) ps).

(* result code: 0 opened, 1 InvalidToc/InvalidHeader (doctor then tries the aggressive header repair),
   2 any other error.  The file is returned in every case: open_locked persists the header fix-up of a
   recovered TOC before it can still fail. *)
Definition try_open (f : afile) : afile * N :=
  let located :=
    if read_toc f then Some (f, f_S f =? f_C f)
    else match recover_toc f with
         | None => None
         | Some (r, s, ok, off) =>
             (* the recovered TOC becomes the file's TOC; the header is rewritten when it disagrees *)
             let f1 := mkFile (f_ptr f) off (f_foot f) (f_H f) s (if ok then s else f_C f)
                              (f_footer f) (f_tocbytes f) true
                              (if off =? f_toc f then f_older f else None)
                              (f_wal f) (f_seq f) (f_time f) (f_lex f) (f_vec f) (f_nvec f) r in
             Some (with_hdr f1 off s, ok)
         end in
  match located with
  | None => (f, 1)
  | Some (f1, ckok) =>
      match f_wal f1 with
      | WCorrupt _ => (f1, 2)
      | WClean => if ckok then (f1, 0) else (f1, 2)
      | WPending ps =>
          if nonempty ps then (commit_replay f1 ps, 0)
          else if ckok then (f1, 0) else (f1, 2)
      end
  end.

(* try_recover_from_wal_corruption: zero the log region, sequence 0, then try_open *)
Definition zero_log (f : afile) : afile :=
  mkFile (f_ptr f) (f_toc f) (f_foot f) (f_H f) (f_S f) (f_C f) (f_footer f) (f_tocbytes f) (f_tocdec f) (f_older f)
         WClean 0 (f_time f) (f_lex f) (f_vec f) (f_nvec f) (f_rows f).

(* aggressive_header_repair: header.footer_offset := position of a footer magic (the end of file - 56
   when the magic there is intact; a damaged magic makes the scan fail instead, with the same Failed
   status and the header left alone: not distinguished here) *)
Definition aggressive_repair (f : afile) : afile := with_hdr f (f_foot f) (f_H f).

(* ---------- phases ---------- *)
(* writing TOC + footer at header.footer_offset (rewrite_toc_footer) and restamping the header *)
Definition rewrite_toc (m : afile) (base : nat) : afile :=
  if f_ptr m =? f_toc m then
    mkFile (f_ptr m) (f_toc m) (f_foot m) (f_C m + 1) (f_C m + 1) (f_C m + 1) true true true (f_older m)
           (f_wal m) (f_seq m) (f_time m) (f_lex m) (f_vec m) (f_nvec m) (f_rows m)
  else
    (* the header points somewhere else (a stale target): the TOC lands on top of whatever is there --
       the payloads of the frames the replay just wrote, and the rebuilt indexes behind them *)
    mkFile (f_ptr m) (f_ptr m) (f_foot m) (f_C m + 1) (f_C m + 1) (f_C m + 1) true true true None
           (f_wal m) (f_seq m) IxBad (f_lex m) (match f_vec m with IxNone => IxNone | _ => IxBad end) 0
           (firstn base (f_rows m) ++ map (fun r : row => if fst r =? 0 then (0, 1) else r) (skipn base (f_rows m))).

(* HealHeaderPointer since fix f76b325: the pointer is only moved FORWARD; a planned target that lies at
   or behind the handle's own pointer is skipped (the plan was made before the open, which repairs the
   pointer itself and may have moved the TOC forward by replaying the log) *)
Definition heal_ptr (m : afile) (target : option N) : afile :=
  match target with
  | Some t => if f_ptr m <? t then with_hdr m t (f_S m) else m
  | None => m
  end.
(* the action before the fix (`!=` instead of `<`): kept for the historical lemma about F-C21-1 *)
Definition heal_ptr_unfixed (m : afile) (target : option N) : afile :=
  match target with
  | Some t => if f_ptr m =? t then m else with_hdr m t (f_S m)
  | None => m
  end.
Definition heal_ck (m : afile) (expected : option N) : afile :=
  match expected with
  | Some e => if f_H m =? e then m else with_hdr m (f_ptr m) e
  | None => m
  end.

Definition reset_wal (m : afile) : afile := zero_log m.

(* Memvid::vacuum: commit, compact, rebuild_indexes, TOC rewritten (C42: rows keep status and content) *)
Definition vacuum (m : afile) (base : nat) : afile :=
  let m1 := rewrite_toc m base in
  mkFile (f_ptr m1) (f_toc m1) (f_foot m1) (f_H m1) (f_S m1) (f_C m1) true true true None
         (f_wal m1) (f_seq m1) (match f_time m1 with IxBad => IxBad | _ => IxOk end) (f_lex m1) (f_vec m1) (f_nvec m1) (f_rows m1).

(* apply_pending_rebuilds: rebuild_indexes(&[], &[]) + reset_wal; since fix 83a83e8 a vector rebuild loads
   the index first (ensure_vec_index) and re-encodes its entries; an index that does not decode yields nothing *)
Definition rebuild (m : afile) (t l v : bool) (base : nat) : afile :=
  if t || l || v then
    let m1 := rewrite_toc m base in
    reset_wal (mkFile (f_ptr m1) (f_toc m1) (f_foot m1) (f_H m1) (f_S m1) (f_C m1) true true true None
                      (f_wal m1) (f_seq m1) (if f_ptr m =? f_toc m then IxOk else f_time m1)
                      (f_lex m1 || l) (if v then vec_reencoded (f_vec m1) else f_vec m1)
                      (if v && vec_bad (f_vec m1) then 0 else f_nvec m1) (f_rows m1))
  else m.

(* Memvid::verify(path, deep = true) through open_read_only: needs a valid footer whose TOC verifies *)
Definition verify (m : afile) : outcome bool :=
  if f_footer m && f_tocbytes m && f_tocdec m && (f_S m =? f_C m) then
    (* VecIndexDecode always passes: load_vec_index_from_manifest swallows a decode failure (index = None) *)
    Ok (negb (match f_time m with IxBad => true | _ => false end)
        && match f_wal m with WPending ps => negb (nonempty ps) | WCorrupt _ => false | WClean => true end)
  else Err 1.

(* Memvid::open on the result, as the caller would *)
Definition opens (m : afile) : bool := snd (try_open m) =? 0.

(* DoctorStatus: 0 Clean, 1 Healed, 3 Failed, 4 PlanOnly; 9 = doctor returned an error *)
Record report := mkReport { r_status : N; r_findings : list N; r_phases : list N; r_verified : option bool }.

(* the open at the start of DoctorExecutor::run: left = handle obtained, right = doctor gives up *)
Definition open_for_doctor (pl : plan_t) (f : afile) : (afile * list N) + (afile * list N) :=
  if pl_walbad pl then
    match try_open (zero_log f) with
    | (m, 0) => inl (m, [F_WalChecksumMismatch])
    | (f', _) => inr (f', [F_WalChecksumMismatch])
    end
  else
    match try_open f with
    | (m, 0) => inl (m, [])
    | (_, 1) =>
        let f1 := aggressive_repair f in
        match try_open f1 with
        | (m, 0) => inl (m, [F_HeaderFooterOffsetMismatch])
        | (f', _) => inr (f', [F_HeaderFooterOffsetMismatch; F_InternalError])
        end
    | (f', _) => inr (f', [F_LockContention])
    end.

(* the phases in plan order; `base` = number of rows before the open (rows beyond it were written by the replay) *)
Definition run_phases_gen (hp : afile -> option N -> afile) (pl : plan_t) (base : nat) (m0 : afile) : afile :=
  let m1 := heal_ck (hp m0 (pl_heal_ptr pl)) (pl_heal_ck pl) in
  (* WalReplay: recover_wal finds nothing left (try_open replayed) *)
  let m2 := if pl_vacuum pl then vacuum m1 base else m1 in
  let m3 := rebuild m2 (pl_time pl) (pl_lex pl) (pl_vec pl) base in
  let m4 := if pl_finalize pl then rewrite_toc m3 base else m3 in
  reset_wal m4.
Definition run_phases := run_phases_gen heal_ptr.

Definition doctor_gen (hp : afile -> option N -> afile) (o : opts) (f : afile) : afile * report :=
  let pl := compute o f in
  if o_dry o then (f, mkReport (if is_noop pl then 0 else 4) (pl_findings pl) (plan_phases pl) None)
  else
    match open_for_doctor pl f with
    | inr (f', extra) => (f', mkReport 3 (pl_findings pl ++ extra) (plan_phases pl) None)
    | inl (m0, extra) =>
        let m5 := run_phases_gen hp pl (length (f_rows f)) m0 in
        match verify m5 with
        | Ok true => (m5, mkReport (if is_noop pl then 0 else 1) (pl_findings pl ++ extra) (plan_phases pl) (Some true))
        | Ok false =>
            (* revert the header to what it was right after the open *)
            (with_hdr m5 (f_ptr m0) (f_H m0), mkReport 3 (pl_findings pl ++ extra) (plan_phases pl) (Some false))
        | _ => (m5, mkReport 9 (pl_findings pl ++ extra) (plan_phases pl) None)
        end
    end.
Definition doctor := doctor_gen heal_ptr.
(* doctor as it was before fix f76b325 *)
Definition doctor_unfixed := doctor_gen heal_ptr_unfixed.

(* ---------- what the property talks about ---------- *)
(* the frames a user is entitled to: committed rows with the acknowledged pending records applied *)
Definition view (f : afile) : list row :=
  match f_wal f with
  | WPending ps | WCorrupt ps => replay (f_rows f) ps
  | WClean => f_rows f
  end.

Definition active (r : row) : bool := fst r =? 0.

(* every active frame of `want` is in `have` at the same id with the same content *)
Fixpoint preserves (want have : list row) : bool :=
  match want, have with
  | [], _ => true
  | w :: wr, h :: hr => (if active w then (fst h =? 0) && (snd h =? snd w) else true) && preserves wr hr
  | w :: wr, [] => negb (active w) && preserves wr []
  end.

Definition forces (o : opts) : bool := o_time o || o_lex o || o_vec o || o_vac o.

(* F-C21-1 (repaired by f76b325, historical): the header pointer is damaged and pending records insert
   frames: the plan's pointer target was stale after the replay and Finalize wrote the TOC over the new payloads.
   F-C21-2: the checksum stored inside the TOC is damaged and nothing is pending: open never re-stamps it. *)
Definition stale_ptr_class (f : afile) : bool :=
  negb (f_ptr f =? f_toc f)
  && match f_wal f with WPending ps => existsb is_insert ps | _ => false end.
Definition known_toc_cksum (f : afile) : bool :=
  negb (f_S f =? f_C f)
  && match f_wal f with WPending ps => negb (nonempty ps) | _ => true end.
Definition known_class (o : opts) (f : afile) : bool :=
  negb (o_dry o) && known_toc_cksum f.
