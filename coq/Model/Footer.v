(* Model of src/footer.rs: CommitFooter::{encode,decode,hash_matches} and
   find_last_valid_footer.  The hash (BLAKE3) is a parameter H. *)
From MV Require Import Base.Prelude.

Definition FOOTER_MAGIC : bytes := [77; 86; 50; 70; 79; 79; 84; 33]%N.  (* "MV2FOOT!" *)
Definition FOOTER_SIZE : nat := 56.

Record footer := mkFooter { toc_len : N; toc_hash : bytes; generation : N }.

Definition footer_encode (f : footer) : bytes :=
  FOOTER_MAGIC ++ le_encode 8 (toc_len f) ++ toc_hash f ++ le_encode 8 (generation f).

Definition footer_decode (b : bytes) : option footer :=
  if negb (Nat.eqb (length b) FOOTER_SIZE) then None
  else if negb (bytes_eqb (firstn 8 b) FOOTER_MAGIC) then None
  else Some (mkFooter (le_decode (slice b 8 8)) (slice b 16 32) (le_decode (slice b 48 8))).

Record footer_slice := mkSlice {
  fs_footer_offset : nat; fs_toc_offset : nat; fs_footer : footer; fs_toc_bytes : bytes }.

Section Scan.
  Variable H : bytes -> bytes.

  Definition hash_matches (f : footer) (toc : bytes) : bool := bytes_eqb (H toc) (toc_hash f).

  (* The loop `while let Some(pos) = memrchr(b'M', &bytes[..search_end])`: recursion on
     search_end; positions holding another byte are what memrchr skips. *)
  Fixpoint scan (b : bytes) (search_end : nat) : option footer_slice :=
    match search_end with
    | O => None
    | S pos =>
        if negb (N.eqb (nth pos b 0%N) 77%N) then scan b pos
        else if Nat.ltb (length b) (pos + FOOTER_SIZE) then scan b pos   (* pos = 0 -> break = scan b 0 *)
        else match footer_decode (slice b pos FOOTER_SIZE) with
             | None => scan b pos
             | Some f =>
                 if N.eqb (toc_len f) 0 || N.ltb (N.of_nat pos) (toc_len f) then scan b pos
                 else
                   let tl := N.to_nat (toc_len f) in
                   let off := pos - tl in
                   let toc := slice b off tl in
                   if hash_matches f toc then Some (mkSlice pos off f toc) else scan b pos
             end
    end.

  Definition find_last_valid_footer (b : bytes) : option footer_slice :=
    if Nat.ltb (length b) FOOTER_SIZE then None else scan b (length b).

  (* ---- the specification: what "valid footer at pos" means ---- *)
  Definition valid_at (b : bytes) (pos : nat) : bool :=
    Nat.leb (pos + FOOTER_SIZE) (length b) &&
    match footer_decode (slice b pos FOOTER_SIZE) with
    | None => false
    | Some f =>
        negb (N.eqb (toc_len f) 0) && N.leb (toc_len f) (N.of_nat pos) &&
        hash_matches f (slice b (pos - N.to_nat (toc_len f)) (N.to_nat (toc_len f)))
    end.

  Definition slice_at (b : bytes) (pos : nat) : option footer_slice :=
    match footer_decode (slice b pos FOOTER_SIZE) with
    | None => None
    | Some f => let tl := N.to_nat (toc_len f) in
                Some (mkSlice pos (pos - tl) f (slice b (pos - tl) tl))
    end.
End Scan.
