(* Model of src/pii.rs: mask_pii and contains_pii.  The seven patterns, the order of the
   replace_all calls with their replacement tokens and the order of the is_match calls are
   parameters here; Properties/C36.v and Corr/C36.v instantiate them with
   Gen/PiiPatterns.v, which is regenerated from the source on every run.
   Definitions only; proofs are in Proofs/PiiProofs.v. *)
From MV Require Import Base.Prelude Model.Regex.

Section Pii.
  Variables is_digit is_space is_word : N -> bool.
  Variable mask_order : list (regex * list N).     (* (X_REGEX, "[X]") in source order *)
  Variable contains_order : list regex.

  (* pub fn mask_pii: masked = text; masked = X.replace_all(&masked, "[X]") ...; masked *)
  Definition mask_pii (text : list N) : list N :=
    fold_left (fun masked rt => replace_all is_digit is_space is_word (fst rt) (snd rt) masked)
              mask_order text.

  (* pub fn contains_pii: X.is_match(text) || ... *)
  Definition contains_pii (text : list N) : bool :=
    existsb (fun r => is_match is_digit is_space is_word r text) contains_order.

  (* ---- instrumented run: every code point of the result carries the number (1..) of
     the pass that inserted it, 0 for code points of the input ---- *)
  Fixpoint mask_m (j : nat) (ps : list (regex * list N)) (ms : mtext) : mtext :=
    match ps with
    | [] => ms
    | rt :: ps' => mask_m (S j) ps' (replace_all_m is_digit is_space is_word (fst rt) (snd rt) j ms)
    end.
  Definition mask_marked (text : list N) : mtext := mask_m 1 mask_order (mark 0 text).

  (* window of a match: the code point before it, the match, the code point after it.
     clean below j = none of them was inserted by pass j or a later pass *)
  Definition markb (j : nat) (y : N * nat) : bool := Nat.ltb (snd y) j.
  Definition window_cleanb (j : nat) (pm : option (N * nat)) (c v : mtext) : bool :=
    match pm with Some y => markb j y | None => true end
    && forallb (markb j) c
    && match hd_error v with Some y => markb j y | None => true end.

  (* does pattern r (pass number j) have, somewhere in ms, a match (the one the matcher
     picks at that start) whose window holds a code point inserted by pass j or later.
     s = map fst ms, pm = marked code point before ms *)
  Fixpoint resid (n : nat) (r : regex) (j : nat) (pm : option (N * nat)) (s : list N) (ms : mtext) : bool :=
    match match_at is_digit is_space is_word n r (option_map fst pm) s with
    | Some rest => let l := length s - length rest in
                   negb (window_cleanb j pm (firstn l ms) (skipn l ms))
    | None => false
    end
    || match ms with
       | [] => false
       | xm :: ms' => resid n r j (Some xm) (tl s) ms'
       end.

  Fixpoint kc (j : nat) (ps : list (regex * list N)) (fm : mtext) : bool :=
    match ps with
    | [] => false
    | rt :: ps' => resid (S (length fm)) (fst rt) j None (map fst fm) fm || kc (S j) ps' fm
    end.

  (* the known class "token-boundary-rematch": after masking, some pattern still matches,
     and the match touches (overlaps or is adjacent to) text inserted by the same or a
     later pass -- i.e. the match exists only because a replacement token was put there *)
  Definition known_class (text : list N) : bool := kc 1 mask_order (mask_marked text).
End Pii.

(* ASCII instance of the Unicode tables (what the crate's tables say below 128) *)
Definition ascii_digit (x : N) : bool := ((48 <=? x) && (x <=? 57))%N.
Definition ascii_space (x : N) : bool := (((9 <=? x) && (x <=? 13)) || (x =? 32))%N.
Definition ascii_word (x : N) : bool :=
  (((48 <=? x) && (x <=? 57)) || ((65 <=? x) && (x <=? 90)) || (x =? 95) || ((97 <=? x) && (x <=? 122)))%N.
