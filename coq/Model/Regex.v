(* Model of the fragment of the `regex` crate (1.x, default Unicode mode) that src/pii.rs
   uses: regex AST, backtracking matcher with the crate's leftmost-first priority
   (= Perl order: alternatives left to right, greedy repetition), `is_match`,
   `find_iter` (non-overlapping, left to right) and `replace_all` with a literal
   replacement.  Definitions only; proofs are in Proofs/RegexProofs.v.

   Texts are lists of Unicode code points (N).  The Unicode tables behind \d, \s and
   \w / \b (the crate's defaults are Unicode-aware) are Section variables. *)
From MV Require Import Base.Prelude.

(* a bracket class / single literal / perl class: union of ranges and of \d \s \w,
   optionally negated *)
Record cls := mkCls {
  cls_neg : bool;
  cls_ranges : list (N * N);
  cls_digit : bool; cls_space : bool; cls_word : bool }.

Inductive regex :=
| REps                                       (* empty regex *)
| RCls (c : cls)                             (* one code point in the class *)
| RWordB                                     (* \b *)
| RSeq (a b : regex)
| RAlt (a b : regex)                         (* a|b, a preferred *)
| RRep (a : regex) (lo : nat) (ext : option nat).
    (* greedy a{lo, lo+e} for ext = Some e, a{lo,} for ext = None:
       ? = {0,1}, * = {0,}, + = {1,}, {m} = {m,m} *)

Definition in_range (x : N) (r : N * N) : bool := ((fst r <=? x) && (x <=? snd r))%N.

(* continuation-passing backtracking matcher.  A state is (previous code point, rest
   of the haystack); the previous code point is what \b looks at. *)
Definition K := option N -> list N -> option (list N).
Definition M := option N -> list N -> K -> option (list N).

(* exactly lo iterations, then `more` *)
Fixpoint rep_min (body : M) (lo : nat) (more : M) : M := fun p s k =>
  match lo with
  | O => more p s k
  | S lo' => body p s (fun p' s' => rep_min body lo' more p' s' k)
  end.

(* at most e further iterations, greedy *)
Fixpoint rep_opt (body : M) (e : nat) : M := fun p s k =>
  match e with
  | O => k p s
  | S e' => match body p s (fun p' s' => rep_opt body e' p' s' k) with
            | Some x => Some x
            | None => k p s
            end
  end.

(* unbounded greedy iteration; `fuel` exceeds the length of the rest, and every useful
   iteration consumes at least one code point (proved sufficient in RegexProofs). *)
Fixpoint rep_star (body : M) (fuel : nat) : M := fun p s k =>
  match fuel with
  | O => k p s
  | S f => match body p s (fun p' s' => rep_star body f p' s' k) with
           | Some x => Some x
           | None => k p s
           end
  end.

Definition kend : K := fun _ s => Some s.

(* last element of l, or d if l is empty *)
Definition lasto {A} (d : option A) (l : list A) : option A := fold_left (fun _ x => Some x) l d.

Section Unicode.
  Variables is_digit is_space is_word : N -> bool.

  Definition cls_mem (c : cls) (x : N) : bool :=
    xorb (cls_neg c)
         (existsb (in_range x) (cls_ranges c)
          || (cls_digit c && is_digit x) || (cls_space c && is_space x) || (cls_word c && is_word x)).

  Definition wordo (o : option N) : bool := match o with Some x => is_word x | None => false end.
  Definition is_boundary (p : option N) (s : list N) : bool := xorb (wordo p) (wordo (hd_error s)).

  (* n = star fuel: any number greater than the length of the haystack *)
  Fixpoint mt (n : nat) (r : regex) (p : option N) (s : list N) (k : K) {struct r} : option (list N) :=
    match r with
    | REps => k p s
    | RCls c => match s with
                | x :: s' => if cls_mem c x then k (Some x) s' else None
                | [] => None
                end
    | RWordB => if is_boundary p s then k p s else None
    | RSeq a b => mt n a p s (fun p' s' => mt n b p' s' k)
    | RAlt a b => match mt n a p s k with
                  | Some x => Some x
                  | None => mt n b p s k
                  end
    | RRep a lo ext =>
        rep_min (mt n a) lo
                (match ext with
                 | Some e => rep_opt (mt n a) e
                 | None => rep_star (mt n a) n
                 end) p s k
    end.

  (* the match starting exactly here (rest of the haystack after it), by priority *)
  Definition match_at (n : nat) (r : regex) (p : option N) (s : list N) : option (list N) :=
    mt n r p s kend.

  (* Regex::is_match: is there a match starting at some position *)
  Fixpoint im (n : nat) (r : regex) (p : option N) (s : list N) : bool :=
    match match_at n r p s with
    | Some _ => true
    | None => match s with
              | [] => false
              | x :: s' => im n r (Some x) s'
              end
    end.
  Definition is_match (r : regex) (s : list N) : bool := im (S (length s)) r None s.

  (* Regex::replace_all with a literal replacement (no `$`): walk the haystack; at a
     position not inside a match try the pattern; a non-empty match is replaced and the
     search resumes at its end; an empty match is replaced too unless it sits exactly at
     the end of the previous match (the crate's find_iter rule), and the search advances
     by one code point.  skip = code points of the current match still to drop;
     after = "the previous match ended exactly here". *)
  Fixpoint ra (n : nat) (r : regex) (tok : list N) (p : option N) (s : list N)
           (skip : nat) (after : bool) : list N :=
    match s with
    | [] => match skip, after with
            | O, false => match match_at n r p [] with Some _ => tok | None => [] end
            | _, _ => []
            end
    | x :: s' =>
        match skip with
        | S j => ra n r tok (Some x) s' j true
        | O => match match_at n r p s with
               | Some rest =>
                   match length s - length rest with
                   | O => if after then x :: ra n r tok (Some x) s' 0 false
                          else tok ++ x :: ra n r tok (Some x) s' 0 false
                   | S l => tok ++ ra n r tok (Some x) s' l true
                   end
               | None => x :: ra n r tok (Some x) s' 0 false
               end
        end
    end.
  Definition replace_all (r : regex) (tok : list N) (s : list N) : list N :=
    ra (S (length s)) r tok None s 0 false.

  (* the same walk, keeping for every code point of the result the number of the pass
     that inserted it (marks of kept code points are copied).  s = map fst ms. *)
  Definition mtext := list (N * nat).
  Fixpoint ra_m (n : nat) (r : regex) (tokj : mtext) (p : option N) (s : list N) (ms : mtext)
           (skip : nat) (after : bool) : mtext :=
    match ms with
    | [] => match skip, after with
            | O, false => match match_at n r p [] with Some _ => tokj | None => [] end
            | _, _ => []
            end
    | xm :: ms' =>
        let x := fst xm in
        let s' := tl s in
        match skip with
        | S j => ra_m n r tokj (Some x) s' ms' j true
        | O => match match_at n r p s with
               | Some rest =>
                   match length s - length rest with
                   | O => if after then xm :: ra_m n r tokj (Some x) s' ms' 0 false
                          else tokj ++ xm :: ra_m n r tokj (Some x) s' ms' 0 false
                   | S l => tokj ++ ra_m n r tokj (Some x) s' ms' l true
                   end
               | None => xm :: ra_m n r tokj (Some x) s' ms' 0 false
               end
        end
    end.
  Definition mark (j : nat) (t : list N) : mtext := map (fun c => (c, j)) t.
  Definition replace_all_m (r : regex) (tok : list N) (j : nat) (ms : mtext) : mtext :=
    ra_m (S (length ms)) r (mark j tok) None (map fst ms) ms 0 false.

  (* Regex::find_iter as (start, end) code-point offsets; used by the correspondence *)
  Fixpoint spans (n : nat) (r : regex) (p : option N) (s : list N) (pos : N)
           (skip : nat) (after : bool) : list (N * N) := (
    match s with
    | [] => match skip, after with
            | O, false => match match_at n r p [] with Some _ => [(pos, pos)] | None => [] end
            | _, _ => []
            end
    | x :: s' =>
        match skip with
        | S j => spans n r (Some x) s' (pos + 1) j true
        | O => match match_at n r p s with
               | Some rest =>
                   match (length s - length rest)%nat with
                   | O => if after then spans n r (Some x) s' (pos + 1) 0 false
                          else (pos, pos) :: spans n r (Some x) s' (pos + 1) 0 false
                   | S l => (pos, pos + N.of_nat (S l)) :: spans n r (Some x) s' (pos + 1) l true
                   end
               | None => spans n r (Some x) s' (pos + 1) 0 false
               end
        end
    end)%N.
  Definition find_iter (r : regex) (s : list N) : list (N * N) :=
    spans (S (length s)) r None s 0%N 0 false.

  (* ---- declarative semantics: r takes state a to state b (language of r with \b as a
     predicate on the context) ---- *)
  Definition st := (option N * list N)%type.

  Fixpoint iter_rel (R : st -> st -> Prop) (m : nat) (a b : st) : Prop :=
    match m with
    | O => a = b
    | S m' => exists c, R a c /\ iter_rel R m' c b
    end.

  Fixpoint rm (r : regex) (a b : st) : Prop :=
    match r with
    | REps => a = b
    | RCls c => exists x s, snd a = x :: s /\ cls_mem c x = true /\ b = (Some x, s)
    | RWordB => a = b /\ is_boundary (fst a) (snd a) = true
    | RSeq r1 r2 => exists c, rm r1 a c /\ rm r2 c b
    | RAlt r1 r2 => rm r1 a b \/ rm r2 a b
    | RRep r1 lo ext =>
        exists m, lo <= m /\ match ext with Some e => m <= lo + e | None => True end
                  /\ iter_rel (rm r1) m a b
    end.

  Definition last_o (p : option N) (w : list N) : option N := lasto p w.

  (* some substring of s is in the language of r, in its context *)
  Definition has_match (r : regex) (s : list N) : Prop :=
    exists u w v, s = u ++ w ++ v /\ rm r (last_o None u, w ++ v) (last_o None (u ++ w), v).
End Unicode.
