(* Reference for C14: the embedding each frame was GIVEN, kept next to the reference frame
   table of Model/StoreSpec.v and updated only by acknowledged calls:
     put_with_embedding                  the new frame gets the embedding
     put_with_chunk_embeddings           the parent gets the parent embedding, chunk i (of the n chunks
                                         the document was split into) gets chunk_embeddings[i] if present
     update_frame(id, .., Some e)        the new frame gets e
     update_frame(id, .., None)          the new frame gets what frame id was given (carried over)
   An empty vector is "no embedding" everywhere (the API documents it so for parents whose chunks
   carry the embeddings): `norm`.  An update with an explicit empty vector therefore produces a
   frame without embedding (nothing is carried: the caller did pass one).
   Commit, reopen, crash, vacuum, doctor, enable_vec, automatic checkpoints and log growth are
   invisible.  What vector search must be able to reach: the given pairs whose frame is active. *)
From MV Require Import Base.Prelude Model.Store Model.StoreSpec Model.VecStore.
Local Open Scope N_scope.

Definition opt_doc (id : N) (oe : option emb) : docs := match oe with Some e => [(id, e)] | None => [] end.
Fixpoint docs_from (base : N) (l : list (option emb)) : docs :=
  match l with
  | [] => []
  | oe :: r => opt_doc base oe ++ docs_from (base + 1) r
  end.

Definition given_step (R : list frame) (G : docs) (x : vop * vout) : docs :=
  let '(vo, o) := x in
  match vo with
  | VEnableVec => G
  | VOp op i =>
      if negb (acked (fst o)) then G
      else match op with
           | OPut _ _ nchunks _ _ =>
               G ++ docs_from (len R) (norm (info_parent i) :: map norm (chunk_embs (info_chunks i) (N.to_nat nchunks)))
           | OUpdate target _ _ _ =>
               G ++ opt_doc (len R) (norm (match info_explicit i with Some e => Some e | None => embedding_for G target end))
           | _ => G
           end
  end.

Definition sop_of (x : vop * vout) : option (sop * sout) :=
  match fst x with VOp op _ => Some (op, fst (snd x)) | VEnableVec => None end.

Definition vref_step (st : list frame * docs) (x : vop * vout) : list frame * docs :=
  let '(R, G) := st in
  (match sop_of x with Some y => ref_step R y | None => R end, given_step R G x).

Definition vref_run (st : list frame * docs) (xs : list (vop * vout)) : list frame * docs := fold_left vref_step xs st.

(* the documents vector search must hold: given pairs of active frames *)
Definition expected_docs (R : list frame) (G : docs) : docs := filter (fun d => frame_is_active R (fst d)) G.

