(* Time-travel search (C11): the candidate-filter composition at the top of
   Memvid::search (src/memvid/search/mod.rs) and get_replay_frame_ids
   (src/memvid/search/api.rs), followed line by line.

   HashSet<FrameId> is a `list N` read up to membership (the code only tests
   `is_empty`, `contains`, and hands the set to the engine).  Everything the
   composition does not compute itself is an input:
     - the frame table (id, timestamp, Active?)                     : st_frames
     - the time index entries (timestamp, frame id), if a manifest  : st_time_index
     - has_sketches()                                               : st_has_sketches
     - parsed.required_date_range()                                 : rq_date
     - frame_ids_for_temporal_filter (feature temporal_track)       : rq_temporal
     - find_sketch_candidates(query, options) as frame ids          : cands
     - the search engine (Tantivy / lex fallback / filters-only +
       query evaluation), as a function of the candidate filter     : engine
   Definitions only; proofs are in Proofs/AsOfProofs.v. *)
From MV Require Import Base.Prelude.

Record frame := mkFrame { f_id : N; f_ts : Z; f_active : bool }.

Definition is_nil {A} (l : list A) : bool := match l with [] => true | _ :: _ => false end.
Definition is_some {A} (o : option A) : bool := match o with Some _ => true | None => false end.
Definition mem_id (x : N) (l : list N) : bool := existsb (N.eqb x) l.

(* ---- get_replay_frame_ids ------------------------------------------------
   for frame in frames {
     if frame.status != Active { continue; }
     if let Some(cutoff_frame) = as_of_frame { if frame.id > cutoff_frame { continue; } }
     if let Some(cutoff_ts) = as_of_ts { if frame.timestamp > cutoff_ts { continue; } }
     matching_ids.push(frame.id);
   } *)
Definition replay_keep (aof : option N) (aot : option Z) (f : frame) : bool :=
  if negb (f_active f) then false
  else if match aof with Some c => (c <? f_id f)%N | None => false end then false
  else if match aot with Some c => (c <? f_ts f)%Z | None => false end then false
  else true.

Definition replay_ids (frames : list frame) (aof : option N) (aot : option Z) : list N :=
  map f_id (filter (replay_keep aof aot) frames).

(* ---- DateRange (src/search/mod.rs) and frame_ids_in_date_range ---------- *)
Definition date_range := (option Z * option Z)%type.

(* is_empty: (Some(start), Some(end)) => start > end, _ => false *)
Definition range_is_empty (r : date_range) : bool :=
  match r with
  | (Some s, Some e) => (e <? s)%Z
  | _ => false
  end.

(* contains: timestamp < start -> false; timestamp > end -> false; true *)
Definition range_contains (r : date_range) (ts : Z) : bool :=
  if match fst r with Some s => (ts <? s)%Z | None => false end then false
  else if match snd r with Some e => (e <? ts)%Z | None => false end then false
  else true.

(* frame_ids_in_date_range (build without temporal_track: the anchors branch is
   compiled out): empty range -> Some []; no time index manifest -> None; else the
   ids of the entries whose timestamp the range contains. *)
Definition frame_ids_in_date_range (ti : option (list (Z * N))) (r : date_range) : option (list N) :=
  if range_is_empty r then Some []
  else match ti with
       | None => None
       | Some entries => Some (map snd (filter (fun e => range_contains r (fst e)) entries))
       end.

(* ---- store and request, as far as the composition reads them ------------ *)
Record store := mkStore {
  st_frames : list frame;
  st_time_index : option (list (Z * N));
  st_has_sketches : bool }.

Record request := mkReq {
  rq_date : option date_range;             (* parsed.required_date_range() *)
  rq_temporal : option (option (list N));  (* None: no (non-empty) temporal filter or feature off;
                                              Some r: frame_ids_for_temporal_filter returned r *)
  rq_as_of_frame : option N;
  rq_as_of_ts : option Z;
  rq_has_text : bool;                      (* has_text_terms *)
  rq_no_sketch : bool }.

(* a stage either returns the empty response early (site = which `return`) or
   hands the candidate filter on *)
Inductive stage :=
| Exit (site : N)
| Cont (cf : option (list N)).

Definition bind (s : stage) (k : option (list N) -> stage) : stage :=
  match s with
  | Exit n => Exit n
  | Cont cf => k cf
  end.

(* let mut candidate_filter = if let Some(ref range) = date_range {
     if range.is_empty() { return empty }                                  (site 1)
     match frame_ids_in_date_range(self, range)? {
       Some(ids) => { if ids.is_empty() { return empty }  Some(ids) }       (site 2)
       None => None }
   } else { None } *)
Definition date_stage (st : store) (rq : request) : stage :=
  match rq_date rq with
  | None => Cont None
  | Some range =>
      if range_is_empty range then Exit 1
      else match frame_ids_in_date_range (st_time_index st) range with
           | Some ids => if is_nil ids then Exit 2 else Cont (Some ids)
           | None => Cont None
           end
  end.

(* candidate_filter = match candidate_filter {
     Some(existing) => { let filtered = existing ∩ new_set;
                         if filtered.is_empty() { return empty }  Some(filtered) }
     None => Some(new_set) }          (used by the temporal and the replay stage) *)
Definition keep_in (s : list N) (existing : list N) : list N :=
  filter (fun id => mem_id id s) existing.

Definition inter_stage (site : N) (cf : option (list N)) (new_set : list N) : stage :=
  match cf with
  | Some existing =>
      let filtered := keep_in new_set existing in
      if is_nil filtered then Exit site else Cont (Some filtered)
  | None => Cont (Some new_set)
  end.

(* #[cfg(feature = "temporal_track")] block: Some(ids) empty -> return (site 3);
   intersection empty -> return (site 4); None -> unchanged *)
Definition temporal_stage (rq : request) (cf : option (list N)) : stage :=
  match rq_temporal rq with
  | None => Cont cf
  | Some None => Cont cf
  | Some (Some ids) => if is_nil ids then Exit 3 else inter_stage 4 cf ids
  end.

Definition asof_given (rq : request) : bool :=
  is_some (rq_as_of_frame rq) || is_some (rq_as_of_ts rq).

(* if as_of_frame.is_some() || as_of_ts.is_some() {
     let replay_ids = get_replay_frame_ids(..); if empty { return empty }   (site 5)
     intersect (empty -> return empty, site 6) } *)
Definition replay_stage (st : store) (rq : request) (cf : option (list N)) : stage :=
  if asof_given rq then
    let r := replay_ids (st_frames st) (rq_as_of_frame rq) (rq_as_of_ts rq) in
    if is_nil r then Exit 5 else inter_stage 6 cf r
  else Cont cf.

Definition sketch_on (st : store) (rq : request) : bool :=
  st_has_sketches st && rq_has_text rq && negb (rq_no_sketch rq).

(* if self.has_sketches() && has_text_terms && !request.no_sketch {
     let sketch_candidates = find_sketch_candidates(..);
     if !sketch_candidates.is_empty() {
       candidate_filter = match candidate_filter {
         Some(existing) => { let filtered = existing ∩ sketch_set;
                             if filtered.is_empty() { Some(existing) }   // drop the pre-filter, keep the hard filters
                             else { Some(filtered) } }
         None => Some(sketch_set) } } }
   fx = true: the code as it is now (commit d76304f).  fx = false: the code before that
   commit, which fell back to `Some(sketch_set)` in the empty-intersection branch
   ("Fall back to sketch-only if intersection is empty"), kept for the historical lemmas. *)
Definition sketch_stage_gen (fx : bool) (st : store) (rq : request) (cands : list N)
           (cf : option (list N)) : stage :=
  if sketch_on st rq then
    if is_nil cands then Cont cf
    else match cf with
         | Some existing =>
             let filtered := keep_in cands existing in
             if is_nil filtered then (if fx then Cont (Some existing) else Cont (Some cands))
             else Cont (Some filtered)
         | None => Cont (Some cands)
         end
  else Cont cf.

(* the filter before the sketch stage *)
Definition pre_sketch (st : store) (rq : request) : stage :=
  bind (date_stage st rq) (fun cf =>
  bind (temporal_stage rq cf) (fun cf =>
  replay_stage st rq cf)).

Definition candidate_filter_gen (fx : bool) (st : store) (rq : request) (cands : list N) : stage :=
  bind (pre_sketch st rq) (sketch_stage_gen fx st rq cands).

(* the code as it is / the code before d76304f *)
Definition candidate_filter := candidate_filter_gen true.
Definition candidate_filter_old := candidate_filter_gen false.

(* the hits (frame ids) of Memvid::search: nothing on an early exit, otherwise what
   the engine returns for the final candidate filter *)
Definition search_ids_gen (fx : bool) (engine : option (list N) -> list N)
           (st : store) (rq : request) (cands : list N) : list N :=
  match candidate_filter_gen fx st rq cands with
  | Exit _ => []
  | Cont cf => engine cf
  end.

Definition search_ids := search_ids_gen true.
Definition search_ids_old := search_ids_gen false.

(* the same request without the time-travel parameters *)
Definition drop_as_of (rq : request) : request :=
  mkReq (rq_date rq) (rq_temporal rq) None None (rq_has_text rq) (rq_no_sketch rq).

(* the same request with other time-travel parameters, and "the cut-off c' is at least as
   permissive as c" (no cut-off is the most permissive) *)
Definition with_as_of (rq : request) (aof : option N) (aot : option Z) : request :=
  mkReq (rq_date rq) (rq_temporal rq) aof aot (rq_has_text rq) (rq_no_sketch rq).

Definition cut_le_N (c c' : option N) : bool :=
  match c' with
  | None => true
  | Some n' => match c with Some n => (n <=? n')%N | None => false end
  end.

Definition cut_le_Z (c c' : option Z) : bool :=
  match c' with
  | None => true
  | Some t' => match c with Some t => (t <=? t')%Z | None => false end
  end.

(* ---- the empty-intersection branch of the sketch stage -----------------------
   The sketch stage runs with a non-empty candidate set, and the filter built so far
   (date range ∩ temporal ∩ replay; never empty at this point) has no member in the
   sketch set.  The code before d76304f REPLACED the filter by the sketch set here
   (fixed finding F-C11-1); the current code keeps the filter and drops the sketch. *)
Definition sketch_disjoint (st : store) (rq : request) (cands : list N) : bool :=
  match pre_sketch st rq with
  | Cont (Some existing) =>
      sketch_on st rq && negb (is_nil cands) && is_nil (keep_in cands existing)
  | _ => false
  end.

(* ---- an engine given by the finite table of what it returns unfiltered ---
   (the instance used by the correspondence run and the non-vacuity examples) *)
Definition table_engine (U : list N) (cf : option (list N)) : list N :=
  match cf with
  | None => U
  | Some l => filter (fun id => mem_id id l) U
  end.
