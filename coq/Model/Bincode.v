(* Schema-directed model of bincode 2 in serde mode with
     config::standard().with_fixed_int_encoding().with_little_endian()
   (src/toc.rs canonical_config; the byte limit of 512 MiB only turns inputs longer than
   that into errors and is a stated hypothesis, not part of the model):
     integers: fixed width little endian (usize as u64); f32/f64: their bit patterns;
     bool: one byte 0/1; Option: tag byte 0/1 then the payload; String / byte buffers:
     u64 length then the bytes (String checked as UTF-8); Vec and maps: u64 length then the
     elements; tuples, structs and fixed arrays: the fields in order, no length;
     unit-variant enums: the variant index as u32.
   Serde attributes that change decoding are part of the schema: `deserialize_vec_bounded`
   limits (SVec / SMap bound), BTreeMap insertion (later duplicate wins, keys re-sorted),
   CanonicalEncoding's hand-written u32 impl. *)
From MV Require Import Base.Prelude.
Local Open Scope N_scope.

Inductive schema :=
| SU8 | SU16 | SU32 | SU64          (* also f32 / f64 as bit patterns, usize as SU64 *)
| SI64
| SBool
| SCanon                             (* types::CanonicalEncoding: u32; decode masks with 0xFF, 1 = Zstd, else Plain *)
| SStr                               (* String *)
| SBytes                             (* serialize_bytes: u64 length + raw bytes *)
| SFix (n : nat)                     (* [u8; n] *)
| SEnum (n : N)                      (* enum with n unit variants *)
| SOpt (s : schema)
| SVec (bound : option N) (s : schema)   (* Vec<T>; bound = LIMIT of deserialize_vec_bounded *)
| SMap (bound : option N) (s : schema)   (* BTreeMap<String, T>; bound = LIMIT of the bounded map visitor *)
| SArr (n : nat) (s : schema)        (* [T; n] *)
| STup (l : list schema)             (* tuple / struct *)
| SUnsupported.                      (* a type this model does not cover (decode answers Err) *)

Inductive value :=
| VN (n : N)
| VZ (z : Z)
| VB (b : bool)
| VStr (b : bytes)                   (* String as its UTF-8 bytes; byte buffers; [u8; n] *)
| VNone
| VSome (v : value)
| VList (l : list value)             (* Vec, array, tuple/struct fields, map entries in key order *)
| VPair (k : bytes) (v : value).     (* one map entry *)

Definition E_EOF : N := 1.
Definition E_BOOL : N := 2.
Definition E_OPT : N := 3.
Definition E_UTF8 : N := 4.
Definition E_ENUM : N := 5.
Definition E_BOUND : N := 6.
Definition E_UNSUP : N := 7.

Definition bind {A B} (o : outcome A) (f : A -> outcome B) : outcome B :=
  match o with Ok a => f a | Err k => Err k | Panic s => Panic s end.

(* ---------- str::from_utf8 (Unicode table 3-7: no overlongs, no surrogates, <= U+10FFFF) ---------- *)
Definition cont (b : N) : bool := (128 <=? b) && (b <=? 191).
Fixpoint utf8_valid (bs : bytes) : bool :=
  match bs with
  | [] => true
  | b0 :: r =>
      if b0 <? 128 then utf8_valid r
      else if (194 <=? b0) && (b0 <=? 223) then
        match r with b1 :: r1 => cont b1 && utf8_valid r1 | _ => false end
      else if b0 =? 224 then
        match r with b1 :: b2 :: r2 => (160 <=? b1) && (b1 <=? 191) && cont b2 && utf8_valid r2 | _ => false end
      else if ((225 <=? b0) && (b0 <=? 236)) || (b0 =? 238) || (b0 =? 239) then
        match r with b1 :: b2 :: r2 => cont b1 && cont b2 && utf8_valid r2 | _ => false end
      else if b0 =? 237 then
        match r with b1 :: b2 :: r2 => (128 <=? b1) && (b1 <=? 159) && cont b2 && utf8_valid r2 | _ => false end
      else if b0 =? 240 then
        match r with b1 :: b2 :: b3 :: r3 => (144 <=? b1) && (b1 <=? 191) && cont b2 && cont b3 && utf8_valid r3 | _ => false end
      else if (241 <=? b0) && (b0 <=? 243) then
        match r with b1 :: b2 :: b3 :: r3 => cont b1 && cont b2 && cont b3 && utf8_valid r3 | _ => false end
      else if b0 =? 244 then
        match r with b1 :: b2 :: b3 :: r3 => (128 <=? b1) && (b1 <=? 143) && cont b2 && cont b3 && utf8_valid r3 | _ => false end
      else false
  end.

(* ---------- String order (Ord for str = bytewise lexicographic) ---------- *)
Fixpoint bytes_cmp (a b : bytes) : comparison :=
  match a, b with
  | [], [] => Eq
  | [], _ :: _ => Lt
  | _ :: _, [] => Gt
  | x :: a', y :: b' => match N.compare x y with Eq => bytes_cmp a' b' | c => c end
  end.
Definition bytes_ltb (a b : bytes) : bool := match bytes_cmp a b with Lt => true | _ => false end.

(* BTreeMap::insert on the key-ordered entry list *)
Fixpoint map_insert (k : bytes) (v : value) (l : list (bytes * value)) : list (bytes * value) :=
  match l with
  | [] => [(k, v)]
  | (k', v') :: r =>
      match bytes_cmp k k' with
      | Lt => (k, v) :: l
      | Eq => (k, v) :: r
      | Gt => (k', v') :: map_insert k v r
      end
  end.

(* ---------- i64 ---------- *)
Definition i64_enc (z : Z) : N := Z.to_N (z mod 2 ^ 64).
Definition i64_dec (u : N) : Z := if u <? 2 ^ 63 then Z.of_N u else (Z.of_N u - 2 ^ 64)%Z.

(* ---------- sequences of codecs ---------- *)
Fixpoint wt_seq (fs : list (value -> bool)) (vs : list value) : bool :=
  match fs, vs with
  | [], [] => true
  | f :: fs', v :: vs' => f v && wt_seq fs' vs'
  | _, _ => false
  end.
Fixpoint enc_seq (fs : list (value -> bytes)) (vs : list value) : bytes :=
  match fs, vs with
  | f :: fs', v :: vs' => f v ++ enc_seq fs' vs'
  | _, _ => []
  end.
Definition decoder := bytes -> outcome (value * bytes).
Fixpoint dec_seq (fs : list decoder) (bs : bytes) : outcome (list value * bytes) :=
  match fs with
  | [] => Ok ([], bs)
  | f :: fs' =>
      bind (f bs) (fun vr => bind (dec_seq fs' (snd vr)) (fun vsr => Ok (fst vr :: fst vsr, snd vsr)))
  end.

(* ---------- primitives ---------- *)
Definition take (k : nat) (bs : bytes) : outcome (bytes * bytes) :=
  if Nat.ltb (length bs) k then Err E_EOF else Ok (firstn k bs, skipn k bs).
Definition dec_uint (k : nat) (bs : bytes) : outcome (N * bytes) :=
  bind (take k bs) (fun ar => Ok (le_decode (fst ar), snd ar)).
(* u64 length, then that many raw bytes *)
Definition enc_blob (b : bytes) : bytes := le_encode 8 (N.of_nat (length b)) ++ b.
Definition dec_blob (bs : bytes) : outcome (bytes * bytes) :=
  bind (dec_uint 8 bs) (fun nr =>
    if N.of_nat (length (snd nr)) <? fst nr then Err E_EOF
    else Ok (firstn (N.to_nat (fst nr)) (snd nr), skipn (N.to_nat (fst nr)) (snd nr))).
Definition dec_string (bs : bytes) : outcome (bytes * bytes) :=
  bind (dec_blob bs) (fun ar => if utf8_valid (fst ar) then Ok ar else Err E_UTF8).

Definition within (bound : option N) (n : N) : bool :=
  match bound with Some b => n <=? b | None => true end.

Definition is_pair (e : value) : bool := match e with VPair _ _ => true | _ => false end.
Definition key_of (e : value) : bytes := match e with VPair k _ => k | _ => [] end.
Definition val_of (e : value) : value := match e with VPair _ v => v | _ => VNone end.
(* strictly ascending keys, pairwise *)
Fixpoint keys_sorted (l : list value) : bool :=
  match l with
  | [] => true
  | e :: r => forallb (fun e' => bytes_ltb (key_of e) (key_of e')) r && keys_sorted r
  end.

Definition str_ok (b : bytes) : bool := bytes_ok b && utf8_valid b && (N.of_nat (length b) <? 2 ^ 64).

(* the map read loop: n entries, each key then value, bound check, insert *)
Fixpoint dec_map (f : decoder) (bound : option N) (n : nat) (bs : bytes) (acc : list (bytes * value))
  : outcome (list (bytes * value) * bytes) :=
  match n with
  | O => Ok (acc, bs)
  | S n' =>
      bind (dec_string bs) (fun kr =>
        bind (f (snd kr)) (fun vr =>
          if match bound with Some b => N.of_nat (length acc) =? b | None => false end then Err E_BOUND
          else dec_map f bound n' (snd vr) (map_insert (fst kr) (fst vr) acc)))
  end.

(* ---------- well-typed values (what the Rust types can hold, plus what decode accepts back) ---------- *)
Fixpoint wt (s : schema) (v : value) {struct s} : bool :=
  match s, v with
  | SU8, VN n => n <? 2 ^ 8
  | SU16, VN n => n <? 2 ^ 16
  | SU32, VN n => n <? 2 ^ 32
  | SU64, VN n => n <? 2 ^ 64
  | SI64, VZ z => (- 2 ^ 63 <=? z)%Z && (z <? 2 ^ 63)%Z
  | SBool, VB _ => true
  | SCanon, VN n => n <? 2
  | SStr, VStr b => str_ok b
  | SBytes, VStr b => bytes_ok b && (N.of_nat (length b) <? 2 ^ 64)
  | SFix n, VStr b => Nat.eqb (length b) n && bytes_ok b
  | SEnum n, VN i => (i <? n) && (n <=? 2 ^ 32)
  | SOpt _, VNone => true
  | SOpt s', VSome x => wt s' x
  | SVec bound s', VList l =>
      (N.of_nat (length l) <? 2 ^ 64) && within bound (N.of_nat (length l)) && forallb (wt s') l
  | SMap bound s', VList l =>
      (N.of_nat (length l) <? 2 ^ 64) && within bound (N.of_nat (length l)) && keys_sorted l &&
      forallb (fun e => is_pair e && str_ok (key_of e) && wt s' (val_of e)) l
  | SArr n s', VList l => wt_seq (repeat (wt s') n) l
  | STup ss, VList l => wt_seq (map wt ss) l
  | _, _ => false
  end.

Fixpoint enc (s : schema) (v : value) {struct s} : bytes :=
  match s, v with
  | SU8, VN n => le_encode 1 n
  | SU16, VN n => le_encode 2 n
  | SU32, VN n => le_encode 4 n
  | SU64, VN n => le_encode 8 n
  | SI64, VZ z => le_encode 8 (i64_enc z)
  | SBool, VB b => [if b then 1 else 0]
  | SCanon, VN n => le_encode 4 n
  | SStr, VStr b => enc_blob b
  | SBytes, VStr b => enc_blob b
  | SFix _, VStr b => b
  | SEnum _, VN i => le_encode 4 i
  | SOpt _, VNone => [0]
  | SOpt s', VSome x => 1 :: enc s' x
  | SVec _ s', VList l => le_encode 8 (N.of_nat (length l)) ++ enc_seq (repeat (enc s') (length l)) l
  | SMap _ s', VList l =>
      le_encode 8 (N.of_nat (length l)) ++ flat_map (fun e => enc_blob (key_of e) ++ enc s' (val_of e)) l
  | SArr n s', VList l => enc_seq (repeat (enc s') n) l
  | STup ss, VList l => enc_seq (map enc ss) l
  | _, _ => []
  end.

Fixpoint dec (s : schema) (bs : bytes) {struct s} : outcome (value * bytes) :=
  match s with
  | SU8 => bind (dec_uint 1 bs) (fun nr => Ok (VN (fst nr), snd nr))
  | SU16 => bind (dec_uint 2 bs) (fun nr => Ok (VN (fst nr), snd nr))
  | SU32 => bind (dec_uint 4 bs) (fun nr => Ok (VN (fst nr), snd nr))
  | SU64 => bind (dec_uint 8 bs) (fun nr => Ok (VN (fst nr), snd nr))
  | SI64 => bind (dec_uint 8 bs) (fun nr => Ok (VZ (i64_dec (fst nr)), snd nr))
  | SBool => bind (dec_uint 1 bs) (fun nr =>
               if fst nr =? 0 then Ok (VB false, snd nr)
               else if fst nr =? 1 then Ok (VB true, snd nr) else Err E_BOOL)
  | SCanon => bind (dec_uint 4 bs) (fun nr =>
               Ok (VN (if (fst nr mod 256) =? 1 then 1 else 0), snd nr))
  | SStr => bind (dec_string bs) (fun ar => Ok (VStr (fst ar), snd ar))
  | SBytes => bind (dec_blob bs) (fun ar => Ok (VStr (fst ar), snd ar))
  | SFix n => bind (take n bs) (fun ar => Ok (VStr (fst ar), snd ar))
  | SEnum n => bind (dec_uint 4 bs) (fun nr => if fst nr <? n then Ok (VN (fst nr), snd nr) else Err E_ENUM)
  | SOpt s' => bind (dec_uint 1 bs) (fun nr =>
               if fst nr =? 0 then Ok (VNone, snd nr)
               else if fst nr =? 1 then bind (dec s' (snd nr)) (fun vr => Ok (VSome (fst vr), snd vr))
               else Err E_OPT)
  | SVec bound s' => bind (dec_uint 8 bs) (fun nr =>
               if negb (within bound (fst nr)) then Err E_BOUND
               else if N.of_nat (length (snd nr)) <? fst nr then Err E_EOF
               else bind (dec_seq (repeat (dec s') (N.to_nat (fst nr))) (snd nr)) (fun vr => Ok (VList (fst vr), snd vr)))
  | SMap bound s' => bind (dec_uint 8 bs) (fun nr =>
               if N.of_nat (length (snd nr)) <? fst nr then Err E_EOF
               else bind (dec_map (dec s') bound (N.to_nat (fst nr)) (snd nr) [])
                         (fun ar => Ok (VList (map (fun kv => VPair (fst kv) (snd kv)) (fst ar)), snd ar)))
  | SArr n s' => bind (dec_seq (repeat (dec s') n) bs) (fun vr => Ok (VList (fst vr), snd vr))
  | STup ss => bind (dec_seq (map dec ss) bs) (fun vr => Ok (VList (fst vr), snd vr))
  | SUnsupported => Err E_UNSUP
  end.

(* every Vec element type occupies at least one byte (so a declared count larger than the
   bytes left is an error whichever way it is detected) *)
Fixpoint nonzero (s : schema) : bool :=
  match s with
  | SFix n => negb (Nat.eqb n 0)
  | SArr n s' => negb (Nat.eqb n 0) && nonzero s'
  | STup ss => existsb nonzero ss
  | _ => true
  end.
Fixpoint schema_ok (s : schema) : bool :=
  match s with
  | SOpt s' => schema_ok s'
  | SVec _ s' => nonzero s' && schema_ok s'
  | SMap _ s' => schema_ok s'
  | SArr _ s' => schema_ok s'
  | STup ss => forallb schema_ok ss
  | _ => true
  end.

(* bincode::serde::decode_from_slice followed by the `bytes_read != bytes.len()` test *)
Definition E_TRAILING : N := 1.
Definition E_DECODE : N := 2.
Definition decode_exact (s : schema) (bs : bytes) : outcome value :=
  match dec s bs with
  | Ok (v, []) => Ok v
  | Ok (_, _ :: _) => Err E_TRAILING
  | Err _ => Err E_DECODE
  | Panic p => Panic p
  end.

(* ---------- boolean equality on values, for the correspondence cases ---------- *)
Fixpoint value_eqb (a b : value) {struct a} : bool :=
  match a, b with
  | VN x, VN y => x =? y
  | VZ x, VZ y => (x =? y)%Z
  | VB x, VB y => Bool.eqb x y
  | VStr x, VStr y => bytes_eqb x y
  | VNone, VNone => true
  | VSome x, VSome y => value_eqb x y
  | VList x, VList y =>
      (fix go (x y : list value) : bool :=
         match x, y with
         | [], [] => true
         | p :: x', q :: y' => value_eqb p q && go x' y'
         | _, _ => false
         end) x y
  | VPair k x, VPair k' y => bytes_eqb k k' && value_eqb x y
  | _, _ => false
  end.
#[global] Instance Eqb_value : Eqb value := value_eqb.
