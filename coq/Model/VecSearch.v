(* Model of exact vector search:
     src/vec.rs      VecDocument, VecIndexBuilder::{add_document, finish} (below the HNSW
                     threshold / feature `vec` off), VecIndex::decode (first branch),
                     VecIndex::search (Uncompressed), VecIndex::remove, VecIndex::entries
     src/simd.rs     l2_distance_simd: only its length assertion; the value is abstract
     src/memvid/helpers.rs     effective_vec_index_dimension
     src/memvid/search/api.rs  Memvid::search_vec, enable_vec
     src/memvid/mutation.rs    the embedding dimension check of put_internal, the vector part
                     of apply_records / rebuild_indexes (build_vec_artifact), delete
     src/memvid/lifecycle.rs   the vector part of open

   Abstract (Section variables, no axioms): the embedding type E with its dimension
   `dim` (= Vec::len), the distance value type D, the distance `dist` (C38 models the
   kernel bit by bit), and the comparison `dle a b` := "cmp(a, b) is not Greater" for the
   comparator handed to sort_by.  Since 1932440 that comparator is
       a.distance.is_nan().cmp(&b.distance.is_nan())
           .then_with(|| a.distance.total_cmp(&b.distance))
   (instance `f32_nan_last_le` at the end of this file).  Before: plain total_cmp
   (9a670c1, `f32_total_le_unfixed`), and before that partial_cmp(..).unwrap_or(Equal)
   (`f32_le_unfixed`); both kept for the historical lemmas only.
   Rust's sort_by is a stable sort: Model/StableSort.v. *)
From MV Require Import Base.Prelude Model.StableSort.
From Coq Require Import Sorting.Permutation Sorting.Sorted.
Local Open Scope N_scope.

(* error kinds *)
Definition E_VEC_NOT_ENABLED : N := 1.
Definition E_DIM_MISMATCH : N := 2.
Definition E_INVALID_TOC : N := 3.
(* panic sites *)
Definition P_DIST_LEN : N := 1.   (* debug_assert_eq!(a.len(), b.len()) in l2_distance_squared_simd *)

Definition U32_MOD : N := 4294967296.

Section Vec.
  Variables E D : Type.
  Variable dim : E -> N.                (* embedding.len() *)
  Variable dist : E -> E -> D.          (* l2_distance(query, embedding) when the lengths agree *)
  Variable dle : D -> D -> bool.        (* the comparator of sort_by, as "not Greater" *)

  Record doc := mkDoc { doc_id : N; doc_emb : E }.
  Definition hit := (N * D)%type.       (* VecSearchHit { frame_id, distance } *)
  Definition hit_le (a b : hit) : bool := dle (snd a) (snd b).

  (* simd::l2_distance_simd(a, b): debug_assert_eq!(a.len(), b.len()) (debug profile = the
     profile of the harness; in release a longer query indexes out of bounds instead) *)
  Definition l2_distance (a b : E) : outcome D :=
    if N.eqb (dim a) (dim b) then Ok (dist a b) else Panic P_DIST_LEN.

  (* documents.iter().map(|doc| VecSearchHit{..}).collect() *)
  Fixpoint collect_hits (q : E) (docs : list doc) : outcome (list hit) :=
    match docs with
    | [] => Ok []
    | d :: r =>
        match l2_distance q (doc_emb d) with
        | Ok x => match collect_hits q r with
                  | Ok hs => Ok ((doc_id d, x) :: hs)
                  | Err k => Err k
                  | Panic s => Panic s
                  end
        | Err k => Err k
        | Panic s => Panic s
        end
    end.

  (* Vec::truncate(limit): no effect when limit >= len *)
  Definition truncate {A} (l : list A) (limit : N) : list A :=
    if N.leb (N.of_nat (length l)) limit then l else firstn (N.to_nat limit) l.

  (* VecIndex::search, Uncompressed *)
  Definition index_search (docs : list doc) (q : E) (limit : N) : outcome (list hit) :=
    if N.eqb (dim q) 0 then Ok []
    else match collect_hits q docs with
         | Ok hs => Ok (truncate (isort hit_le hs) limit)
         | Err k => Err k
         | Panic s => Panic s
         end.

  (* the hit list the property talks about: every document with its distance, in index order *)
  Definition all_hits (q : E) (docs : list doc) : list hit :=
    map (fun d => (doc_id d, dist q (doc_emb d))) docs.

  (* ---- the property, as a predicate on an answer `hits` to (docs, q, limit) ----
     `rest` are the omitted documents.  okD is the guard on distance values (not NaN). *)
  Definition exact_nn (okD : D -> Prop) (docs : list doc) (q : E) (limit : N) (hits : list hit) : Prop :=
    exists rest,
      (* min(k, m) hits *)
      N.of_nat (length hits) = N.min limit (N.of_nat (length docs)) /\
      (* returned + omitted = every document of the index with its distance, each once *)
      Permutation (hits ++ rest) (all_hits q docs) /\
      (* non-decreasing distance (over the whole list, hence over the hits) *)
      StronglySorted (fun a b => dle (snd a) (snd b) = true) (hits ++ rest) /\
      (* no omitted document is strictly closer than any returned one (the last in particular) *)
      (forall h o, In h hits -> In o rest -> dle (snd h) (snd o) = true) /\
      (* ties keep insertion order, also across the cut *)
      (forall z, okD (snd z) -> filter (tie hit_le z) (hits ++ rest) = filter (tie hit_le z) (all_hits q docs)).

  (* VecIndexBuilder::finish: (vector_count, dimension) of the artifact; the bytes are the
     bincode of the document list (codec: C30), see Section Codec *)
  Definition u32_try_or0 (n : N) : N := if N.ltb n U32_MOD then n else 0.
  Definition finish_dimension (docs : list doc) : N :=
    match docs with [] => 0 | d :: _ => u32_try_or0 (dim (doc_emb d)) end.
  Definition finish_count (docs : list doc) : N := N.of_nat (length docs).

  (* VecIndex::remove *)
  Definition index_remove (docs : list doc) (fid : N) : list doc :=
    filter (fun d => negb (N.eqb (doc_id d) fid)) docs.

  (* ------------------------------------------------------------ memory level *)
  (* toc.indexes.vec: dimension and, when bytes_length > 0, what the stored bytes decode to *)
  Record manifest := mkManifest { mf_dim : N; mf_docs : option (list doc) }.

  Record vmem := mkVmem {
    vm_enabled : bool;                      (* self.vec_enabled *)
    vm_manifest : option manifest;          (* self.toc.indexes.vec *)
    vm_segment_dims : list N;               (* toc.segment_catalog.vec_segments[*].dimension *)
    vm_index : option (list doc)            (* self.vec_index (Uncompressed) *)
  }.

  (* the loop over the segment catalog: None = conflicting dimensions *)
  Fixpoint segment_dim (ds : list N) (acc : option N) : option (option N) :=
    match ds with
    | [] => Some acc
    | d :: r =>
        if N.eqb d 0 then segment_dim r acc
        else match acc with
             | None => segment_dim r (Some d)
             | Some e => if N.eqb e d then segment_dim r acc else None
             end
    end.

  Definition effective_dim (m : vmem) : outcome (option N) :=
    let manifest_dim :=
      match vm_manifest m with
      | Some mf => if N.ltb 0 (mf_dim mf) then Some (mf_dim mf) else None
      | None => None
      end in
    match segment_dim (vm_segment_dims m) None with
    | None => Err E_INVALID_TOC
    | Some sd =>
        match manifest_dim, sd with
        | Some a, Some b => if N.eqb a b then Ok (Some a) else Err E_INVALID_TOC
        | Some a, None => Ok (Some a)
        | None, Some b => Ok (Some b)
        | None, None => Ok None
        end
    end.

  (* ensure_vec_index / load_vec_index_from_manifest (segments are never built into an
     index in this configuration: build_vec_index_from_segments needs a non-empty catalog,
     modelled as "no index") *)
  Definition ensure_index (m : vmem) : option (list doc) :=
    match vm_index m with
    | Some ix => Some ix
    | None => match vm_manifest m with
              | Some mf => mf_docs mf
              | None => None
              end
    end.

  Definition search_vec (m : vmem) (q : E) (limit : N) : outcome (list hit) :=
    if negb (vm_enabled m) then Err E_VEC_NOT_ENABLED
    else match effective_dim m with
         | Err k => Err k
         | Panic s => Panic s
         | Ok ed =>
             let expected :=
               match ed with
               | Some d => d
               | None => match ensure_index m with
                         | Some (d :: _) => u32_try_or0 (dim (doc_emb d))
                         | _ => 0
                         end
               end in
             (* expected_dim > 0 && (query.len() as u32) != expected_dim *)
             if N.ltb 0 expected && negb (N.eqb (dim q mod U32_MOD) expected)
             then Err E_DIM_MISMATCH
             else match ensure_index m with
                  | None => Err E_VEC_NOT_ENABLED
                  | Some docs => index_search docs q limit
                  end
         end.

  (* ------------------------------------------------------------ the write side *)
  (* what the embedded log holds for the vector index until the next commit *)
  Inductive pend :=
  | PPut (fid : N) (emb : option E)
  | PDel (fid : N).

  Record vstate := mkVstate {
    vs_enabled : bool;
    vs_manifest : option manifest;
    vs_index : option (list doc);
    vs_pending : list pend;
    vs_deleted : list N                      (* committed frames whose status is not Active *)
  }.

  Definition vmem_of (s : vstate) : vmem :=
    mkVmem (vs_enabled s) (vs_manifest s) [] (vs_index s).

  Definition vinit : vstate := mkVstate false None None [] [].

  (* enable_vec: flag + empty placeholder manifest (dimension 0, bytes_length 0) *)
  Definition venable (s : vstate) : vstate :=
    mkVstate true
      (match vs_manifest s with Some mf => Some mf | None => Some (mkManifest 0 None) end)
      (vs_index s) (vs_pending s) (vs_deleted s).

  (* put_internal: the dimension contract; `fid` is the id the frame gets (C06).
     Returns the new state and the error, if any (a rejected put has still enabled the
     vector index: enable_vec runs before the comparison).
     Since 564c799 an empty vector is dropped right after the contract
     (`embedding.filter(|v| !v.is_empty())`): the frame is stored without embedding.
     keep_empty = true is the code before that commit (historical lemmas only). *)
  Definition vput_gen (keep_empty : bool) (s : vstate) (fid : N) (emb : option E) : vstate * option N :=
    let incoming := match emb with
                    | Some e => if N.eqb (dim e) 0 then None else Some (dim e mod U32_MOD)
                    | None => None
                    end in
    let stored := match emb with
                  | Some e => if negb keep_empty && N.eqb (dim e) 0 then None else Some e
                  | None => None
                  end in
    match incoming with
    | None => (mkVstate (vs_enabled s) (vs_manifest s) (vs_index s)
                        (vs_pending s ++ [PPut fid stored]) (vs_deleted s), None)
    | Some d =>
        let s1 := if vs_enabled s then s else venable s in
        match effective_dim (vmem_of s1) with
        | Err k => (s1, Some k)
        | Panic p => (s1, Some 0)
        | Ok ed =>
            if match ed with Some x => negb (N.eqb x d) | None => false end
            then (s1, Some E_DIM_MISMATCH)
            else
              let mf' := match vs_manifest s1 with
                         | Some mf => Some (if N.eqb (mf_dim mf) 0 then mkManifest d (mf_docs mf) else mf)
                         | None => None
                         end in
              (mkVstate (vs_enabled s1) mf' (vs_index s1)
                        (vs_pending s1 ++ [PPut fid stored]) (vs_deleted s1), None)
        end
    end.
  Definition vput := vput_gen false.
  Definition vput_unfixed := vput_gen true.

  (* delete_frame (accepted): a log record; nothing else changes before the commit *)
  Definition vdelete (s : vstate) (fid : N) : vstate :=
    mkVstate (vs_enabled s) (vs_manifest s) (vs_index s) (vs_pending s ++ [PDel fid]) (vs_deleted s).

  (* apply_records: index.remove for deletes, embeddings collected in order *)
  Fixpoint apply_pending (ps : list pend) (ix : option (list doc)) (del : list N) (newd : list doc)
    : option (list doc) * list N * list doc :=
    match ps with
    | [] => (ix, del, newd)
    | PPut fid (Some e) :: r => apply_pending r ix del (newd ++ [mkDoc fid e])
    | PPut fid None :: r => apply_pending r ix del newd
    | PDel fid :: r =>
        apply_pending r (match ix with Some d => Some (index_remove d fid) | None => None end)
                      (fid :: del) newd
    end.

  Definition frame_is_active (del : list N) (fid : N) : bool :=
    negb (existsb (N.eqb fid) del).

  (* commit: nothing to do for an empty delta; otherwise rebuild_indexes:
     build_vec_artifact = active entries of the loaded index, then the new embeddings;
     the new index is VecIndex::decode of the artifact bytes (round trip: Section Codec) *)
  Definition vcommit (s : vstate) : vstate :=
    match vs_pending s with
    | [] => s
    | ps =>
        let '(ix, del, newd) := apply_pending ps (vs_index s) (vs_deleted s) [] in
        if vs_enabled s then
          let docs := filter (fun d => frame_is_active del (doc_id d))
                             (match ix with Some d => d | None => [] end) ++ newd in
          mkVstate true (Some (mkManifest (finish_dimension docs) (Some docs))) (Some docs) [] del
        else mkVstate false None None [] del
    end.

  (* close (commits what is pending) and open: flag from the manifest, index from its bytes *)
  Definition vreopen (s : vstate) : vstate :=
    let s' := vcommit s in
    mkVstate (match vs_manifest s' with Some _ => true | None => false end)
             (vs_manifest s')
             (match vs_manifest s' with Some mf => mf_docs mf | None => None end)
             [] (vs_deleted s').

  Inductive vop :=
  | VEnable
  | VPut (fid : N) (emb : option E)
  | VDelete (fid : N)
  | VCommit
  | VReopen
  | VSearch (q : E) (limit : N).

  (* observable result of one call: searches return hits, everything else unit *)
  Definition vstep (s : vstate) (o : vop) : vstate * outcome (list hit) :=
    match o with
    | VEnable => (venable s, Ok [])
    | VPut fid emb => match vput s fid emb with
                      | (s', None) => (s', Ok [])
                      | (s', Some k) => (s', Err k)
                      end
    | VDelete fid => (vdelete s fid, Ok [])
    | VCommit => (vcommit s, Ok [])
    | VReopen => (vreopen s, Ok [])
    | VSearch q limit => (s, search_vec (vmem_of s) q limit)
    end.

  Fixpoint vrun (s : vstate) (ops : list vop) : vstate * list (outcome (list hit)) :=
    match ops with
    | [] => (s, [])
    | o :: r => let '(s1, out) := vstep s o in
                let '(s2, outs) := vrun s1 r in (s2, out :: outs)
    end.

  (* the embeddings the committed, active frames were given, in index order *)
  Definition index_docs (s : vstate) : list doc :=
    match vs_index s with Some d => d | None => [] end.

  (* embeddings and queries of 2^32 components or more are outside the theorems (the
     dimension contract casts the length to u32) *)
  Definition op_dim_fits_u32 (o : vop) : bool :=
    match o with VPut _ (Some e) => N.ltb (dim e) U32_MOD | _ => true end.

  (* ------------------------------------------------------------ codec (C30) *)
  Section Codec.
    Variable enc : list doc -> bytes.                         (* bincode of Vec<VecDocument> *)
    Variable dec : bytes -> option (list doc * nat).          (* decode_from_slice: value, bytes read *)

    (* VecIndex::decode, first branch; the other encodings (HNSW, PQ) are not modelled *)
    Definition index_decode (b : bytes) : outcome (list doc) :=
      match dec b with
      | Some (docs, read) => if Nat.eqb read (length b) then Ok docs else Err E_INVALID_TOC
      | None => Err E_INVALID_TOC
      end.
  End Codec.
End Vec.

Arguments mkDoc {E} _ _.
Arguments doc_id {E} _.
Arguments doc_emb {E} _.
Arguments PPut {E} _ _.
Arguments PDel {E} _.
Arguments VEnable {E}.
Arguments VPut {E} _ _.
Arguments VDelete {E} _.
Arguments VCommit {E}.
Arguments VReopen {E}.
Arguments VSearch {E} _ _.
Arguments mkManifest {E} _ _.
Arguments mf_dim {E} _.
Arguments mf_docs {E} _.
Arguments mkVmem {E} _ _ _ _.
Arguments mkVstate {E} _ _ _ _ _.
Arguments vinit {E}.

(* ---- the f32 instance of the comparison ----
   A distance value is the raw bit pattern of the f32 (N below 2^32).
   f32::total_cmp:   let mut l = a.to_bits() as i32; l ^= (((l >> 31) as u32) >> 1) as i32;
                     (same for r);  l.cmp(&r)
   i.e. a pattern with the sign bit clear keeps its value, a pattern 2^31 + m (sign bit set)
   becomes -1 - m: `total_key`.  total_cmp alone orders
       -NaN < -inf < negative < -0 < +0 < positive < +inf < +NaN.
   The comparator of the code compares is_nan first (false < true), then total_cmp:
       -inf < negative < -0 < +0 < positive < +inf < -NaN < +NaN. *)
Definition F32_SIGN : N := 2147483648.          (* 0x8000_0000 *)
Definition F32_INF : N := 2139095040.           (* 0x7F80_0000 *)
Definition total_key (b : N) : Z :=
  if N.ltb b F32_SIGN then Z.of_N b else (- 1 - Z.of_N (b - F32_SIGN))%Z.

Definition f32_is_nan (b : N) : bool := N.ltb F32_INF (b mod F32_SIGN).
Definition f32_sign (b : N) : bool := N.leb F32_SIGN b.

(* bool::cmp then total_cmp, read as "not Greater" *)
Definition f32_nan_last_le (a b : N) : bool :=
  match f32_is_nan a, f32_is_nan b with
  | false, true => true                                   (* Less *)
  | true, false => false                                  (* Greater *)
  | _, _ => Z.leb (total_key a) (total_key b)             (* Equal, then total_cmp *)
  end.

(* "a is strictly closer than b" for two distance values that are not negative numbers,
   with an undefined distance (NaN, either sign) read as farthest: a NaN is never closer
   than anything, a non-NaN distance is closer than any NaN, and two non-NaN distances
   compare like their bit patterns (IEEE 754: non-negative floats order like their bits). *)
Definition f32_closer (a b : N) : bool :=
  negb (f32_is_nan a) && (f32_is_nan b || N.ltb a b).

(* the minimal assumption on a kernel output for the numeric reading: it is not a negative
   number (sign bit set only on a NaN).  A square root of a sum of squares satisfies it. *)
Definition f32_not_negative (b : N) : bool := negb (f32_sign b) || f32_is_nan b.

(* ---- the comparison between 9a670c1 and 1932440 (historical): plain total_cmp ---- *)
Definition f32_total_le_unfixed (a b : N) : bool := Z.leb (total_key a) (total_key b).

(* ---- the comparison before 9a670c1 (historical) ----
   distance as option: None = NaN, Some b = bits of a non-negative float;
   partial_cmp(..).unwrap_or(Equal): a NaN on either side compares Equal. *)
Definition f32key_unfixed := option N.
Definition f32_le_unfixed (a b : f32key_unfixed) : bool :=
  match a, b with
  | Some x, Some y => N.leb x y
  | _, _ => true
  end.
