(* M-Vacuum (C42): Memvid::vacuum (src/memvid/mutation.rs) at byte level.
   State = the frame table columns vacuum touches or that searches/timeline read, the file
   bytes from the data start (header.wal_offset + header.wal_size) to the end of the file, and the
   handle fields data_end / cached_payload_end / header.footer_offset / lex_enabled / vec_enabled /
   number of log records after the last checkpoint.
   vacuum = commit; READ PHASE (every active payload into a HashMap keyed by frame id, each read
   guarded by validate_frame_bounds); WRITE PHASE (one pass over toc.frames, in place, from the data
   start); data_end = cursor; cached_payload_end = cursor (since fix f791181; before it the field kept
   the pre-compaction end: `vacuum_pre_f791181` below, historical); clear catalogs;
   rebuild_indexes(&[], &[]) which starts writing the index image at payload_region_end() =
   cached_payload_end; then (since fix 4c0da7f) sketch track rewritten, TOC, log checkpoint, header.
   The index image itself (time index, Tantivy segments, vector index, ...) is an input `ix`
   (any byte string): the model decides WHERE it goes, not what the encoders produce.
   Not modelled: the TOC/footer bytes after the index image, the log region, a log growth caused by
   the lex batch record appended during the rebuild, u64 overflow of offset + length (offsets are
   unbounded N; the code uses checked_add). *)
From MV Require Import Base.Prelude.
Local Open Scope N_scope.

(* src/lib.rs : MAX_FRAME_BYTES = 256 * 1024 * 1024 *)
Definition MAX_FRAME_BYTES : N := 268435456.

Record vframe := mkVF {
  vf_id : N;
  vf_status : N;        (* 0 Active, 1 Superseded, 2 Deleted *)
  vf_off : N;           (* payload_offset (absolute file offset) *)
  vf_len : N;           (* payload_length *)
  vf_role : N;          (* 0 Document, 1 DocumentChunk, 2 ExtractedImage *)
  vf_meta : N;          (* tag standing for every other column: uri, title, timestamp, metadata, tags,
                           checksum, encoding, search_text, manifest, parent, supersedes ... *)
  vf_text : bool }.     (* the frame has index text (rebuild_tantivy_engine adds it) *)

Definition vf_active (f : vframe) : bool := vf_status f =? 0.
Definition set_window (f : vframe) (off len : N) : vframe :=
  mkVF (vf_id f) (vf_status f) off len (vf_role f) (vf_meta f) (vf_text f).

Record vstate := mkVS {
  vs_start : N;              (* header.wal_offset + header.wal_size *)
  vs_frames : list vframe;   (* toc.frames *)
  vs_region : bytes;         (* file bytes [vs_start, file length) *)
  vs_data_end : N;           (* self.data_end *)
  vs_cpe : N;                (* self.cached_payload_end = payload_region_end() *)
  vs_footer : N;             (* header.footer_offset *)
  vs_lex : bool;             (* lex_enabled *)
  vs_vec : bool;             (* vec_enabled *)
  vs_pending : N }.          (* log records after the last checkpoint *)

Definition file_len (st : vstate) : N := vs_start st + N.of_nat (length (vs_region st)).

(* bytes [off, off+len) of the file, seen through the region *)
Definition read_at (region : bytes) (start off len : N) : bytes :=
  slice region (N.to_nat (off - start)) (N.to_nat len).

(* frame.rs validate_frame_bounds *)
Definition validate (st : vstate) (f : vframe) : outcome unit :=
  if vf_len f =? 0 then Ok tt
  else if MAX_FRAME_BYTES <? vf_len f then Err 1          (* payload length exceeds maximum *)
  else if vf_off f <? vs_start st then Err 2              (* payload overlaps wal region *)
  else if vs_data_end st <? vf_off f + vf_len f then Err 3 (* payload extends past data region *)
  else if file_len st <? vf_off f + vf_len f then Err 4    (* payload extends past file length *)
  else Ok tt.

(* frame.rs read_frame_payload_bytes: validate, seek(payload_offset), read_exact(payload_length) *)
Definition read_payload (st : vstate) (f : vframe) : outcome bytes :=
  match validate st f with
  | Ok _ => Ok (read_at (vs_region st) (vs_start st) (vf_off f) (vf_len f))
  | Err k => Err k
  | Panic s => Panic s
  end.

(* what a reader gets for a frame in a state (frame_canonical_payload before decoding) *)
Definition frame_bytes (st : vstate) (f : vframe) : bytes :=
  read_at (vs_region st) (vs_start st) (vf_off f) (vf_len f).

(* HashMap<FrameId, Vec<u8>> as an association list: insert = cons, get = first match
   (a later insert of the same key shadows the earlier one, as HashMap::insert replaces) *)
Fixpoint hm_get (m : list (N * bytes)) (k : N) : option bytes :=
  match m with
  | [] => None
  | (k', v) :: r => if k' =? k then Some v else hm_get r k
  end.

(* "for frame in frames { let bytes = self.read_frame_payload_bytes(&frame)?; active_payloads.insert(frame.id, bytes); }"
   over the Active frames of toc.frames *)
Fixpoint read_phase (st : vstate) (fs : list vframe) (acc : list (N * bytes)) : outcome (list (N * bytes)) :=
  match fs with
  | [] => Ok acc
  | f :: r =>
      if vf_active f then
        match read_payload st f with
        | Ok b => read_phase st r ((vf_id f, b) :: acc)
        | Err k => Err k
        | Panic s => Panic s
        end
      else read_phase st r acc
  end.

(* seek(pos); write_all(b): overwrites, extends the file when it ends inside the written range
   (zero fill if pos were beyond the end: never the case here, kept for totality) *)
Definition write_at (region : bytes) (pos : nat) (b : bytes) : bytes :=
  firstn pos region ++ repeat 0 (pos - length region) ++ b ++ skipn (pos + length b) region.

(* "for frame in &mut self.toc.frames { if Active { if let Some(bytes) = active_payloads.get(&frame.id)
      { write_all(bytes); frame.payload_offset = cursor; frame.payload_length = len; cursor += len }
      else { (0,0) } } else { (0,0) } }" *)
Fixpoint write_phase (start : N) (m : list (N * bytes)) (fs : list vframe) (cursor : N) (region : bytes)
  : list vframe * N * bytes :=
  match fs with
  | [] => ([], cursor, region)
  | f :: r =>
      if vf_active f then
        match hm_get m (vf_id f) with
        | Some b =>
            let region1 := write_at region (N.to_nat (cursor - start)) b in
            let blen := N.of_nat (length b) in
            let '(r', c', rg') := write_phase start m r (cursor + blen) region1 in
            (set_window f cursor blen :: r', c', rg')
        | None =>
            let '(r', c', rg') := write_phase start m r cursor region in
            (set_window f 0 0 :: r', c', rg')
        end
      else
        let '(r', c', rg') := write_phase start m r cursor region in
        (set_window f 0 0 :: r', c', rg')
  end.

(* rebuild_indexes(&[], &[]) as far as the payload region is concerned:
   early return on an empty table with both engines off; payload_end = payload_region_end();
   data_end = payload_end; seek(payload_end) and write the index image; footer_offset =
   max(footer_offset, end of the image); with lex enabled flush_tantivy appends ONE lex batch record to
   the log (tantivy_dirty is set unconditionally just before) and data_end is set to payload_region_end()
   again.  No checkpoint is recorded. *)
Definition rebuild (st : vstate) (ix : bytes) : vstate :=
  if (match vs_frames st with [] => true | _ => false end) && negb (vs_lex st) && negb (vs_vec st) then st
  else
    mkVS (vs_start st) (vs_frames st)
         (write_at (vs_region st) (N.to_nat (vs_cpe st - vs_start st)) ix)
         (vs_cpe st) (vs_cpe st) (N.max (vs_footer st) (vs_cpe st + N.of_nat (length ix)))
         (vs_lex st) (vs_vec st) (vs_pending st + (if vs_lex st then 1 else 0)).

(* commit() on a handle whose table already holds every acknowledged frame: the log is checkpointed *)
Definition checkpoint (st : vstate) : vstate :=
  mkVS (vs_start st) (vs_frames st) (vs_region st) (vs_data_end st) (vs_cpe st) (vs_footer st)
       (vs_lex st) (vs_vec st) 0.

(* the rewrite alone: read phase, write phase, "self.data_end = cursor; self.cached_payload_end = cursor;" *)
Definition rewrite (st : vstate) : outcome vstate :=
  match read_phase st (vs_frames st) [] with
  | Ok m =>
      let '(fs', cursor, region') := write_phase (vs_start st) m (vs_frames st) (vs_start st) (vs_region st) in
      Ok (mkVS (vs_start st) fs' region' cursor cursor (vs_footer st) (vs_lex st) (vs_vec st) (vs_pending st))
  | Err k => Err k
  | Panic s => Panic s
  end.

(* Memvid::vacuum up to and including rebuild_indexes (the whole function before fix 4c0da7f) *)
Definition vacuum_core (st : vstate) (ix : bytes) : outcome vstate :=
  match rewrite (checkpoint st) with
  | Ok st1 => Ok (rebuild st1 ix)
  | Err k => Err k
  | Panic s => Panic s
  end.

(* Memvid::vacuum (since fix 4c0da7f): ... rebuild_indexes; then, like commit_from_records,
   persist_sketch_track() when the track is non-empty (written at the footer offset, i.e. after the index
   image; the footer offset moves up by its length: vs_footer below is therefore a LOWER bound of the
   real footer offset and only <= statements are made about it), rewrite_toc_footer,
   wal.record_checkpoint (no record stays pending), persist_header, sync. *)
Definition vacuum (st : vstate) (ix : bytes) : outcome vstate :=
  match vacuum_core st ix with
  | Ok s => Ok (checkpoint s)
  | Err k => Err k
  | Panic s => Panic s
  end.

(* doctor with options.vacuum: VacuumCompaction action = mem.vacuum(), then the Finalize phase
   (RecomputeToc: dirty = true; commit() -> flush + checkpoint).  Index rebuild options run
   rebuild_indexes once more in between (same start offset: cached_payload_end is unchanged). *)
Definition doctor_vacuum (st : vstate) (ix : bytes) (again : option bytes) : outcome vstate :=
  match vacuum st ix with
  | Ok st1 => Ok (checkpoint (match again with Some ix2 => rebuild st1 ix2 | None => st1 end))
  | Err k => Err k
  | Panic s => Panic s
  end.

(* closing the handle and opening the file again replays the pending lex record and checkpoints;
   cached_payload_end is recomputed from the table (compute_payload_region_end) *)
Definition payload_region_end (start : N) (fs : list vframe) : N :=
  fold_left (fun acc f => if vf_len f =? 0 then acc else N.max acc (vf_off f + vf_len f)) fs start.

(* Memvid::verify, the part that depends on what vacuum does: the WalPendingRecords check.
   (The index decode checks are the encoders' business: oracles.) *)
Definition verify_passed (st : vstate) : bool := vs_pending st =? 0.

(* ---- derived quantities used by the statements ---- *)
Fixpoint active_bytes (fs : list vframe) : N :=
  match fs with
  | [] => 0
  | f :: r => (if vf_active f then vf_len f else 0) + active_bytes r
  end.

(* the table vacuum produces, as a pure function of the old table: active frames are laid out
   contiguously from `cursor` in table (= id) order with their old lengths, a zero-length active frame gets
   the running cursor and length 0, every inactive frame gets (0, 0) *)
Fixpoint relocate (fs : list vframe) (cursor : N) : list vframe :=
  match fs with
  | [] => []
  | f :: r =>
      if vf_active f then set_window f cursor (vf_len f) :: relocate r (cursor + vf_len f)
      else set_window f 0 0 :: relocate r cursor
  end.

(* what search / timeline / index rebuild see of a frame: everything but the window *)
Definition view_row (f : vframe) : N * N * N * N * bool :=
  (vf_id f, vf_status f, vf_role f, vf_meta f, vf_text f).
Definition table_view (fs : list vframe) : list (N * N * N * N * bool) := map view_row fs.

(* the sets rebuild_indexes derives from the table (same filters as Model/Reads.v lex_full / tix_full):
   Tantivy documents = active frames with index text; time index = active frames of role Document *)
Definition lex_docs (fs : list vframe) : list N :=
  map vf_id (filter (fun f => vf_active f && vf_text f) fs).
Definition time_entries (fs : list vframe) : list N :=
  map vf_id (filter (fun f => vf_active f && (vf_role f =? 0)) fs).

(* HISTORICAL (before fix f791181, finding F-C42-1): vacuum left cached_payload_end at its old value, so
   the index image was written at the pre-compaction payload end -- over the rewritten payloads whenever
   data start + active bytes exceeded it (frames sharing one window each get their own copy). *)
Definition with_cpe (st : vstate) (cpe : N) : vstate :=
  mkVS (vs_start st) (vs_frames st) (vs_region st) (vs_data_end st) cpe (vs_footer st)
       (vs_lex st) (vs_vec st) (vs_pending st).
Definition vacuum_pre_f791181 (st : vstate) (ix : bytes) : outcome vstate :=
  match rewrite (checkpoint st) with
  | Ok st1 => Ok (rebuild (with_cpe st1 (vs_cpe st)) ix)
  | Err k => Err k
  | Panic s => Panic s
  end.

