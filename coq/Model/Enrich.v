(* M-Enrich: the background enrichment worker on a shared handle (C41).

   Follows, line by line,
     src/enrichment_worker.rs   run_worker_loop
     src/memvid/enrichment.rs   start_enrichment_worker (the four closures over Arc<Mutex<Memvid>>),
                                next_enrichment_task, process_enrichment_task, mark_frame_enriched,
                                complete_enrichment_task, process_all_enrichment
     src/types/manifest.rs      EnrichmentQueueManifest::{push, remove}
     src/memvid/mutation.rs     tail of put_internal (needs_enrichment => enrichment_state = Searchable in the
                                log entry and toc.enrichment_queue.push(next_frame_id() read before the append);
                                repaired code, fix 79654f0 -- see Model/Derived.v `der_id true`)
   on top of the frame-table model Model/Store.v (C01/C06).

   Every closure of the worker locks the mutex for its whole body and every foreground call holds the
   same mutex, so an execution is a sequence of critical sections: a SCHEDULE is a list of
   `SW extra` (the worker runs its next critical section) and `SF op` (the foreground runs one call).

   run_worker_loop as a state machine (one W step = one critical section, together with the lock-free
   code that precedes it):

     WTop            `while !handle.should_stop()`: stop seen -> final `checkpoint()` if
                     tasks_since_checkpoint > 0, set_running(false)                          -> WStopped
                     otherwise `get_next_task()` = toc.enrichment_queue.tasks.first():
                        None   -> sleep, continue                                            -> WTop
                        Some t                                                               -> WHasTask t
     WHasTask t      `process_task(&task)` = Memvid::process_enrichment_task, then the counters
                     (frames_processed += 1; errors += 1 if result.error.is_some())          -> WProcessed t
     WProcessed t    `mark_complete(task.frame_id)` = complete_enrichment_task (queue.remove(id) is a
                     retain; dirty = true); tasks_since_checkpoint += 1;
                     `if tasks_since_checkpoint >= config.checkpoint_interval`               -> WCkpt | WTop
     WCkpt           `checkpoint()` = Memvid::commit(); tasks_since_checkpoint = 0           -> WTop

   The stop flag is an atomic outside the mutex and is read only at the top of the loop.  Reading it
   and the `get` that follows are one W step here: a `stop()` that lands between the two in real time
   commutes with the `get` (it touches nothing the `get` reads), so that execution is the schedule
   [SW; SF FStop].  Likewise the stop test and the final checkpoint are one step.

   The enrichment state of frame i (Frame::enrichment_state; 0 = Searchable, 1 = Enriched) is carried
   by the log entry of the put that creates the frame (Searchable iff the put queued it) and set to
   Enriched by mark_frame_enriched(i), which acts only on a COMMITTED, ACTIVE frame:
       state i = if i in e_marked then 1 else if i in e_queued then 0 else 1.
   `extra` of a W step is the number of log records the checkpoint's commit appends itself (an oracle
   input exactly like `OCommit extra` of Model/Store.v); it is ignored by the other W steps.

   Ghost fields (not implementation state): e_queued (every id ever pushed), e_early / e_gone (tasks
   processed when their frame was not in the committed table yet / was there but not Active),
   e_plog (every process_enrichment_task call, worker's and foreground's, in order),
   e_hist (the foreground's store calls with their results, the input of the C01 reference model),
   e_overlap (a foreground drain ran while the worker held a task). *)
From MV Require Import Base.Prelude Model.Store Model.Derived.
Local Open Scope N_scope.

Inductive wpc := WTop | WHasTask (t : N) | WProcessed (t : N) | WCkpt | WStopped.

Record wst := mkW { w_pc : wpc; w_since : N; w_nproc : N; w_nerr : N }.

Record est := mkE {
  e_st : store;
  e_queue : list N;
  e_stop : bool;
  e_marked : list N;
  e_queued : list N;
  e_early : list N;
  e_gone : list N;
  e_plog : list N;
  e_hist : list (sop * sout);
  e_overlap : bool }.

Definition w0 : wst := mkW WTop 0 0 0.
Definition e0 : est := mkE store0 [] false [] [] [] [] [] [] false.

Definition mem (x : N) (l : list N) : bool := existsb (N.eqb x) l.

(* Frame::enrichment_state of frame i *)
Definition state_of (e : est) (i : N) : N :=
  if mem i (e_marked e) then 1 else if mem i (e_queued e) then 0 else 1.

(* EnrichmentQueueManifest::remove: tasks.retain(|t| t.frame_id != frame_id) *)
Definition remove_id (t : N) (q : list N) : list N := filter (fun x => negb (x =? t)) q.

Definition set_st (e : est) (s : store) : est :=
  mkE s (e_queue e) (e_stop e) (e_marked e) (e_queued e) (e_early e) (e_gone e) (e_plog e) (e_hist e) (e_overlap e).

(* process_enrichment_task(task): read_frame_for_enrichment finds a committed Active frame or the
   result carries "Frame not found"; found: (re-extraction, Tantivy update: outside the model)
   mark_frame_enriched(id) { frame.enrichment_state = Enriched; self.dirty = true }.
   Returns result.error.is_some(). *)
Definition process (e : est) (t : N) : est * bool :=
  if frame_found (e_st e) t then
    (mkE (touch (e_st e)) (e_queue e) (e_stop e) (t :: e_marked e) (e_queued e) (e_early e) (e_gone e)
         (e_plog e ++ [t]) (e_hist e) (e_overlap e), false)
  else
    match get (committed (e_st e)) t with
    | None => (mkE (e_st e) (e_queue e) (e_stop e) (e_marked e) (e_queued e) (t :: e_early e) (e_gone e)
                   (e_plog e ++ [t]) (e_hist e) (e_overlap e), true)
    | Some _ => (mkE (e_st e) (e_queue e) (e_stop e) (e_marked e) (e_queued e) (e_early e) (t :: e_gone e)
                     (e_plog e ++ [t]) (e_hist e) (e_overlap e), true)
    end.

(* complete_enrichment_task(id): queue.remove(id); self.dirty = true *)
Definition complete (e : est) (t : N) : est :=
  mkE (touch (e_st e)) (remove_id t (e_queue e)) (e_stop e) (e_marked e) (e_queued e) (e_early e) (e_gone e)
      (e_plog e) (e_hist e) (e_overlap e).

(* the checkpoint closure: Memvid::commit() (errors only logged) *)
Definition checkpoint (e : est) (extra : N) : est := set_st e (fst (sstep (e_st e) (OCommit extra))).

Definition set_pc (w : wst) (p : wpc) : wst := mkW p (w_since w) (w_nproc w) (w_nerr w).

Definition wstep (iv extra : N) (x : est * wst) : est * wst :=
  let '(e, w) := x in
  match w_pc w with
  | WTop =>
      if e_stop e then
        ((if 0 <? w_since w then checkpoint e extra else e), set_pc w WStopped)
      else match e_queue e with
           | [] => (e, w)
           | t :: _ => (e, set_pc w (WHasTask t))
           end
  | WHasTask t =>
      let '(e1, err) := process e t in
      (e1, mkW (WProcessed t) (w_since w) (w_nproc w + 1) (if err then w_nerr w + 1 else w_nerr w))
  | WProcessed t =>
      let s1 := w_since w + 1 in
      (complete e t, mkW (if iv <=? s1 then WCkpt else WTop) s1 (w_nproc w) (w_nerr w))
  | WCkpt => (checkpoint e extra, mkW WTop 0 (w_nproc w) (w_nerr w))
  | WStopped => (e, w)
  end.

(* ---- the foreground ---- *)
Inductive fop :=
| FPut (uk : option N) (tag nchunks : N) (auto : option N) (q : bool)   (* q = needs_enrichment *)
| FUpdate (target : N) (newtag uk : option N) (auto : option N)          (* issued without instant_index *)
| FDelete (target : N) (auto : option N)
| FCommit (extra : N)
| FSearch                                                               (* Memvid::search: no state change *)
| FDrain                                                                (* Memvid::process_all_enrichment *)
| FStop.                                                                (* EnrichmentHandle::stop *)

Definition sop_of_f (f : fop) : option sop :=
  match f with
  | FPut uk tag nchunks auto _ => Some (OPut uk tag nchunks 0 auto)
  | FUpdate target newtag uk auto => Some (OUpdate target newtag uk auto)
  | FDelete target auto => Some (ODelete target auto)
  | FCommit extra => Some (OCommit extra)
  | _ => None
  end.

(* process_all_enrichment: while let Some(task) = next { process(task); complete(task.frame_id) } *)
Fixpoint drain (fuel : nat) (e : est) : est :=
  match fuel with
  | O => e
  | S k => match e_queue e with
           | [] => e
           | t :: _ => drain k (complete (fst (process e t)) t)
           end
  end.

Definition inflight (w : wst) : bool :=
  match w_pc w with WHasTask _ | WProcessed _ => true | _ => false end.

Definition fstep (f : fop) (x : est * wst) : est * wst :=
  let '(e, w) := x in
  match f with
  | FSearch => (e, w)
  | FStop => (mkE (e_st e) (e_queue e) true (e_marked e) (e_queued e) (e_early e) (e_gone e) (e_plog e) (e_hist e) (e_overlap e), w)
  | FDrain =>
      let ov := e_overlap e || (inflight w && negb (match e_queue e with [] => true | _ => false end)) in
      let e1 := drain (length (e_queue e)) e in
      (mkE (e_st e1) (e_queue e1) (e_stop e1) (e_marked e1) (e_queued e1) (e_early e1) (e_gone e1) (e_plog e1) (e_hist e1) ov, w)
  | _ =>
      match sop_of_f f with
      | None => (e, w)
      | Some so =>
          let id := next_frame_id (e_st e) in
          let '(s1, o) := sstep (e_st e) so in
          let push := match f with FPut _ _ _ _ q => q | _ => false end in
          (mkE s1 (if push then e_queue e ++ [id] else e_queue e) (e_stop e) (e_marked e)
               (if push then e_queued e ++ [id] else e_queued e) (e_early e) (e_gone e) (e_plog e)
               (e_hist e ++ [(so, o)]) (e_overlap e), w)
      end
  end.

Inductive sitem := SW (extra : N) | SF (f : fop).

Definition step (iv : N) (x : est * wst) (i : sitem) : est * wst :=
  match i with SW extra => wstep iv extra x | SF f => fstep f x end.

Definition run_from (iv : N) (x : est * wst) (sched : list sitem) : est * wst := fold_left (step iv) sched x.
Definition run (iv : N) (sched : list sitem) : est * wst := run_from iv (e0, w0) sched.

(* The handle's stop flag is INPUT state of run_worker_loop: the handle is created by the caller
   (EnrichmentWorkerHandle::new, flag false) and `stop()` may be called on it before the loop is
   entered -- before the thread is spawned, or between the spawn and the thread's first instruction.
   Loop entry (`handle.set_running(true); let mut tasks_since_checkpoint = 0;`) reads and writes
   nothing else: in particular it does NOT touch the flag, so the first `while !handle.should_stop()`
   sees whatever the caller left there.  `init pre` is the state at loop entry with the flag = pre;
   `run` is `run_pre _ false`.  (A loop that cleared the flag on entry would be `init false` whatever
   the caller did: the theorems C41_prestopped_* / C41_stop_at_any_time do not hold of it, and the
   correspondence runs with a pre-stopped handle tell the two apart.) *)
Definition init (pre : bool) : est * wst := (mkE store0 [] pre [] [] [] [] [] [] false, w0).
Definition run_pre (iv : N) (pre : bool) (sched : list sitem) : est * wst := run_from iv (init pre) sched.

(* n consecutive worker steps, checkpoints appending no log record of their own *)
Fixpoint wsteps (iv : N) (n : nat) (x : est * wst) : est * wst :=
  match n with O => x | S k => wsteps iv k (wstep iv 0 x) end.

(* ---- the two known classes, as predicates on the schedule ---- *)
(* F-C41-1: some task was processed before the put that queued it had been committed *)
Definition known_early (iv : N) (sched : list sitem) : bool :=
  negb (match e_early (fst (run iv sched)) with [] => true | _ => false end).
(* F-C41-2: a foreground process_all_enrichment ran on a non-empty queue while the worker was between
   its `get` and its `complete` *)
Definition known_overlap (iv : N) (sched : list sitem) : bool := e_overlap (fst (run iv sched)).
