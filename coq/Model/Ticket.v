(* Model of the ticket mechanism of memvid-core:
     src/memvid/ticket.rs     apply_ticket, apply_signed_ticket, current_ticket, stats().seq_no
     src/memvid/lifecycle.rs  bind_memory, set_memory_binding_only, unbind_memory, empty_toc
     src/memvid/mutation.rs   capacity_limit / get_capacity, commit (only its effect on the TOC)
     src/signature.rs         ticket_message_bytes (canonical payload), to_signature,
                              verify_ticket_signature
   Definitions only.  Ed25519 (`VerifyingKey::verify_strict`) is the Section variable `verify`.

   State: the in-memory TOC fields the mechanism reads and writes (ticket_ref, memory_binding),
   the copy of those fields in the last TOC written to the file, and the handle's dirty flag.
   An accepted ticket rewrites the TOC + footer + header at once (rewrite_toc_footer,
   persist_header, sync_all), i.e. the WHOLE in-memory TOC reaches the file; bind/unbind only
   set `dirty` and reach the file with the next commit (or the commit in Drop). *)
From MV Require Import Base.Prelude.
From Coq Require Import String Ascii Decimal DecimalN DecimalZ.
Local Open Scope Z_scope.

(* ---------- canonical payload (serde_json::to_vec of TicketSignaturePayload) ---------- *)

Definition ascii_bytes (s : string) : bytes := map N_of_ascii (list_ascii_of_string s).

(* lower-case hex digit of a value below 16 *)
Definition hexd (n : N) : N := if (n <? 10)%N then (48 + n)%N else (87 + n)%N.
Definition hex2 (b : N) : bytes := [hexd (b / 16)%N; hexd (b mod 16)%N].
Definition hexs (l : bytes) : bytes := flat_map hex2 l.

(* uuid::Uuid as Display/Serialize: hyphenated lower-case 8-4-4-4-12 *)
Definition uuid_str (id : bytes) : bytes :=
  hexs (slice id 0 4) ++ [45%N] ++ hexs (slice id 4 2) ++ [45%N] ++ hexs (slice id 6 2) ++ [45%N]
       ++ hexs (slice id 8 2) ++ [45%N] ++ hexs (slice id 10 6).

(* serde_json's string escape table: 0x08 b, 0x09 t, 0x0a n, 0x0c f, 0x0d r, other control
   characters \u00XX (lower-case hex), quote and backslash escaped, everything else (incl.
   0x7f and all non-ASCII UTF-8 bytes) copied *)
Definition json_esc_byte (b : N) : bytes :=
  if (b =? 34)%N then [92; 34]%N
  else if (b =? 92)%N then [92; 92]%N
  else if (b =? 8)%N then [92; 98]%N
  else if (b =? 9)%N then [92; 116]%N
  else if (b =? 10)%N then [92; 110]%N
  else if (b =? 12)%N then [92; 102]%N
  else if (b =? 13)%N then [92; 114]%N
  else if (b <? 32)%N then [92; 117; 48; 48]%N ++ hex2 b
  else [b].
Definition json_esc (s : bytes) : bytes := flat_map json_esc_byte s.

(* itoa: decimal digits, most significant first, "-" for negatives, "0" for zero *)
Fixpoint dec_uint (u : Decimal.uint) : bytes :=
  match u with
  | Nil => []
  | D0 r => 48%N :: dec_uint r | D1 r => 49%N :: dec_uint r | D2 r => 50%N :: dec_uint r
  | D3 r => 51%N :: dec_uint r | D4 r => 52%N :: dec_uint r | D5 r => 53%N :: dec_uint r
  | D6 r => 54%N :: dec_uint r | D7 r => 55%N :: dec_uint r | D8 r => 56%N :: dec_uint r
  | D9 r => 57%N :: dec_uint r
  end.
Definition dec_N (n : N) : bytes := dec_uint (N.to_uint n).
Definition dec_Z (z : Z) : bytes :=
  match Z.to_int z with
  | Pos u => dec_uint u
  | Neg u => 45%N :: dec_uint u
  end.

Definition P_HEAD : bytes := ascii_bytes "{""version"":1,""memory_id"":""".
Definition P_ISSUER : bytes := ascii_bytes """,""issuer"":""".
Definition P_SEQ : bytes := ascii_bytes """,""seq_no"":".
Definition P_EXP : bytes := ascii_bytes ",""expires_in"":".
Definition P_CAP : bytes := ascii_bytes ",""capacity_bytes"":".
Definition P_NULL : bytes := ascii_bytes "null".
Definition P_TAIL : bytes := ascii_bytes "}".
(* the separators without their first character (the stop character used in the proofs) *)
Definition P_SEQ_tl : bytes := ascii_bytes ",""seq_no"":".
Definition P_EXP_tl : bytes := ascii_bytes """expires_in"":".
Definition P_CAP_tl : bytes := ascii_bytes """capacity_bytes"":".

Definition cap_str (c : option N) : bytes := match c with None => P_NULL | Some n => dec_N n end.

(* ticket_message_bytes(memory_id, issuer, seq_no, expires_in, capacity_bytes) *)
Definition canonical_payload (mid issuer : bytes) (seq : Z) (expires : N) (cap : option N) : bytes :=
  P_HEAD ++ uuid_str mid ++ P_ISSUER ++ json_esc issuer ++ P_SEQ ++ dec_Z seq ++ P_EXP ++ dec_N expires
         ++ P_CAP ++ cap_str cap ++ P_TAIL.

(* ---------- tickets and state ---------- *)

Record ticket := mkTicket { tk_issuer : bytes; tk_seq : Z; tk_expires : N; tk_cap : option N }.
Record sticket := mkSigned { st_ticket : ticket; st_mid : bytes; st_sig : bytes }.

(* types::TicketRef *)
Record ticket_ref := mkRef { tr_issuer : bytes; tr_seq : Z; tr_expires : N; tr_cap : N; tr_verified : bool }.
(* the TOC fields involved: ticket_ref, memory_binding (only its memory_id matters) *)
Record toc_t := mkToc { t_ticket : ticket_ref; t_binding : option bytes }.
Record mstate := mkSt { s_mem : toc_t; s_disk : toc_t; s_dirty : bool }.

Definition I64_MAX : Z := 9223372036854775807.
Definition FREE_CAP : N := 52428800%N.                 (* Tier::Free.capacity_bytes() = 50 MiB *)
Definition FREE_ISSUER : bytes := ascii_bytes "free-tier".

(* lifecycle.rs empty_toc / unbind_memory: the free-tier ticket *)
Definition free_ref : ticket_ref := mkRef FREE_ISSUER 1 0 FREE_CAP false.
Definition init_toc : toc_t := mkToc free_ref None.
Definition init_state : mstate := mkSt init_toc init_toc false.

(* error classes: 1 TicketSequence, 2 TicketSignatureInvalid, 3 MemoryAlreadyBound *)
Definition E_SEQ : N := 1%N.
Definition E_SIG : N := 2%N.
Definition E_BOUND : N := 3%N.

(* `return Err(TicketSequence { expected: current_seq + 1, .. })`: the i64 addition overflows
   (panics, overflow checks on) when the current sequence number is i64::MAX *)
Definition seq_error (current : Z) : outcome unit :=
  if I64_MAX <=? current then Panic 1%N else Err E_SEQ.

(* the five assignments to self.toc.ticket_ref *)
Definition ref_of (t : ticket) (verified : bool) : ticket_ref :=
  mkRef (tk_issuer t) (tk_seq t) (tk_expires t) (match tk_cap t with Some c => c | None => 0%N end) verified.

(* accepted ticket: update ticket_ref, rewrite_toc_footer + persist_header (whole TOC to the file) *)
Definition install (s : mstate) (t : ticket) (verified : bool) : mstate :=
  let toc := mkToc (ref_of t verified) (t_binding (s_mem s)) in
  mkSt toc toc (s_dirty s).

Definition apply_ticket (s : mstate) (t : ticket) : mstate * outcome unit :=
  let current := tr_seq (t_ticket (s_mem s)) in
  if tk_seq t <=? current then (s, seq_error current)
  else (install s t false, Ok tt).

Section Signed.
  (* verify pk msg sig = VerifyingKey::verify_strict(msg, sig).is_ok() *)
  Variable verify : bytes -> bytes -> bytes -> bool.
  (* parse_ed25519_public_key_base64(MEMVID_TICKET_PUBKEY): a constant *)
  Variable pubkey : bytes.

  (* signature.rs verify_ticket_signature *)
  Definition verify_ticket_signature (pk mid issuer : bytes) (seq : Z) (expires : N) (cap : option N) (sg : bytes) : outcome unit :=
    let message := canonical_payload mid issuer seq expires cap in
    if negb (Nat.eqb (List.length sg) 64) then Err E_SIG        (* to_signature: exactly 64 bytes *)
    else if verify pk message sg then Ok tt else Err E_SIG.

  Definition apply_signed_ticket (s : mstate) (st : sticket) : mstate * outcome unit :=
    let t := st_ticket st in
    match t_binding (s_mem s) with
    | None => (s, Err E_SIG)                                               (* 2. not bound *)
    | Some bound =>
        if negb (bytes_eqb (st_mid st) bound) then (s, Err E_SIG)          (* 3. memory id *)
        else
          match verify_ticket_signature pubkey (st_mid st) (tk_issuer t) (tk_seq t) (tk_expires t) (tk_cap t) (st_sig st) with
          | Err e => (s, Err e)                                            (* 4. signature *)
          | Panic p => (s, Panic p)
          | Ok _ =>
              let current := tr_seq (t_ticket (s_mem s)) in
              if tk_seq t <=? current then (s, seq_error current)          (* 5. replay *)
              else (install s t true, Ok tt)                               (* 6. apply *)
          end
    end.

  (* lifecycle.rs bind_memory / set_memory_binding_only / unbind_memory *)
  Definition already_bound (s : mstate) (mid : bytes) : bool :=
    match t_binding (s_mem s) with
    | Some existing => negb (bytes_eqb existing mid)
    | None => false
    end.

  Definition bind_memory (s : mstate) (mid : bytes) (t : ticket) : mstate * outcome unit :=
    if already_bound s mid then (s, Err E_BOUND)
    else
      match apply_ticket s t with
      | (s1, Ok _) => (mkSt (mkToc (t_ticket (s_mem s1)) (Some mid)) (s_disk s1) true, Ok tt)
      | (_, r) => (s, r)
      end.

  Definition bind_only (s : mstate) (mid : bytes) : mstate * outcome unit :=
    if already_bound s mid then (s, Err E_BOUND)
    else (mkSt (mkToc (t_ticket (s_mem s)) (Some mid)) (s_disk s) true, Ok tt).

  Definition unbind_memory (s : mstate) : mstate * outcome unit :=
    (mkSt (mkToc free_ref None) (s_disk s) true, Ok tt).

  (* commit: nothing pending in the log here, so it returns early unless dirty; otherwise the
     in-memory TOC is written *)
  Definition commit (s : mstate) : mstate :=
    if s_dirty s then mkSt (s_mem s) (s_mem s) false else s.

  (* drop (commits when dirty) then open: the TOC is read back from the file *)
  Definition reopen (s : mstate) : mstate :=
    let s1 := commit s in mkSt (s_disk s1) (s_disk s1) false.
  (* process exit without the Drop commit, then open *)
  Definition crash_reopen (s : mstate) : mstate := mkSt (s_disk s) (s_disk s) false.

  Inductive top :=
  | OApply (t : ticket)
  | OSigned (st : sticket)
  | OBind (mid : bytes) (t : ticket)
  | OBindOnly (mid : bytes)
  | OUnbind
  | OCommit
  | OReopen
  | OCrash.

  Definition tstep (s : mstate) (op : top) : mstate * outcome unit :=
    match op with
    | OApply t => apply_ticket s t
    | OSigned st => apply_signed_ticket s st
    | OBind mid t => bind_memory s mid t
    | OBindOnly mid => bind_only s mid
    | OUnbind => unbind_memory s
    | OCommit => (commit s, Ok tt)
    | OReopen => (reopen s, Ok tt)
    | OCrash => (crash_reopen s, Ok tt)
    end.

  (* observations: stats().seq_no, get_capacity() (free tier: log region below 4 MiB),
     current_ticket(), get_memory_binding().memory_id *)
  Definition stats_seq (s : mstate) : option Z :=
    let q := tr_seq (t_ticket (s_mem s)) in if q =? 0 then None else Some q.
  Definition get_capacity (s : mstate) : N :=
    let c := tr_cap (t_ticket (s_mem s)) in if (c =? 0)%N then FREE_CAP else c.
  Definition obs_t := (option Z * N * (bytes * Z * N * N * bool) * option bytes)%type.
  Definition observe (s : mstate) : obs_t :=
    let r := t_ticket (s_mem s) in
    (stats_seq s, get_capacity s, (tr_issuer r, tr_seq r, tr_expires r, tr_cap r, tr_verified r), t_binding (s_mem s)).

  Fixpoint trun (s : mstate) (ops : list top) : list (outcome unit * obs_t) :=
    match ops with
    | [] => []
    | op :: r => let '(s', o) := tstep s op in (o, observe s') :: trun s' r
    end.

  (* the sequence number a ticket-carrying op presents, if it has one *)
  Definition op_seq (op : top) : option Z :=
    match op with
    | OApply t => Some (tk_seq t)
    | OSigned st => Some (tk_seq (st_ticket st))
    | OBind _ t => Some (tk_seq t)
    | _ => None
    end.

  (* sequence numbers of the tickets accepted along a history, in order *)
  Fixpoint accepted (s : mstate) (ops : list top) : list Z :=
    match ops with
    | [] => []
    | op :: r =>
        let '(s', o) := tstep s op in
        match o, op_seq op with
        | Ok _, Some q => q :: accepted s' r
        | _, _ => accepted s' r
        end
    end.

  Fixpoint final (s : mstate) (ops : list top) : mstate :=
    match ops with
    | [] => s
    | op :: r => final (fst (tstep s op)) r
    end.

  Definition is_unbind (op : top) : bool := match op with OUnbind => true | _ => false end.
  Definition no_unbind (ops : list top) : bool := forallb (fun op => negb (is_unbind op)) ops.
End Signed.
