(* M-Fs (protocol level): the order and target of the file-system operations a commit
   issues, and what a crash at any point leaves behind.

   A file's content is abstract: a base version plus the list of writes applied to it.
   Every inode has a volatile content (what a surviving process / the page cache sees) and a
   durable content (what survives power loss); fsync copies volatile to durable.  The
   directory maps the memory's name and the staging name to inodes, again volatile/durable.

   Process crash  = the state after a prefix of the trace, volatile view.
   Power loss     = after a prefix: each inode keeps its durable content plus ANY prefix of
                    the writes not yet synced; directory operations not yet synced may be lost. *)
From MV Require Import Base.Prelude.
Local Open Scope N_scope.

Inductive wr := W (tag : N).                       (* one write / truncate, identified by a tag *)
Definition content := list wr.                      (* writes applied, oldest first *)

Inductive fsop :=
| OpenTmp                                           (* create the staging file (empty) in the directory *)
| CopyToTmp                                         (* staging := copy of the memory's current content *)
| WriteTmp (w : wr)                                 (* any write / truncate on the staging file *)
| FsyncTmp
| RenameTmp                                         (* rename(staging, memory) *)
| FsyncDir
| WriteMem (w : wr)                                 (* in-place write on the live memory file *)
| FsyncMem.

Record fs := mkFs {
  mem_v : content; mem_d : content;                 (* inode currently named by the memory path *)
  tmp_v : option content; tmp_d : option content;   (* staging inode, if it exists *)
  dir_synced : bool;                                (* false between an un-synced rename and the dir fsync *)
  old_d : content }.                                (* durable content of the inode the name pointed to before the un-synced rename *)

Definition fs0 (c : content) : fs := mkFs c c None None true c.

Definition step (s : fs) (op : fsop) : fs :=
  match op with
  | OpenTmp => mkFs (mem_v s) (mem_d s) (Some []) (Some []) (dir_synced s) (old_d s)
  | CopyToTmp => mkFs (mem_v s) (mem_d s) (Some (mem_v s)) (tmp_d s) (dir_synced s) (old_d s)
  | WriteTmp w => match tmp_v s with
                  | Some c => mkFs (mem_v s) (mem_d s) (Some (c ++ [w])) (tmp_d s) (dir_synced s) (old_d s)
                  | None => s
                  end
  | FsyncTmp => mkFs (mem_v s) (mem_d s) (tmp_v s) (tmp_v s) (dir_synced s) (old_d s)
  | RenameTmp => match tmp_v s, tmp_d s with
                 | Some c, Some d => mkFs c d None None false (mem_d s)
                 | Some c, None => mkFs c [] None None false (mem_d s)
                 | None, _ => s
                 end
  | FsyncDir => mkFs (mem_v s) (mem_d s) (tmp_v s) (tmp_d s) true (mem_d s)
  | WriteMem w => mkFs (mem_v s ++ [w]) (mem_d s) (tmp_v s) (tmp_d s) (dir_synced s) (old_d s)
  | FsyncMem => mkFs (mem_v s) (mem_v s) (tmp_v s) (tmp_d s) (dir_synced s) (old_d s)
  end.

Definition exec (s : fs) (t : list fsop) : fs := fold_left step t s.

(* what a process crash leaves under the memory's name *)
Definition after_crash (s : fs) : content := mem_v s.

(* what power loss may leave under the memory's name: the durable content of the inode the
   durable directory points to, plus any prefix of that inode's unsynced writes *)
Definition after_power_loss (s : fs) (c : content) : Prop :=
  (exists k, c = mem_d s ++ firstn k (skipn (length (mem_d s)) (mem_v s))) \/
  (dir_synced s = false /\ c = old_d s).

(* the staged-commit protocol as with_staging_lock + atomic-write-file issue it:
   fsync(memory); create staging; copy; fsync; (writes and fsyncs on staging)*; fsync; rename; fsync dir *)
Fixpoint only_tmp_writes (t : list fsop) : bool :=
  match t with
  | [] => true
  | WriteTmp _ :: r => only_tmp_writes r
  | FsyncTmp :: r => only_tmp_writes r
  | _ => false
  end.

Definition staged_commit_ok (t : list fsop) : bool :=
  match t with
  | FsyncMem :: OpenTmp :: CopyToTmp :: FsyncTmp :: r =>
      match rev r with
      | FsyncDir :: RenameTmp :: FsyncTmp :: body_rev => only_tmp_writes (rev body_rev)
      | _ => false
      end
  | _ => false
  end.

(* the log-append protocol of EmbeddedWal::append_entry: write the record, fsync, write the sentinel *)
Definition wal_append_ok (t : list fsop) : bool :=
  match t with
  | [WriteMem _; FsyncMem; WriteMem _] => true
  | [WriteMem _; FsyncMem] => true            (* no room for a sentinel *)
  | _ => false
  end.

(* a put of a chunked document (or an update that re-chunks) issues several appends in a row:
   (record write, fsync, optional sentinel write)* ; each of them is one wal_append *)
Fixpoint wal_appends_ok (t : list fsop) : bool :=
  match t with
  | [] => true
  | WriteMem _ :: FsyncMem :: r =>
      match r with
      | WriteMem _ :: r' => wal_appends_ok r' || wal_appends_ok r
      | _ => wal_appends_ok r
      end
  | _ => false
  end.
